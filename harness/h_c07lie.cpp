// C07 - Lie-group instances of the Manifold axioms, checked numerically on the real library (failing-input search;
// not a proof): SO3, SE2, SE3, Bundle<SO3, R2, SE2> as base manifolds and inside every adaptor
// (std::vector, std::variant, SubManifold with every subset of fixed dims, AnyManifold).
//   rminus(rplus(m,a),m) = a   (rotation part of a below pi)        tolerance 1e-9
//   rplus(m,rminus(m2,m)) = m2 (SubManifold: m2 reachable from m)   tolerance 1e-9 (measured as |rminus(.,m2)|)
//   rminus(m,m) = 0, dof = tangent length accepted / returned, cast<double> identical + independent, copy independent,
//   containers act element-wise on consecutive segments, SubManifold moves only along its free directions.
// The oracle for the adaptors is the harness's own index arithmetic (mask / offsets), not the library's.
#include <algorithm>
#include <cmath>
#include <sstream>
#include <string>
#include <variant>
#include <vector>

#include <Eigen/Core>

#include "smooth/bundle.hpp"
#include "smooth/manifolds.hpp"
#include "smooth/manifolds/any.hpp"
#include "smooth/manifolds/submanifold.hpp"
#include "smooth/se2.hpp"
#include "smooth/se3.hpp"
#include "smooth/so3.hpp"

#include "hcommon.hpp"

using namespace hv;
using SO3 = smooth::SO3d;
using SE2 = smooth::SE2d;
using SE3 = smooth::SE3d;
using BUN = smooth::Bundle<smooth::SO3d, Eigen::Vector2d, smooth::SE2d>;
using Vec = Eigen::VectorXd;

static constexpr double TOL = 1e-9;
static Report R;

template<typename G>
struct Info;
template<>
struct Info<SO3>
{
  static constexpr const char * name = "SO3";
  // (offset, length) of rotation parts inside the tangent
  static std::vector<std::pair<int, int>> rot() { return {{0, 3}}; }
};
template<>
struct Info<SE2>
{
  static constexpr const char * name = "SE2";
  static std::vector<std::pair<int, int>> rot() { return {{2, 1}}; }
};
template<>
struct Info<SE3>
{
  static constexpr const char * name = "SE3";
  static std::vector<std::pair<int, int>> rot() { return {{3, 3}}; }
};
template<>
struct Info<BUN>
{
  static constexpr const char * name = "Bundle<SO3,R2,SE2>";
  static std::vector<std::pair<int, int>> rot() { return {{0, 3}, {7, 1}}; }
};

// stratified tangent with every rotation part of norm < pi
template<typename G>
static Vec gen_tangent(Rng & r, std::string & label)
{
  constexpr int n = smooth::Dof<G>;
  Vec a(n);
  for (int i = 0; i < n; ++i) a(i) = strat_lin(r, 50.0);
  label.clear();
  for (auto [off, len] : Info<G>::rot()) {
    Strat s = strat_angle(r, false);
    double ang = s.v;
    if (std::string(s.label) == "half_turn") ang = M_PI - 1e-3;            // the property excludes |rot| = pi
    if (std::string(s.label) == "near_pi") ang = std::min(ang, M_PI - 1e-6); // log is ill-conditioned closer to pi
    double ax[3];
    rand_axis(r, len, ax);
    if (len == 1) ax[0] = r.below(2) ? 1.0 : -1.0;
    for (int i = 0; i < len; ++i) a(off + i) = ang * ax[i];
    label += std::string(label.empty() ? "" : "+") + s.label;
  }
  return a;
}
template<typename G>
static G gen_elem(Rng & r)
{
  std::string l;
  return G::exp(gen_tangent<G>(r, l));
}

static void failj(const std::string & check, const std::string & sig, const std::string & type, const std::string & stratum, double err,
                  const std::string & input)
{
  std::ostringstream js;
  js.precision(17);
  js << "{\"check\":\"" << check << "\",\"signature\":\"" << sig << "\",\"type\":\"" << type << "\",\"stratum\":\"" << stratum
     << "\",\"err\":" << (std::isfinite(err) ? err : -1.0) << ",\"input\":" << input << "}";
  R.fail(js.str(), check + "/" + sig + "/" + type, std::isfinite(err) ? err : 1e300);   // kept per key (hcommon.hpp)
}

// the three axioms + dof on any manifold value x of type M with a tangent a assumed inside the injectivity radius
template<typename M>
static void axioms(const M & x, const Vec & a, const std::string & type, const std::string & stratum)
{
  ++R.evaluations;
  ++R.strata[type + ":" + stratum];
  const std::string input = "{\"a\":" + jvec(a) + "}";
  if (smooth::dof(x) != a.size()) failj("dof", "dof!=size(a)", type, stratum, 0, input);
  const auto y = smooth::rplus(x, a);
  if (smooth::dof(y) != smooth::dof(x)) failj("dof", "dof(rplus)!=dof", type, stratum, 0, input);
  const Vec t = smooth::rminus(y, x);
  if (t.size() != a.size()) {
    failj("dof", "size(rminus)!=dof", type, stratum, 0, input);
    return;
  }
  const double e1 = a.size() ? (t - a).cwiseAbs().maxCoeff() : 0.0;
  R.tally("rminus_rplus:" + type, e1);
  if (!(e1 <= TOL * std::max(1.0, a.size() ? a.cwiseAbs().maxCoeff() : 0.0))) failj("rminus_rplus", "rminus(rplus(m,a),m)!=a", type, stratum, e1, input);
  const auto back = smooth::rplus(x, t);   // rplus(m, rminus(m2, m)) with m2 = y (reachable)
  const Vec d     = smooth::rminus(back, y);
  const double e2 = d.size() ? d.cwiseAbs().maxCoeff() : 0.0;
  R.tally("rplus_rminus:" + type, e2);
  if (!(e2 <= TOL * std::max(1.0, a.size() ? a.cwiseAbs().maxCoeff() : 0.0))) failj("rplus_rminus", "rplus(m,rminus(m2,m))!=m2", type, stratum, e2, input);
  const Vec z     = smooth::rminus(x, x);
  const double e3 = z.size() ? z.cwiseAbs().maxCoeff() : 0.0;
  R.tally("rminus_self:" + type, e3);
  if (z.size() != a.size() || !(e3 <= 1e-12)) failj("rminus_self", "rminus(m,m)!=0", type, stratum, e3, input);
}

template<typename G>
static double gdist(const G & a, const G & b)
{
  const Vec d = smooth::rminus(a, b);
  return d.size() ? d.cwiseAbs().maxCoeff() : 0.0;
}

template<typename G>
static void run_group(Rng & r, int N)
{
  const std::string name = Info<G>::name;
  constexpr int n        = smooth::Dof<G>;
  for (int it = 0; it < N; ++it) {
    std::string lab;
    const G m   = gen_elem<G>(r);
    const Vec a = gen_tangent<G>(r, lab);
    // base manifold
    axioms(m, a, name, lab);
    if (it == 1) {
      const Vec t = smooth::rminus(smooth::rplus(m, a), m);
      R.sample("{\"type\":\"" + name + "\",\"stratum\":\"" + lab + "\",\"a\":" + jvec(a) + ",\"rminus(rplus(m,a),m)\":" + jvec(t) + "}");
    }
    // general m2 (not constructed by rplus): rplus(m, rminus(m2, m)) = m2
    {
      const G m2     = gen_elem<G>(r);
      const Vec t    = smooth::rminus(m2, m);
      bool inside    = true;
      for (auto [off, len] : Info<G>::rot()) inside = inside && t.segment(off, len).norm() < M_PI - 1e-6;
      const double e = gdist(smooth::rplus(m, t), m2);
      R.tally("rplus_rminus_general:" + name, e);
      if (inside && !(e <= TOL * std::max(1.0, t.cwiseAbs().maxCoeff()))) failj("rplus_rminus", "general m2", name, lab, e, "{\"t\":" + jvec(t) + "}");
    }
    // cast to the same scalar: identical coefficients
    {
      const auto c = smooth::cast<double>(m);
      if (!(c.coeffs() == m.coeffs())) failj("cast_same_scalar", "coefficients differ", name, lab, 0, "{}");
    }
    // std::vector<G>: sizes 0..8, element-wise on consecutive segments
    {
      const int size = r.below(9);
      std::vector<G> v;
      Vec av(size * n);
      std::string l2 = "size" + std::to_string(size);
      for (int i = 0; i < size; ++i) {
        std::string li;
        v.push_back(gen_elem<G>(r));
        av.segment(i * n, n) = gen_tangent<G>(r, li);
      }
      axioms(v, av, "std::vector<" + name + ">", l2);
      const auto w = smooth::rplus(v, av);
      bool ok      = w.size() == v.size();
      for (int i = 0; ok && i < size; ++i) ok = gdist(w[static_cast<size_t>(i)], smooth::rplus(v[static_cast<size_t>(i)], av.segment(i * n, n))) <= 1e-12;
      if (!ok) failj("elementwise", "vector rplus is not element-wise on consecutive segments", "std::vector<" + name + ">", l2, 0, "{\"a\":" + jvec(av) + "}");
      const auto c = smooth::cast<double>(v);
      bool same    = c.size() == v.size();
      for (size_t i = 0; same && i < v.size(); ++i) same = c[i].coeffs() == v[i].coeffs();
      if (!same) failj("cast_same_scalar", "vector elements differ", "std::vector<" + name + ">", l2, 0, "{}");
    }
    // std::variant holding G
    {
      using VAR = std::variant<double, G, Eigen::Vector2d, std::vector<G>>;
      const VAR v(m);
      axioms(v, a, "std::variant<.." + name + "..>", lab);
      const VAR w = smooth::rplus(v, a);
      if (w.index() != 1) failj("variant", "rplus changed the alternative", "std::variant<.." + name + "..>", lab, 0, "{}");
    }
    // AnyManifold holding G: axioms + copy independence
    {
      smooth::AnyManifold x(m);
      axioms(x, a, "AnyManifold(" + name + ")", lab);
      smooth::AnyManifold c(x);
      c.template get<G>() = gen_elem<G>(r);
      if (!(x.template get<G>().coeffs() == m.coeffs())) failj("copy_independent", "AnyManifold copy aliases the original", "AnyManifold(" + name + ")", lab, 0, "{}");
      smooth::AnyManifold c2(x);
      c2 = c;
      c.template get<G>() = m;
      if (c2.template get<G>().coeffs() == m.coeffs() && !(c2.template get<G>().coeffs() == x.template get<G>().coeffs()))
        failj("copy_independent", "AnyManifold copy-assignment aliases", "AnyManifold(" + name + ")", lab, 0, "{}");
    }
    // SubManifold<G>: a subset of fixed dims (all subsets are swept over the run: mask = it mod 2^n for n <= 6, random otherwise)
    {
      const unsigned nmask = 1u << n;
      const unsigned mask  = n <= 6 ? static_cast<unsigned>(it) % nmask : static_cast<unsigned>(r.next() % nmask);
      std::vector<int> fixed;
      for (int i = 0; i < n; ++i)
        if (mask & (1u << i)) fixed.push_back(i);
      std::vector<int> shuf = fixed;
      for (size_t i = shuf.size(); i > 1; --i) std::swap(shuf[i - 1], shuf[static_cast<size_t>(r.below(static_cast<int>(i)))]);
      Eigen::VectorXi fd(static_cast<Eigen::Index>(shuf.size()));
      for (size_t i = 0; i < shuf.size(); ++i) fd(static_cast<Eigen::Index>(i)) = shuf[i];
      const G m0 = gen_elem<G>(r);
      const smooth::SubManifold<G> s(m0, m, fd);
      const int sd = n - static_cast<int>(fixed.size());
      // free tangent: keep the embedded rotation part below pi by taking the free entries of a valid full tangent
      Vec af(sd), lift = Vec::Zero(n);
      for (int i = 0, j = 0; i < n; ++i)
        if (!(mask & (1u << i))) {
          af(j++) = a(i);
          lift(i) = a(i);
        }
      const std::string type = "SubManifold<" + name + ">";
      const std::string l2   = lab + "/fixed" + std::to_string(fixed.size());
      axioms(s, af, type, l2);
      if (smooth::dof(s) != sd) failj("dof", "sub_dof != n-|fixed|", type, l2, 0, "{\"mask\":" + std::to_string(mask) + "}");
      const auto sp = smooth::rplus(s, af);
      const double em = gdist(sp.m(), smooth::rplus(m, lift));
      if (!(em <= 1e-12)) failj("sub_moves_only_free", "value != m (+) lifted tangent", type, l2, em, "{\"mask\":" + std::to_string(mask) + ",\"a\":" + jvec(af) + "}");
      if (!(sp.m0().coeffs() == m0.coeffs())) failj("sub_keeps_origin", "origin changed by rplus", type, l2, 0, "{\"mask\":" + std::to_string(mask) + "}");
      bool fsame = sp.fixed_dims().size() == static_cast<Eigen::Index>(fixed.size());
      for (size_t i = 0; fsame && i < fixed.size(); ++i) fsame = sp.fixed_dims()(static_cast<Eigen::Index>(i)) == fixed[i];
      if (!fsame) failj("sub_keeps_origin", "fixed dims changed / not sorted", type, l2, 0, "{\"mask\":" + std::to_string(mask) + "}");
      // cast<double>: same origin, same value
      const auto c   = smooth::cast<double>(sp);
      const bool cm  = c.m().coeffs() == sp.m().coeffs(), cm0 = c.m0().coeffs() == sp.m0().coeffs();
      const bool swp = c.m().coeffs() == sp.m0().coeffs() && c.m0().coeffs() == sp.m().coeffs();
      ++R.strata["cast:" + type];
      if (!(cm && cm0)) failj("cast_same_scalar", swp ? "m0_m_swapped" : "other", type, l2, 0, "{\"mask\":" + std::to_string(mask) + "}");
    }
  }
}

int main()
{
  Rng r(seed_from_env() * 1000003ULL + 77);
  R.property  = "C07";
  const int N = thorough() ? 6000 : 600;
  run_group<SO3>(r, N);
  run_group<SE2>(r, N);
  run_group<SE3>(r, N);
  run_group<BUN>(r, N);
  R.print();
  return 0;
}
