// C08 correspondence harness, layout stream: runs the REAL smooth::diff::dr<K, Numerical> (with and without index
// subset) on polynomial probe maps (degree <= 2, pairwise distinct coefficients: every Jacobian/Hessian slot is
// identifiable) over all argument-kind combinations of a pool of translation-like Manifold kinds
//   0 double | 1 Eigen::Vector2d (static) | 2 Eigen::VectorXd (dynamic) | 3 std::vector<double> | 4 Bundle<R2,R1>
// with const / non-const references, every non-empty index subset (+ one permuted index list), K = 0,1,2 and three
// result kinds (double, Vector2d, VectorXd).  For each call it prints
//   CASE <id> ...   the input in the form the extracted Coq model reads (extract/C08/driver.ml)
//   RES  <id> ...   value, J, H and the caller's argument objects after the call (hex floats); for K = 2 also the J of a
//                   dr<1> call on the same map and point (section K1J): diff_impl.hpp:79 makes the two identical
// scripts/props_C08.py feeds the CASE lines to the model and compares (exactly on the "exact" stream whose
// coordinates are 0 or +-2^m so that no floating-point operation rounds; to a rounding allowance otherwise), and
// checks the property itself against the closed-form derivatives of the polynomial.
// Sharded at compile time: -DC08_SHARD=k -DC08_NSHARD=n selects the shapes with id % n == k.
#include <cstdio>
#include <cstdlib>
#include <string>
#include <tuple>
#include <utility>
#include <vector>

#include "smooth/bundle.hpp"
#include "smooth/diff.hpp"

#include "hcommon.hpp"

#ifndef C08_SHARD
#define C08_SHARD 0
#endif
#ifndef C08_NSHARD
#define C08_NSHARD 1
#endif

using BT = smooth::Bundle<Eigen::Vector2d, Eigen::Matrix<double, 1, 1>>;

template<int K>
struct KindT;
template<>
struct KindT<0>
{
  using type = double;
};
template<>
struct KindT<1>
{
  using type = Eigen::Vector2d;
};
template<>
struct KindT<2>
{
  using type = Eigen::VectorXd;
};
template<>
struct KindT<3>
{
  using type = std::vector<double>;
};
template<>
struct KindT<4>
{
  using type = BT;
};

// ---- coordinates of an argument (its translation-group coordinates, in tangent order)
inline void flat(const double & v, std::vector<double> & z) { z.push_back(v); }
template<typename D>
void flat(const Eigen::MatrixBase<D> & v, std::vector<double> & z)
{
  for (Eigen::Index i = 0; i < v.size(); ++i) z.push_back(v(i));
}
inline void flat(const std::vector<double> & v, std::vector<double> & z)
{
  for (double d : v) z.push_back(d);
}
inline void flat(const BT & b, std::vector<double> & z)
{
  z.push_back(b.part<0>()(0));
  z.push_back(b.part<0>()(1));
  z.push_back(b.part<1>()(0));
}
template<class T>
constexpr bool is_vec_kind = std::is_base_of_v<Eigen::MatrixBase<T>, T>;  // what the MODEL is told; the code decides itself

// ---- value generation: stream 0 "exact": 0 or +-2^m (m in -3..3); stream 1 "general": k/8, |k| <= 80
inline int gen_coord8(hv::Rng & r, int stream)  // returns 8 * coordinate
{
  if (r.below(5) == 0) return 0;
  int sgn = r.below(2) ? 1 : -1;
  if (stream == 0) return sgn * (1 << r.below(7));
  return sgn * (1 + r.below(80));
}
inline void make(double & v, hv::Rng & r, int s) { v = gen_coord8(r, s) / 8.0; }
inline void make(Eigen::Vector2d & v, hv::Rng & r, int s)
{
  for (int i = 0; i < 2; ++i) v(i) = gen_coord8(r, s) / 8.0;
}
inline void make(Eigen::VectorXd & v, hv::Rng & r, int s)
{
  int n = r.below(8) == 0 ? 0 : 1 + r.below(3);
  v.resize(n);
  for (int i = 0; i < n; ++i) v(i) = gen_coord8(r, s) / 8.0;
}
inline void make(std::vector<double> & v, hv::Rng & r, int s)
{
  int n = r.below(8) == 0 ? 0 : 1 + r.below(3);
  v.resize(n);
  for (int i = 0; i < n; ++i) v[i] = gen_coord8(r, s) / 8.0;
}
inline void make(BT & b, hv::Rng & r, int s)
{
  b.part<0>()(0) = gen_coord8(r, s) / 8.0;
  b.part<0>()(1) = gen_coord8(r, s) / 8.0;
  b.part<1>()(0) = gen_coord8(r, s) / 8.0;
}

// ---- polynomial probe map, coefficients = integers / 16, pairwise distinct
struct PolyMap
{
  int ny = 0, n = 0;
  std::vector<int> c, L, Q;  // 16 * coefficient; Q is n x n upper triangular per output
  Eigen::VectorXd eval(const std::vector<double> & z) const
  {
    Eigen::VectorXd y(ny);
    for (int j = 0; j < ny; ++j) {
      double lin = 0;
      for (int a = 0; a < n; ++a) lin += (L[j * n + a] / 16.0) * z[a];
      double quad = 0;
      for (int a = 0; a < n; ++a) {
        double row = 0;
        for (int b = 0; b < n; ++b) row += (Q[(j * n + a) * n + b] / 16.0) * z[b];
        quad += row * z[a];
      }
      y(j) = (c[j] / 16.0 + lin) + quad;
    }
    return y;
  }
};
inline PolyMap gen_poly(hv::Rng & r, int ny, int n, bool squares)
{
  // distinct numerators: linear ones odd (1,3,5,..), off-diagonal quadratic ones = 2 mod 4, diagonal ones (whose
  // Hessian entry is twice the coefficient) = 4 mod 8  -> all Jacobian-constant / Hessian slots pairwise distinct
  PolyMap p;
  p.ny = ny, p.n = n;
  p.c.resize(ny), p.L.resize(ny * n), p.Q.assign(ny * n * n, 0);
  int lo = 1 + 2 * r.below(4), qo = 2 + 4 * r.below(3), qd = 4 + 8 * r.below(2);
  for (int j = 0; j < ny; ++j) {
    p.c[j] = r.below(33) - 16;
    for (int a = 0; a < n; ++a) {
      p.L[j * n + a] = (r.below(2) ? 1 : -1) * lo;
      lo += 2;
    }
    for (int a = 0; a < n; ++a)
      for (int b = a; b < n; ++b) {
        if (a == b) {
          if (squares) {
            p.Q[(j * n + a) * n + b] = (r.below(2) ? 1 : -1) * qd;
            qd += 8;
          }
        } else {
          p.Q[(j * n + a) * n + b] = (r.below(2) ? 1 : -1) * qo;
          qo += 4;
        }
      }
  }
  return p;
}

template<int RK>
struct PolyF
{
  const PolyMap * pm;
  template<class... A>
  auto operator()(const A &... a) const
  {
    std::vector<double> z;
    (flat(a, z), ...);
    Eigen::VectorXd y = pm->eval(z);
    if constexpr (RK == 0) {
      return double(y(0));
    } else if constexpr (RK == 1) {
      return Eigen::Vector2d(y);
    } else {
      return y;
    }
  }
};

// ---- printing
inline void pval(std::string & s, double v)
{
  char b[64];
  std::snprintf(b, sizeof b, " %a", v);
  s += b;
}
inline void pint(std::string & s, const char * tag, long v)
{
  char b[64];
  std::snprintf(b, sizeof b, " %s %ld", tag, v);
  s += b;
}
inline void print_val(std::string & s, const double & y)
{
  pint(s, "V", 1);
  pval(s, y);
}
template<typename D>
void print_val(std::string & s, const Eigen::MatrixBase<D> & y)
{
  pint(s, "V", y.size());
  for (Eigen::Index i = 0; i < y.size(); ++i) pval(s, y(i));
}
template<typename M>
void print_J(std::string & s, const M & J)
{
  pint(s, "J", J.cols());
  for (Eigen::Index c = 0; c < J.cols(); ++c) {
    pint(s, "C", J.rows());
    for (Eigen::Index r = 0; r < J.rows(); ++r) pval(s, J(r, c));
  }
}
template<typename M>
void print_H(std::string & s, const M & H)
{
  pint(s, "H", H.rows());
  for (Eigen::Index r = 0; r < H.rows(); ++r) {
    pint(s, "R", H.cols());
    for (Eigen::Index c = 0; c < H.cols(); ++c) pval(s, H(r, c));
  }
}
template<class Tup>
void print_args(std::string & s, const Tup & t)
{
  pint(s, "A", std::tuple_size_v<Tup>);
  std::apply(
    [&](const auto &... a) {
      (([&] {
         std::vector<double> z;
         flat(a, z);
         pint(s, "X", z.size());
         for (double d : z) pval(s, d);
       }()),
       ...);
    },
    t);
}

template<unsigned Mask, std::size_t I, class T>
decltype(auto) cref(T & t)
{
  if constexpr ((Mask >> I) & 1u) {
    return std::as_const(t);
  } else {
    return (t);
  }
}

template<unsigned M, std::size_t N, std::size_t I = 0, std::size_t... Acc>
struct MaskSeq : std::conditional_t<((M >> I) & 1u) != 0, MaskSeq<M, N, I + 1, Acc..., I>, MaskSeq<M, N, I + 1, Acc...>>
{};
template<unsigned M, std::size_t N, std::size_t... Acc>
struct MaskSeq<M, N, N, Acc...>
{
  using type = std::index_sequence<Acc...>;
};

static long g_cases = 0;

// one call of the real diff::dr; Idx... empty and UseIdx=false: the overload without index sequence
template<int ShapeId, unsigned CMask, int RK, std::size_t K, bool UseIdx, class Tup, std::size_t... Idx>
void one_call(hv::Rng & rng, const Tup & vals0, int rep, int stream, const char * idxname, std::index_sequence<Idx...> idx)
{
  constexpr std::size_t N = std::tuple_size_v<Tup>;
  Tup vals = vals0;  // fresh caller objects for this call
  std::vector<double> z0;
  std::apply([&](const auto &... a) { (flat(a, z0), ...); }, vals);
  const int n  = static_cast<int>(z0.size());
  const int ny = RK == 0 ? 1 : RK == 1 ? 2 : 1 + rng.below(3);
  // K=1 on the exact stream: no squares (a square of x(1+2^-26) times a coefficient does not fit 53 bits)
  PolyMap pm = gen_poly(rng, ny, n, !(stream == 0 && K == 1));
  if (RK == 2 && stream == 0 && K == 1) {
    // step probe: extra outputs y = z_a^2 (one term, coefficient 1: exact in binary64 for an Eigen-vector coordinate
    // 2^m (1 + 2^-26) and for |z_a| <= 1 otherwise); their J entry (f(x+h)-f(x))/h = 2 z_a + h exposes the sign and
    // size of the step exactly, which the multilinear part cannot
    std::size_t a = 0;
    std::apply(
      [&](const auto &... arg) {
        (([&] {
           std::vector<double> z;
           flat(arg, z);
           for (double d : z) {
             if (is_vec_kind<std::decay_t<decltype(arg)>> || std::abs(d) <= 1.0) {
               pm.c.push_back(0);
               pm.L.resize(pm.L.size() + n, 0);
               pm.Q.resize(pm.Q.size() + static_cast<std::size_t>(n) * n, 0);
               pm.Q[(static_cast<std::size_t>(pm.ny) * n + a) * n + a] = 16;
               ++pm.ny;
             }
             ++a;
           }
         }()),
         ...);
      },
      vals);
  }
  const int ny_all = pm.ny;
  PolyF<RK> f{&pm};

  char idb[128];
  std::snprintf(idb, sizeof idb, "s%d_r%d_t%d_K%zu_i%s", ShapeId, rep, stream, K, idxname);
  std::string cs = std::string("CASE ") + idb;
  pint(cs, "K", K);
  if constexpr (UseIdx) {
    pint(cs, "IDX", sizeof...(Idx));
    ((cs += " " + std::to_string(Idx)), ...);
  } else {
    pint(cs, "IDX", -1);
  }
  pint(cs, "ARGS", N);
  std::apply(
    [&](const auto &... a) {
      (([&] {
         std::vector<double> z;
         flat(a, z);
         cs += is_vec_kind<std::decay_t<decltype(a)>> ? " 1" : " 0";
         cs += " " + std::to_string(z.size());
         for (double d : z) cs += " " + std::to_string(static_cast<long>(d * 8)) + "/8";
       }()),
       ...);
    },
    vals);
  pint(cs, "NY", ny_all);
  pint(cs, "N", n);
  cs += " CONST";
  for (int v : pm.c) cs += " " + std::to_string(v) + "/16";
  cs += " LIN";
  for (int v : pm.L) cs += " " + std::to_string(v) + "/16";
  cs += " QUAD";
  for (int v : pm.Q) cs += " " + std::to_string(v) + "/16";
  cs += " CMASK " + std::to_string(CMask) + " RK " + std::to_string(RK);
  std::puts(cs.c_str());

  std::string rs = std::string("RES ") + idb;
  std::string k1j;
  auto mkwrt = [&]<std::size_t... I>(std::index_sequence<I...>) { return smooth::wrt(cref<CMask, I>(std::get<I>(vals))...); };
  constexpr auto seqN = std::make_index_sequence<N>{};
  if constexpr (K == 0) {
    if constexpr (UseIdx) {
      auto res = smooth::diff::dr<0, smooth::diff::Type::Numerical>(f, mkwrt(seqN), idx);
      print_val(rs, std::get<0>(res));
    } else {
      auto res = smooth::diff::dr<0, smooth::diff::Type::Numerical>(f, mkwrt(seqN));
      print_val(rs, std::get<0>(res));
    }
    rs += " J -1 H -1";
  } else if constexpr (K == 1) {
    if constexpr (UseIdx) {
      auto [fv, J] = smooth::diff::dr<1, smooth::diff::Type::Numerical>(f, mkwrt(seqN), idx);
      print_val(rs, fv);
      print_J(rs, J);
    } else {
      auto w       = mkwrt(seqN);  // lvalue tuple: exercises wrt_copy_if_const(const tuple &)
      auto [fv, J] = smooth::diff::dr<1, smooth::diff::Type::Numerical>(f, w);
      print_val(rs, fv);
      print_J(rs, J);
    }
    rs += " H -1";
  } else {
    if constexpr (UseIdx) {
      auto [fv, J, H] = smooth::diff::dr<2, smooth::diff::Type::Numerical>(f, mkwrt(seqN), idx);
      print_val(rs, fv);
      print_J(rs, J);
      print_H(rs, H);
    } else {
      auto [fv, J, H] = smooth::diff::dr<2, smooth::diff::Type::Numerical>(f, mkwrt(seqN));
      print_val(rs, fv);
      print_J(rs, J);
      print_H(rs, H);
    }
    // diff_impl.hpp:79: the first-derivative output of the K = 2 routine is the output of the K = 1 routine
    // (theorem C08_k2_jac_is_k1_jac).  Same map, same point, fresh caller objects: props_C08.py compares the two
    // J bit for bit (section K1J of the RES line; the model prints no such section).
    Tup vals1   = vals0;
    auto mkwrt1 = [&]<std::size_t... I>(std::index_sequence<I...>) { return smooth::wrt(cref<CMask, I>(std::get<I>(vals1))...); };
    if constexpr (UseIdx) {
      auto [fv1, J1] = smooth::diff::dr<1, smooth::diff::Type::Numerical>(f, mkwrt1(seqN), idx);
      print_J(k1j, J1);
    } else {
      auto w1        = mkwrt1(seqN);
      auto [fv1, J1] = smooth::diff::dr<1, smooth::diff::Type::Numerical>(f, w1);
      print_J(k1j, J1);
    }
  }
  print_args(rs, vals);
  if (!k1j.empty()) rs += " K1J" + k1j;
  std::puts(rs.c_str());
  ++g_cases;
}

template<int ShapeId, unsigned CMask, int RK, std::size_t K, class Tup, unsigned M = 1>
void all_subsets(hv::Rng & rng, const Tup & vals, int rep, int stream)
{
  constexpr std::size_t N = std::tuple_size_v<Tup>;
  if constexpr (M < (1u << N)) {
    char nm[16];
    std::snprintf(nm, sizeof nm, "m%u", M);
    one_call<ShapeId, CMask, RK, K, true>(rng, vals, rep, stream, nm, typename MaskSeq<M, N>::type{});
    all_subsets<ShapeId, CMask, RK, K, Tup, M + 1>(rng, vals, rep, stream);
  }
}

template<int ShapeId, unsigned CMask, int RK, int... Ks>
void run_shape(uint64_t seed, int reps)
{
  if constexpr (ShapeId % C08_NSHARD == C08_SHARD) {
    hv::Rng rng(seed * 1000003ULL + 7919ULL * ShapeId + 1);
    using Tup                = std::tuple<typename KindT<Ks>::type...>;
    constexpr std::size_t N = sizeof...(Ks);
    for (int rep = 0; rep < reps; ++rep)
      for (int stream = 0; stream < 2; ++stream) {
        Tup vals;
        std::apply([&](auto &... a) { (make(a, rng, stream), ...); }, vals);
        smooth::utils::static_for<3>([&](auto Kc) {
          constexpr std::size_t K = Kc;
          one_call<ShapeId, CMask, RK, K, false>(rng, vals, rep, stream, "full", std::index_sequence<>{});
          all_subsets<ShapeId, CMask, RK, K>(rng, vals, rep, stream);
          if constexpr (N == 2) one_call<ShapeId, CMask, RK, K, true>(rng, vals, rep, stream, "p10", std::index_sequence<1, 0>{});
          if constexpr (N == 3) one_call<ShapeId, CMask, RK, K, true>(rng, vals, rep, stream, "p20", std::index_sequence<2, 0>{});
        });
      }
  }
}

// shape tables: arity 1: ids 0..9; arity 2: ids 10..59 (all 25 kind pairs x 2 const masks); arity 3: ids 60..84
// (25 triples forming an orthogonal array of strength 2: every pair of kinds occurs at every pair of positions)
template<int S>
void shape1(uint64_t seed, int reps)
{
  run_shape<S, S % 2, S % 3, S / 2>(seed, reps);
}
template<int S>
void shape2(uint64_t seed, int reps)
{
  constexpr int pair = S / 2;
  run_shape<10 + S, (S % 2 == 0) ? (pair % 4) : ((pair + 2 + pair / 4) % 4), S % 3, pair / 5, pair % 5>(seed, reps);
}
template<int S>
void shape3(uint64_t seed, int reps)
{
  run_shape<60 + S, (S * 3 + 1) % 8, S % 3, S / 5, S % 5, (S / 5 + S % 5) % 5>(seed, reps);
}

int main(int argc, char ** argv)
{
  std::setvbuf(stdout, nullptr, _IOLBF, 0);  // a CASE line must be out before the call it describes can crash
  const uint64_t seed = hv::seed_from_env();
  int reps            = hv::thorough() ? 10 : 1;
  if (argc > 1) reps = std::atoi(argv[1]);
  smooth::utils::static_for<10>([&](auto s) { shape1<s>(seed, reps); });
  smooth::utils::static_for<50>([&](auto s) { shape2<s>(seed, reps); });
  smooth::utils::static_for<25>([&](auto s) { shape3<s>(seed, reps); });
  std::printf("DONE %ld\n", g_cases);
  return 0;
}
