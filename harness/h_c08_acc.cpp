// C08 accuracy / restore / dispatch harness: checks the PROPERTY ITSELF on the real smooth::diff::dr against
// closed-form derivatives written here by hand (nothing below calls the library's own derivative code):
//  (1) smooth probe maps  y_j = sin(alpha_j . u + beta_j),  u = concatenated "features" of the arguments
//      (coordinates for translation-like kinds; the group ACTION g.p on a fixed point for SO3 / SE2 / Bundle<SO3,R2>),
//      for mixes of  double | Vector3d | VectorXd | std::vector<double> | Bundle<R2,R1> | SO3d | SE2d | Bundle<SO3d,R2>,
//      const / non-const references, K = 1, 2, with and without index subset; first derivatives to 1e-4, second to
//      5e-2 (relative to max(1, largest entry)); coordinates are 0 or of magnitude 0.1..10 with full mantissas and
//      a stratum aimed just below powers of two (where x+h crosses a binade - worst case for the restore).
//  (2) classical group maps on SO3: g1*g2, log g, g1 (-) g2 against hand-written Ad / dr_expinv (K = 1).
//  (3) the caller's argument objects before/after every call (<= 1e-15 * largest coefficient; const and
//      non-selected arguments bit-identical).
//  (4) Analytic mode and Default mode hand back the callable's own jacobian()/hessian() verbatim (sentinel values
//      of deliberately odd shape), Default without them is bit-identical to Numerical, K = 0 returns the value only.
// Autodiff / Ceres modes are not compiled into this sandbox (no autodiff / ceres libraries) and are not exercised.
#include <cmath>
#include <csignal>
#include <cstdio>
#include <cstring>
#include <string>
#include <tuple>
#include <utility>
#include <vector>

#include "smooth/bundle.hpp"
#include "smooth/diff.hpp"
#include "smooth/se2.hpp"
#include "smooth/so3.hpp"

#include "hcommon.hpp"

using smooth::SE2d;
using smooth::SO3d;
using BT = smooth::Bundle<Eigen::Vector2d, Eigen::Matrix<double, 1, 1>>;
using BG = smooth::Bundle<SO3d, Eigen::Vector2d>;
using Eigen::Matrix3d;
using Eigen::MatrixXd;
using Eigen::Vector3d;
using Eigen::VectorXd;
using DT = smooth::diff::Type;

static hv::Report rep;
static std::string g_ctx, g_desc;  // the call in flight (reported if the implementation aborts / segfaults in it)
extern "C" void on_crash(int sig)
{
  char buf[64];
  std::snprintf(buf, sizeof buf, "{\"check\":\"crash\",\"signal\":%d,", sig);
  rep.fail(std::string(buf) + "\"case\":\"" + g_ctx + "\",\"args\":" + (g_desc.empty() ? "null" : g_desc) + "}", "crash");
  rep.print();
  std::fflush(stdout);
  std::_Exit(3);
}
static const double SQRTEPS = 0x1p-13, EPS = 0x1p-26;

template<int K>
struct KindT;
#define KIND(k, T)      \
  template<>            \
  struct KindT<k>       \
  {                     \
    using type = T;     \
  };
KIND(0, double)
KIND(1, Vector3d)
KIND(2, VectorXd)
KIND(3, std::vector<double>)
KIND(4, BT)
KIND(5, SO3d)
KIND(6, SE2d)
KIND(7, BG)
static const char * kind_name[] = {"double", "Vector3d", "VectorXd", "std::vector<double>", "Bundle<R2,R1>", "SO3d", "SE2d", "Bundle<SO3d,R2>"};

// fixed points the groups act on
static const Vector3d P3(0.7, -0.4, 0.5);
static const Eigen::Vector2d P2(0.6, -0.8);

inline Matrix3d skew(const Vector3d & v)
{
  Matrix3d m;
  m << 0, -v(2), v(1), v(2), 0, -v(0), -v(1), v(0), 0;
  return m;
}
// rotation matrix of a unit quaternion (x,y,z,w), textbook formula
template<typename C>
Matrix3d rotmat(const C & q)
{
  const double x = q(0), y = q(1), z = q(2), w = q(3);
  Matrix3d R;
  R << 1 - 2 * (y * y + z * z), 2 * (x * y - z * w), 2 * (x * z + y * w), 2 * (x * y + z * w), 1 - 2 * (x * x + z * z),
    2 * (y * z - x * w), 2 * (x * z - y * w), 2 * (y * z + x * w), 1 - 2 * (x * x + y * y);
  return R;
}
inline Matrix3d se2_hat(int k)  // tangent order (vx, vy, w)
{
  Matrix3d m = Matrix3d::Zero();
  if (k == 0) m(0, 2) = 1;
  if (k == 1) m(1, 2) = 1;
  if (k == 2) m(0, 1) = -1, m(1, 0) = 1;
  return m;
}
template<typename C>
Matrix3d se2_mat(const C & c)  // coefficients (x, y, sin, cos)
{
  Matrix3d m;
  m << c(3), -c(2), c(0), c(2), c(3), c(1), 0, 0, 1;
  return m;
}

// ---- per kind: dof, coefficient access (for restore), feature map and its first/second right-derivatives
struct Feat
{
  VectorXd u;                      // features
  MatrixXd D;                      // m x dof
  std::vector<MatrixXd> D2;        // per feature p: dof x dof, D2[p](k0,k1) = d/db d/da u_p(x (+) b e_k1 (+) a e_k0)
  std::vector<double> step_scale;  // per dof: |x_k| when the code scales the step (Eigen vector kinds), else -1
};
inline Feat feat_lin(const VectorXd & z, bool isvec)
{
  Feat f;
  const auto n = z.size();
  f.u = z, f.D = MatrixXd::Identity(n, n);
  f.D2.assign(n, MatrixXd::Zero(n, n));
  for (Eigen::Index i = 0; i < n; ++i) f.step_scale.push_back(isvec ? std::abs(z(i)) : -1.0);
  return f;
}
inline VectorXd coefs(const double & v) { return VectorXd::Constant(1, v); }
inline VectorXd coefs(const Vector3d & v) { return v; }
inline VectorXd coefs(const VectorXd & v) { return v; }
inline VectorXd coefs(const std::vector<double> & v) { return Eigen::Map<const VectorXd>(v.data(), static_cast<Eigen::Index>(v.size())); }
inline VectorXd coefs(const BT & v) { return v.coeffs(); }
inline VectorXd coefs(const SO3d & v) { return v.coeffs(); }
inline VectorXd coefs(const SE2d & v) { return v.coeffs(); }
inline VectorXd coefs(const BG & v) { return v.coeffs(); }

inline Feat feat(const double & v) { return feat_lin(coefs(v), false); }
inline Feat feat(const Vector3d & v) { return feat_lin(v, true); }
inline Feat feat(const VectorXd & v) { return feat_lin(v, true); }
inline Feat feat(const std::vector<double> & v) { return feat_lin(coefs(v), false); }
inline Feat feat(const BT & v) { return feat_lin(coefs(v), false); }
inline Feat feat_so3(const Eigen::Vector4d & q)
{
  Feat f;
  const Matrix3d R = rotmat(q);
  f.u              = R * P3;
  f.D              = -R * skew(P3);
  f.D2.assign(3, MatrixXd::Zero(3, 3));
  for (int k0 = 0; k0 < 3; ++k0)
    for (int k1 = 0; k1 < 3; ++k1) {
      const Vector3d v = R * skew(Vector3d::Unit(k1)) * skew(Vector3d::Unit(k0)) * P3;
      for (int p = 0; p < 3; ++p) f.D2[p](k0, k1) = v(p);
    }
  f.step_scale.assign(3, -1.0);
  return f;
}
inline Feat feat(const SO3d & g) { return feat_so3(g.coeffs()); }
inline Feat feat(const SE2d & g)
{
  Feat f;
  const Matrix3d M = se2_mat(g.coeffs());
  const Vector3d ph(P2(0), P2(1), 1);
  f.u = (M * ph).head<2>();
  f.D.resize(2, 3);
  f.D2.assign(2, MatrixXd::Zero(3, 3));
  for (int k0 = 0; k0 < 3; ++k0) {
    f.D.col(k0) = (M * se2_hat(k0) * ph).head<2>();
    for (int k1 = 0; k1 < 3; ++k1) {
      const Vector3d v = M * se2_hat(k1) * se2_hat(k0) * ph;
      for (int p = 0; p < 2; ++p) f.D2[p](k0, k1) = v(p);
    }
  }
  f.step_scale.assign(3, -1.0);
  return f;
}
inline Feat feat(const BG & b)
{
  Feat s = feat_so3(b.coeffs().head<4>());
  Feat f;
  f.u.resize(5);
  f.u << s.u, b.coeffs().tail<2>();
  f.D                   = MatrixXd::Zero(5, 5);
  f.D.block(0, 0, 3, 3) = s.D;
  f.D.block(3, 3, 2, 2).setIdentity();
  f.D2.assign(5, MatrixXd::Zero(5, 5));
  for (int p = 0; p < 3; ++p) f.D2[p].block(0, 0, 3, 3) = s.D2[p];
  f.step_scale.assign(5, -1.0);
  return f;
}
// feature map evaluated inside the probed function (generic in the argument's concrete type as dr passes it)
template<class A>
VectorXd feat_u(const A & a)
{
  using T = std::decay_t<A>;
  if constexpr (std::is_arithmetic_v<T>) {
    return VectorXd::Constant(1, a);
  } else if constexpr (std::is_base_of_v<Eigen::MatrixBase<T>, T>) {
    return VectorXd(a);
  } else if constexpr (std::is_same_v<T, std::vector<double>>) {
    return coefs(a);
  } else if constexpr (std::is_same_v<T, BT>) {
    return VectorXd(a.coeffs());
  } else if constexpr (std::is_same_v<T, SE2d>) {
    return feat(SE2d(a)).u;
  } else if constexpr (std::is_same_v<T, BG>) {
    VectorXd u(5);
    u << rotmat(a.coeffs().template head<4>()) * P3, a.coeffs().template tail<2>();
    return u;
  } else {
    return VectorXd(rotmat(a.coeffs()) * P3);
  }
}

// ---- generators
inline double gen_coord(hv::Rng & r, const char ** lab)
{
  switch (r.below(6)) {
  case 0: *lab = "coord_zero"; return 0.0;
  case 1: {  // just below a power of two: x + h crosses into the next binade
    *lab     = "coord_below_pow2";
    double p = std::ldexp(1.0, r.below(7) - 3);
    double t = r.uni() * (r.below(2) ? SQRTEPS : EPS);
    double x = p * (1 - t);
    if (x < 0.1) x = p * (1 + t) ;
    return (r.below(2) ? 1 : -1) * x;
  }
  default: *lab = "coord_generic"; return (r.below(2) ? 1 : -1) * r.logu(0.1, 10.0);
  }
}
inline void quat_rand(hv::Rng & r, double * q)
{
  double ax[3];
  hv::rand_axis(r, 3, ax);
  double ang = r.below(5) == 0 ? r.logu(1e-6, 1e-2) : r.uni() * 3.1;
  double s = std::sin(ang / 2), c = std::cos(ang / 2);
  q[0] = ax[0] * s, q[1] = ax[1] * s, q[2] = ax[2] * s, q[3] = c;
  double n = std::sqrt(q[0] * q[0] + q[1] * q[1] + q[2] * q[2] + q[3] * q[3]);
  for (int i = 0; i < 4; ++i) q[i] /= n;
}
inline void tally_coord(const char * lab) { ++rep.strata[lab]; }
inline void make(double & v, hv::Rng & r) { const char * l; v = gen_coord(r, &l); tally_coord(l); }
inline void make(Vector3d & v, hv::Rng & r) { for (int i = 0; i < 3; ++i) { const char * l; v(i) = gen_coord(r, &l); tally_coord(l); } }
inline void make(VectorXd & v, hv::Rng & r) { v.resize(1 + r.below(3)); for (Eigen::Index i = 0; i < v.size(); ++i) { const char * l; v(i) = gen_coord(r, &l); tally_coord(l); } }
inline void make(std::vector<double> & v, hv::Rng & r) { v.resize(1 + r.below(3)); for (auto & x : v) { const char * l; x = gen_coord(r, &l); tally_coord(l); } }
inline void make(BT & v, hv::Rng & r) { for (int i = 0; i < 3; ++i) { const char * l; v.coeffs()(i) = gen_coord(r, &l); tally_coord(l); } }
inline void make(SO3d & g, hv::Rng & r) { double q[4]; quat_rand(r, q); g.coeffs() << q[0], q[1], q[2], q[3]; }
inline void make(SE2d & g, hv::Rng & r) { double a = r.sym() * 3.1; const char * l; double x = gen_coord(r, &l), y = gen_coord(r, &l); g.coeffs() << x, y, std::sin(a), std::cos(a); }
inline void make(BG & g, hv::Rng & r) { double q[4]; quat_rand(r, q); const char * l; double x = gen_coord(r, &l), y = gen_coord(r, &l); g.coeffs() << q[0], q[1], q[2], q[3], x, y; }

// ---- probe map
struct Probe
{
  int ny, m;
  MatrixXd alpha;  // ny x m
  VectorXd beta;
};
template<int RK>
struct ProbeF
{
  const Probe * p;
  template<class... A>
  auto operator()(const A &... a) const
  {
    VectorXd u(p->m);
    Eigen::Index o = 0;
    (([&] { VectorXd ui = feat_u(a); u.segment(o, ui.size()) = ui; o += ui.size(); }()), ...);
    VectorXd y = (p->alpha * u + p->beta).array().sin();
    if constexpr (RK == 0) {
      return double(y(0));
    } else if constexpr (RK == 1) {
      return Eigen::Vector2d(y);
    } else {
      return y;
    }
  }
};

template<unsigned Mask, std::size_t I, class T>
decltype(auto) cref(T & t)
{
  if constexpr ((Mask >> I) & 1u) {
    return std::as_const(t);
  } else {
    return (t);
  }
}
inline VectorXd as_vec(const double & y) { return VectorXd::Constant(1, y); }
template<typename D>
VectorXd as_vec(const Eigen::MatrixBase<D> & y) { return VectorXd(y); }

template<class Tup>
std::string describe(const Tup & vals, unsigned cmask, const int * kinds)
{
  std::string s = "[";
  std::size_t i = 0;
  std::apply([&](const auto &... a) { ((s += std::string(i ? "," : "") + "{\"kind\":\"" + kind_name[kinds[i]] + "\",\"const\":" + (((cmask >> i) & 1) ? "true" : "false") + ",\"coeffs\":" + hv::jvec(coefs(a)) + "}", ++i), ...); }, vals);
  return s + "]";
}

// restore clause: before/after of every caller object
template<class Tup>
void check_restore(const Tup & before, const Tup & after, unsigned cmask, const std::vector<int> & sel, const std::string & ctx, const std::string & desc, int K, const int * kinds)
{
  std::size_t i = 0;
  auto one = [&](const auto & b, const auto & a) {
    VectorXd cb = coefs(b), ca = coefs(a);
    bool touched = !((cmask >> i) & 1u) && std::find(sel.begin(), sel.end(), static_cast<int>(i)) != sel.end();
    double mx    = cb.size() ? cb.cwiseAbs().maxCoeff() : 0;
    double d     = cb.size() ? (ca - cb).cwiseAbs().maxCoeff() : 0;
    if (ca.size() != cb.size()) d = INFINITY;
    double lim = touched ? 1e-15 * mx : 0.0;
    if (touched) rep.tally(K == 1 ? "restore_K1_rel" : "restore_K2_rel", mx > 0 ? d / mx : d);
    if (!(d <= lim)) {
      char buf[256];
      std::snprintf(buf, sizeof buf, "{\"check\":\"restore\",\"K\":%d,\"arg\":%zu,\"argkind\":\"%s\",\"touched\":%s,\"change\":%.3e,\"limit\":%.3e,\"rel_change\":%.3e,", K, i, kind_name[kinds[i]], touched ? "true" : "false", d, lim, mx > 0 ? d / mx : d);
      rep.fail(std::string(buf) + "\"case\":\"" + ctx + "\",\"args\":" + desc + "}", std::string("restore/K") + std::to_string(K) + (touched ? "/touched/" : "/untouched/") + kind_name[kinds[i]], mx > 0 ? d / mx : d);
    } else if (d != 0.0) {
      // within the 1e-15 clause but not bit-identical: the code as it is (diff_impl.hpp:62/65, 102/105, 117/122-123)
      // assigns the saved copy back, and the model of it proves the arguments are handed back UNCHANGED for every
      // kind of argument (restore_exact_current: no assumption on rplus).  A change of any size means the model no
      // longer describes the code (e.g. restoring by the inverse perturbation again).
      char buf[256];
      std::snprintf(buf, sizeof buf, "{\"check\":\"model_vs_impl\",\"what\":\"args_after\",\"K\":%d,\"arg\":%zu,\"argkind\":\"%s\",\"change\":%.3e,\"rel_change\":%.3e,\"model\":\"bit-identical\",", K, i, kind_name[kinds[i]], d, mx > 0 ? d / mx : d);
      rep.fail(std::string(buf) + "\"case\":\"" + ctx + "\",\"args\":" + desc + "}", std::string("restore_not_bit_exact/K") + std::to_string(K) + "/" + kind_name[kinds[i]], mx > 0 ? d / mx : d);
    }
    ++i;
  };
  [&]<std::size_t... I>(std::index_sequence<I...>) { (one(std::get<I>(before), std::get<I>(after)), ...); }(std::make_index_sequence<std::tuple_size_v<Tup>>{});
}

template<int ShapeId, unsigned CMask, int RK, std::size_t K, bool UseIdx, class Tup, std::size_t... Idx>
void probe_call(hv::Rng & rng, const Tup & vals0, const int * kinds, std::index_sequence<Idx...> idx)
{
  constexpr std::size_t N = std::tuple_size_v<Tup>;
  Tup vals                = vals0;
  std::vector<Feat> fs;
  std::apply([&](const auto &... a) { (fs.push_back(feat(a)), ...); }, vals);
  int m = 0;
  for (auto & f : fs) m += static_cast<int>(f.u.size());
  Probe p;
  p.ny = RK == 0 ? 1 : RK == 1 ? 2 : 1 + rng.below(3);
  p.m  = m;
  p.alpha.resize(p.ny, m), p.beta.resize(p.ny);
  for (int j = 0; j < p.ny; ++j) {
    p.beta(j) = rng.sym() * 3;
    for (int a = 0; a < m; ++a) p.alpha(j, a) = (rng.below(2) ? 1 : -1) * (0.15 + 0.5 * rng.uni());
  }
  std::vector<int> sel;
  if constexpr (UseIdx) {
    sel = {static_cast<int>(Idx)...};
  } else {
    for (std::size_t i = 0; i < N; ++i) sel.push_back(static_cast<int>(i));
  }
  // closed forms
  VectorXd u(m);
  std::vector<int> uoff;
  {
    int o = 0;
    for (auto & f : fs) { uoff.push_back(o); u.segment(o, f.u.size()) = f.u; o += static_cast<int>(f.u.size()); }
  }
  int nx = 0;
  std::vector<int> xoff;
  for (int i : sel) { xoff.push_back(nx); nx += static_cast<int>(fs[i].D.cols()); }
  VectorXd s = p.alpha * u + p.beta;
  MatrixXd G = MatrixXd::Zero(m, nx);  // du/dx restricted to the selected args
  std::vector<double> stepscale;
  for (std::size_t k = 0; k < sel.size(); ++k) {
    G.block(uoff[sel[k]], xoff[k], fs[sel[k]].D.rows(), fs[sel[k]].D.cols()) = fs[sel[k]].D;
    for (double v : fs[sel[k]].step_scale) stepscale.push_back(v);
  }
  MatrixXd Jt = s.array().cos().matrix().asDiagonal() * (p.alpha * G);
  std::vector<MatrixXd> Ht(p.ny);
  for (int j = 0; j < p.ny; ++j) {
    VectorXd aG = (p.alpha.row(j) * G).transpose();
    Ht[j]       = -std::sin(s(j)) * aG * aG.transpose();
    for (std::size_t k = 0; k < sel.size(); ++k)
      for (Eigen::Index pp = 0; pp < fs[sel[k]].u.size(); ++pp)
        Ht[j].block(xoff[k], xoff[k], fs[sel[k]].D.cols(), fs[sel[k]].D.cols()) += std::cos(s(j)) * p.alpha(j, uoff[sel[k]] + pp) * fs[sel[k]].D2[pp];
  }

  ProbeF<RK> f{&p};
  char ctx[160];
  std::string idxs;
  ((idxs += std::to_string(Idx) + "."), ...);
  std::snprintf(ctx, sizeof ctx, "probe shape=%d K=%zu idx=%s cmask=%u rk=%d", ShapeId, K, UseIdx ? idxs.c_str() : "full", CMask, RK);
  const std::string desc = describe(vals0, CMask, kinds);
  g_ctx = ctx, g_desc = desc;
  auto mkwrt = [&]<std::size_t... I>(std::index_sequence<I...>) { return smooth::wrt(cref<CMask, I>(std::get<I>(vals))...); };
  constexpr auto seqN = std::make_index_sequence<N>{};
  VectorXd fv;
  MatrixXd J, H;
  if constexpr (K == 1) {
    if constexpr (UseIdx) {
      auto [a, b] = smooth::diff::dr<1, DT::Numerical>(f, mkwrt(seqN), idx);
      fv = as_vec(a), J = b;
    } else {
      auto [a, b] = smooth::diff::dr<1, DT::Numerical>(f, mkwrt(seqN));
      fv = as_vec(a), J = b;
    }
  } else {
    if constexpr (UseIdx) {
      auto [a, b, c] = smooth::diff::dr<2, DT::Numerical>(f, mkwrt(seqN), idx);
      fv = as_vec(a), J = b, H = c;
    } else {
      auto [a, b, c] = smooth::diff::dr<2, DT::Numerical>(f, mkwrt(seqN));
      fv = as_vec(a), J = b, H = c;
    }
  }
  ++rep.evaluations;
  ++rep.strata[std::string("probe_K") + std::to_string(K) + (UseIdx ? "_subset" : "_full")];
  for (std::size_t i = 0; i < N; ++i) ++rep.strata[std::string("argkind_") + kind_name[kinds[i]] + (((CMask >> i) & 1) ? "_const" : "_nonconst")];
  // value
  VectorXd ytrue = s.array().sin();
  if (fv.size() != p.ny || (fv - ytrue).cwiseAbs().maxCoeff() > 1e-13) rep.fail(std::string("{\"check\":\"value\",\"case\":\"") + ctx + "\",\"args\":" + desc + "}", "value");
  // first derivative
  const double scJ = std::max(1.0, Jt.size() ? Jt.cwiseAbs().maxCoeff() : 0.0);
  if (J.rows() != p.ny || J.cols() != nx) {
    rep.fail(std::string("{\"check\":\"J_shape\",\"case\":\"") + ctx + "\",\"args\":" + desc + "}", "J_shape");
  } else if (nx > 0) {
    Eigen::Index r, c;
    double e = (J - Jt).cwiseAbs().maxCoeff(&r, &c) / scJ;
    rep.tally(K == 1 ? "accuracy_J_K1" : "accuracy_J_K2", e);
    if (!(e <= 1e-4)) {
      // diagnosis only: is the error the truncation term h/2 f'' of the first-order step (the step of the K = 1 routine,
      // which since 41b038a also produces the J of the K = 2 routine), or of the second-order step 2^-13 (what the K = 2
      // routine used for its J before 41b038a)?
      const double sc   = (stepscale[c] > 0 ? stepscale[c] : 1.0);
      const double h    = sc * EPS, h2 = sc * SQRTEPS;
      const bool trunc  = std::abs(J(r, c) - (Jt(r, c) + h / 2 * Ht[r](c, c))) <= 1e-5 * scJ;
      const bool trunc2 = K == 2 && !trunc && std::abs(J(r, c) - (Jt(r, c) + h2 / 2 * Ht[r](c, c))) <= 1e-5 * scJ;
      const char * cause = trunc ? "step-truncation" : trunc2 ? "second-order-step-truncation" : "other";
      char buf[400];
      std::snprintf(buf, sizeof buf, "{\"check\":\"accuracy_J\",\"K\":%zu,\"mode\":\"Numerical\",\"cause\":\"k%zu-%s\",\"pos\":[%ld,%ld],\"relerr\":%.3e,\"got\":%.10g,\"want\":%.10g,\"step\":%.4g,", K, K, cause, (long)r, (long)c, e, J(r, c), Jt(r, c), trunc2 ? h2 : h);
      rep.fail(std::string(buf) + "\"case\":\"" + ctx + "\",\"args\":" + desc + "}", std::string("accuracy_J/K") + std::to_string(K) + "/" + cause, e);
    }
  }
  if constexpr (K == 2) {
    double scH = 1.0;
    for (auto & h : Ht) if (h.size()) scH = std::max(scH, h.cwiseAbs().maxCoeff());
    if (H.rows() != nx || H.cols() != nx * p.ny) {
      rep.fail(std::string("{\"check\":\"H_shape\",\"case\":\"") + ctx + "\",\"args\":" + desc + "}", "H_shape");
    } else {
      double worst = 0;
      long wr = 0, wc = 0, wj = 0;
      for (int j = 0; j < p.ny; ++j)
        for (int r = 0; r < nx; ++r)
          for (int c = 0; c < nx; ++c) {
            double e = std::abs(H(r, j * nx + c) - Ht[j](r, c)) / scH;
            if (!(e <= worst)) worst = e, wr = r, wc = c, wj = j;
          }
      rep.tally("accuracy_H", worst);
      if (!(worst <= 5e-2)) {
        char buf[400];
        std::snprintf(buf, sizeof buf, "{\"check\":\"accuracy_H\",\"K\":2,\"mode\":\"Numerical\",\"block\":%ld,\"entry\":[%ld,%ld],\"relerr\":%.3e,\"got\":%.10g,\"want\":%.10g,", wj, wr, wc, worst, H(wr, wj * nx + wc), Ht[wj](wr, wc));
        rep.fail(std::string(buf) + "\"case\":\"" + ctx + "\",\"args\":" + desc + "}", "accuracy_H", worst);
      }
    }
  }
  check_restore(vals0, vals, CMask, sel, ctx, desc, static_cast<int>(K), kinds);
  if (rep.samples.size() < 4 && K == 2 && N >= 2) {
    char buf[200];
    std::snprintf(buf, sizeof buf, "{\"case\":\"%s\",\"J00\":%.12g,\"J00_closed_form\":%.12g,", ctx, J.size() ? J(0, 0) : 0.0, Jt.size() ? Jt(0, 0) : 0.0);
    rep.sample(std::string(buf) + "\"args\":" + desc + "}");
  }
}

template<int ShapeId, unsigned CMask, int RK, int... Ks>
void probe_shape(hv::Rng & rng, int reps)
{
  using Tup                = std::tuple<typename KindT<Ks>::type...>;
  constexpr std::size_t N = sizeof...(Ks);
  const int kinds[]       = {Ks...};
  for (int it = 0; it < reps; ++it) {
    Tup vals;
    std::apply([&](auto &... a) { (make(a, rng), ...); }, vals);
    smooth::utils::static_for<2>([&](auto kc) {
      constexpr std::size_t K = kc + 1;
      probe_call<ShapeId, CMask, RK, K, false>(rng, vals, kinds, std::index_sequence<>{});
      probe_call<ShapeId, CMask, RK, K, true>(rng, vals, kinds, std::index_sequence<N - 1>{});
      if constexpr (N >= 2) probe_call<ShapeId, CMask, RK, K, true>(rng, vals, kinds, std::index_sequence<0, N - 1>{});
      if constexpr (N >= 3) probe_call<ShapeId, CMask, RK, K, true>(rng, vals, kinds, std::index_sequence<1>{});
    });
  }
}

// ---------------------------------------------------------------------------------- (2) classical SO3 maps, K = 1
inline Vector3d so3_log(const Eigen::Vector4d & q)
{
  Vector3d v = q.head<3>();
  double w = q(3), n = v.norm();
  if (w < 0) v = -v, w = -w;
  if (n < 1e-10) return 2 * v / w;
  return 2 * std::atan2(n, w) / n * v;
}
inline Matrix3d so3_dr_expinv(const Vector3d & a)
{
  const double th = a.norm();
  const Matrix3d W = skew(a);
  double c = th < 1e-4 ? 1.0 / 12 + th * th / 720 : (1 / (th * th) - (1 + std::cos(th)) / (2 * th * std::sin(th)));
  return Matrix3d::Identity() + 0.5 * W + c * W * W;
}
inline Eigen::Vector4d qmul(const Eigen::Vector4d & a, const Eigen::Vector4d & b)
{
  Eigen::Vector4d r;
  Vector3d av = a.head<3>(), bv = b.head<3>();
  r.head<3>() = a(3) * bv + b(3) * av + av.cross(bv);
  r(3)        = a(3) * b(3) - av.dot(bv);
  return r;
}
inline Eigen::Vector4d qinv(const Eigen::Vector4d & a) { return Eigen::Vector4d(-a(0), -a(1), -a(2), a(3)); }

template<unsigned CMask>
void classical(hv::Rng & rng)
{
  SO3d g1, g2;
  make(g1, rng), make(g2, rng);
  const SO3d b1 = g1, b2 = g2;
  const int kinds[] = {5, 5};
  const std::string desc = describe(std::make_tuple(b1, b2), CMask, kinds);
  g_ctx = "classical", g_desc = desc;
  auto report = [&](const char * what, const MatrixXd & J, const MatrixXd & Jt) {
    ++rep.evaluations;
    ++rep.strata[std::string("classical_") + what];
    double e = (J.rows() == Jt.rows() && J.cols() == Jt.cols()) ? (J - Jt).cwiseAbs().maxCoeff() / std::max(1.0, Jt.cwiseAbs().maxCoeff()) : INFINITY;
    rep.tally(std::string("accuracy_J_") + what, e);
    if (!(e <= 1e-4)) {
      char buf[200];
      std::snprintf(buf, sizeof buf, "{\"check\":\"accuracy_J\",\"K\":1,\"mode\":\"Numerical\",\"cause\":\"k1-other\",\"relerr\":%.3e,\"case\":\"classical %s cmask=%u\",", e, what, CMask);
      rep.fail(std::string(buf) + "\"args\":" + desc + "}", std::string("accuracy_J/classical/") + what, e);
    }
    check_restore(std::make_tuple(b1, b2), std::make_tuple(g1, g2), CMask, {0, 1}, std::string("classical ") + what, desc, 1, kinds);
  };
  const Matrix3d R2 = rotmat(b2.coeffs());
  {
    g1 = b1, g2 = b2;  // fresh caller objects for every call (drift must not accumulate across calls)
    auto [v, J] = smooth::diff::dr<1, DT::Numerical>([](const auto & a, const auto & b) { return a * b; }, smooth::wrt(cref<CMask, 0>(g1), cref<CMask, 1>(g2)));
    MatrixXd Jt(3, 6);
    Jt << R2.transpose(), Matrix3d::Identity();
    report("compose", J, Jt);
  }
  {
    const Vector3d a = so3_log(b1.coeffs());
    if (a.norm() < 3.0) {
      g1 = b1, g2 = b2;
      auto [v, J] = smooth::diff::dr<1, DT::Numerical>([](const auto & x) { return x.log(); }, smooth::wrt(cref<CMask, 0>(g1)));
      report("log", J, so3_dr_expinv(a));
    }
  }
  {
    const Vector3d a = so3_log(qmul(qinv(b2.coeffs()), b1.coeffs()));  // g1 (-) g2 = log(g2^-1 g1)
    if (a.norm() < 3.0) {
      g1 = b1, g2 = b2;
      auto [v, J] = smooth::diff::dr<1, DT::Numerical>([](const auto & x, const auto & y) { return x - y; }, smooth::wrt(cref<CMask, 0>(g1), cref<CMask, 1>(g2)));
      MatrixXd Jt(3, 6);
      Jt << so3_dr_expinv(a), -so3_dr_expinv(-a);
      report("rminus", J, Jt);
    }
  }
}

// ---------------------------------------------------------------------------------- (4) dispatch
struct WithJac
{
  double k;
  double operator()(const Vector3d & x, const SO3d &) const { return k * x.sum(); }
  Eigen::Matrix<double, 2, 7> jacobian(const Vector3d & x, const SO3d &) const { return Eigen::Matrix<double, 2, 7>::Constant(k + x(0)); }
};
struct WithBoth : WithJac
{
  Eigen::Matrix<double, 5, 3> hessian(const Vector3d & x, const SO3d &) const { return Eigen::Matrix<double, 5, 3>::Constant(-k + x(1)); }
};
// the same members without const qualification (e.g. a callable that caches its last result): a non-const callable object
// must be dispatched to them as well
struct WithBothMut
{
  double k;
  int calls = 0;
  double operator()(const Vector3d & x, const SO3d &) const { return k * x.sum(); }
  Eigen::Matrix<double, 2, 7> jacobian(const Vector3d & x, const SO3d &) { ++calls; return Eigen::Matrix<double, 2, 7>::Constant(k + x(0)); }
  Eigen::Matrix<double, 5, 3> hessian(const Vector3d & x, const SO3d &) { ++calls; return Eigen::Matrix<double, 5, 3>::Constant(-k + x(1)); }
};
struct Plain
{
  double k;
  double operator()(const Vector3d & x, const SO3d & g) const { return k * std::sin(x.sum()) + (rotmat(g.coeffs()) * P3)(0); }
};
template<typename A, typename B>
bool same_bits(const A & a, const B & b)
{
  return a.rows() == b.rows() && a.cols() == b.cols() && (a.size() == 0 || std::memcmp(a.data(), b.data(), sizeof(double) * a.size()) == 0);
}
void dispatch(hv::Rng & rng)
{
  Vector3d x;
  SO3d g;
  make(x, rng), make(g, rng);
  const Vector3d x0 = x;
  const SO3d g0     = g;
  const double k    = rng.sym() * 3;
  const int kinds[] = {1, 5};
  const std::string desc = describe(std::make_tuple(x0, g0), 0, kinds);
  g_ctx = "dispatch", g_desc = desc;
  auto bad = [&](const char * what) { rep.fail(std::string("{\"check\":\"dispatch\",\"what\":\"") + what + "\",\"args\":" + desc + "}", std::string("dispatch/") + what); };
  auto untouched = [&] { return same_bits(x, x0) && same_bits(g.coeffs(), g0.coeffs()); };
  WithJac fj{k};
  WithBoth fb{{k}};
  Plain fp{k};
  const auto Jw = fj.jacobian(x0, g0);
  const auto Hw = fb.hessian(x0, g0);
  ++rep.evaluations;
  ++rep.strata["dispatch_point"];
  {
    auto [v, J] = smooth::diff::dr<1, DT::Analytic>(fj, smooth::wrt(x, g));
    if (!(v == fj(x0, g0)) || !same_bits(J, Jw) || !untouched()) bad("analytic K=1 not verbatim");
  }
  {
    auto [v, J, H] = smooth::diff::dr<2, DT::Analytic>(fb, smooth::wrt(x, g));
    if (!(v == fb(x0, g0)) || !same_bits(J, Jw) || !same_bits(H, Hw) || !untouched()) bad("analytic K=2 not verbatim");
  }
  {
    auto [v, J] = smooth::diff::dr<1, DT::Default>(fj, smooth::wrt(x, g));
    if (!(v == fj(x0, g0)) || !same_bits(J, Jw) || !untouched()) bad("default K=1 with jacobian() not verbatim");
  }
  {
    auto [v, J] = smooth::diff::dr<1>(fb, smooth::wrt(x, std::as_const(g)));
    if (!(v == fb(x0, g0)) || !same_bits(J, Jw) || !untouched()) bad("dr<1>(default) with jacobian() not verbatim");
  }
  {
    auto [v, J, H] = smooth::diff::dr<2, DT::Default>(fb, smooth::wrt(x, g));
    if (!(v == fb(x0, g0)) || !same_bits(J, Jw) || !same_bits(H, Hw) || !untouched()) bad("default K=2 with both not verbatim");
  }
  {  // non-const analytic members on a non-const callable: Default must still hand them back verbatim
    WithBothMut fm{k};
    {
      auto [v, J] = smooth::diff::dr<1, DT::Default>(fm, smooth::wrt(x, g));
      if (!(v == fm(x0, g0)) || !same_bits(J, Jw) || !untouched() || fm.calls == 0) bad("default K=1 with non-const jacobian() not verbatim");
    }
    {
      auto [v, J, H] = smooth::diff::dr<2, DT::Default>(fm, smooth::wrt(x, g));
      if (!(v == fm(x0, g0)) || !same_bits(J, Jw) || !same_bits(H, Hw) || !untouched()) bad("default K=2 with non-const members not verbatim");
    }
    {
      auto [v, J, H] = smooth::diff::dr<2, DT::Analytic>(fm, smooth::wrt(x, g));
      if (!(v == fm(x0, g0)) || !same_bits(J, Jw) || !same_bits(H, Hw) || !untouched()) bad("analytic K=2 with non-const members not verbatim");
    }
  }
  {  // jacobian() only, K=2: numerical for both outputs (diffable_order2 fails)
    auto [v, J, H]    = smooth::diff::dr<2, DT::Default>(fj, smooth::wrt(x, g));
    Vector3d x1 = x0; SO3d g1 = g0;
    auto [v2, J2, H2] = smooth::diff::dr<2, DT::Numerical>(fj, smooth::wrt(x1, g1));
    if (!(v == v2) || !same_bits(J, J2) || !same_bits(H, H2) || J.cols() != 6) bad("default K=2 with jacobian() only != numerical");
    x = x0, g = g0;
  }
  {  // no members: Default == Numerical bit for bit; K=0 value only
    auto [v, J]   = smooth::diff::dr<1, DT::Default>(fp, smooth::wrt(x, g));
    Vector3d x1 = x0; SO3d g1 = g0;
    auto [v2, J2] = smooth::diff::dr<1, DT::Numerical>(fp, smooth::wrt(x1, g1));
    if (!(v == v2) || !same_bits(J, J2)) bad("default without members != numerical");
    x = x0, g = g0;
    auto t0 = smooth::diff::dr<0, DT::Default>(fp, smooth::wrt(x, g));
    auto t1 = smooth::diff::dr<0, DT::Numerical>(fp, smooth::wrt(x, g), std::index_sequence<1>{});
    auto t2 = smooth::diff::dr<0, DT::Analytic>(fb, smooth::wrt(x, g));
    static_assert(std::tuple_size_v<decltype(t0)> == 1 && std::tuple_size_v<decltype(t1)> == 1 && std::tuple_size_v<decltype(t2)> == 1);
    if (!(std::get<0>(t0) == fp(x0, g0)) || !(std::get<0>(t1) == fp(x0, g0)) || !(std::get<0>(t2) == fb(x0, g0)) || !untouched()) bad("K=0 value only");
  }
  {  // index subset + Default on a callable with members: the wrapper hides them -> numerical, still the right columns
    auto [v, J] = smooth::diff::dr<1, DT::Default>(fj, smooth::wrt(x, g), std::index_sequence<0>{});
    if (J.rows() != 1 || J.cols() != 3 || (J - Eigen::RowVector3d::Constant(k)).cwiseAbs().maxCoeff() > 1e-4 * std::max(1.0, std::abs(k))) bad("default with index subset");
    x = x0, g = g0;
  }
}

int main()
{
  std::signal(SIGABRT, on_crash);
  std::signal(SIGSEGV, on_crash);
  std::signal(SIGFPE, on_crash);
  rep.property = "C08";
  hv::Rng rng(hv::seed_from_env() * 7777777ULL + 13);
  const int reps = hv::thorough() ? 40 : 4;
  // shapes: <id, const mask, result kind, kinds...>
  probe_shape<0, 0, 0, 0>(rng, reps);
  probe_shape<1, 1, 1, 1>(rng, reps);
  probe_shape<2, 0, 2, 2>(rng, reps);
  probe_shape<3, 0, 0, 3>(rng, reps);
  probe_shape<4, 1, 1, 4>(rng, reps);
  probe_shape<5, 0, 2, 5>(rng, reps);
  probe_shape<6, 0, 0, 6>(rng, reps);
  probe_shape<7, 0, 1, 7>(rng, reps);
  probe_shape<8, 1, 2, 5>(rng, reps);
  probe_shape<10, 0, 0, 1, 5>(rng, reps);
  probe_shape<11, 2, 1, 5, 1>(rng, reps);
  probe_shape<12, 1, 2, 0, 6>(rng, reps);
  probe_shape<13, 0, 0, 2, 7>(rng, reps);
  probe_shape<14, 3, 1, 3, 5>(rng, reps);
  probe_shape<15, 0, 2, 5, 5>(rng, reps);
  probe_shape<16, 0, 0, 6, 4>(rng, reps);
  probe_shape<17, 1, 1, 7, 2>(rng, reps);
  probe_shape<18, 0, 2, 1, 1>(rng, reps);
  probe_shape<19, 2, 0, 2, 3>(rng, reps);
  probe_shape<20, 0, 1, 0, 1, 5>(rng, reps);
  probe_shape<21, 5, 2, 5, 2, 6>(rng, reps);
  probe_shape<22, 2, 0, 3, 7, 0>(rng, reps);
  probe_shape<23, 0, 1, 6, 5, 1>(rng, reps);
  probe_shape<24, 7, 2, 4, 5, 2>(rng, reps);
  probe_shape<25, 0, 0, 1, 2, 3>(rng, reps);
  for (int i = 0; i < reps * 25; ++i) {
    classical<0>(rng);
    classical<1>(rng);
    classical<2>(rng);
    dispatch(rng);
  }
  rep.print();
  return 0;
}
