// C09 harness: runs smooth::minimize (the REAL code in VERIF_REPO/include) on generated problem families through the
// public API only and prints, per case, a canonical trace
//   R <id> <fam> <mode> <strat> <cont> <max_iter> <ptol> <ftol> <c0> <delta0> <nscript> {take delta}* <niter>
//     {delta rho take rnz actu pred dnorm n norm_new stepped}*  <status> <iter> <ncb> <final_delta>
// (doubles as %a) that scripts/props_C09.py replays through the extracted Coq model.
// Observation points: a recording TrustRegionStrategy (sees every Delta asked for, every rho, the answer), the residual
// functor (sees every evaluation point and value), the user callback.  At every step_and_update the harness recomputes
// the numerical sub-results of the iteration (r, J, d, dx, xp, r_n, actu_red, pred_red, rho, |D dx|) from the point the
// functor saw first in this iteration, with the library's own dr / solve_trust_region as oracle, and checks that the
// recomputed rho is the rho the library handed to the strategy.
// The harness also checks the property itself on the real code (independent of the model): callback costs
// non-increasing up to slack, iteration bound, status contract, final arguments = last callback point, convergence to the
// planted minimiser.  Last stdout line: JSON report.
//
// Compiled twice (-DC09_PART=1 / 2) to halve the build time.
#include <cmath>
#include <cstring>
#include <functional>
#include <memory>
#include <tuple>

#include <Eigen/Sparse>

#include "smooth/bundle.hpp"
#include "smooth/optim.hpp"
#include "smooth/se2.hpp"
#include "smooth/se3.hpp"
#include "smooth/so3.hpp"

#include "hcommon.hpp"

#ifndef C09_PART
#define C09_PART 0
#endif

using namespace hv;
using smooth::diff::Type;

static Report rep;
static double g_max_increase = 0;      // largest relative cost increase between consecutive callbacks
static long g_rho_bitwise    = 0;      // iterations whose recomputed rho equals the observed rho bit for bit
static long g_iters          = 0;
static long g_drift_cases    = 0;      // cases whose final arguments differ from the last callback point (by rounding)
static double g_max_drift    = 0;
static long g_conv_checked   = 0;
static double g_max_dist     = 0;

// ------------------------------------------------------------------------------------------------ strategies
struct ScriptStrategy : smooth::TrustRegionStrategy
{
  std::vector<std::pair<bool, double>> script;
  std::size_t pos = 0;
  double get_delta() const override { return pos < script.size() ? script[pos].second : 1.0; }
  bool step_and_update(const double) override { return pos < script.size() ? script[pos++].first : false; }
};

struct RecStrategy : smooth::TrustRegionStrategy
{
  std::shared_ptr<smooth::TrustRegionStrategy> inner;
  std::function<void(double)> hook;
  mutable std::vector<double> deltas;
  std::vector<double> rhos;
  std::vector<char> takes;
  double get_delta() const override
  {
    const double d = inner->get_delta();
    deltas.push_back(d);
    return d;
  }
  bool step_and_update(const double rho) override
  {
    if (hook) hook(rho);
    const bool t = inner->step_and_update(rho);
    rhos.push_back(rho);
    takes.push_back(t);
    return t;
  }
};

// ------------------------------------------------------------------------------------------------ helpers
template<class T>
bool same_bits(const T & a, const T & b)
{
  if constexpr (requires { a.coeffs(); }) {
    return a.coeffs().size() == b.coeffs().size()
        && std::memcmp(a.coeffs().data(), b.coeffs().data(), sizeof(double) * a.coeffs().size()) == 0;
  } else if constexpr (std::is_arithmetic_v<T>) {
    return std::memcmp(&a, &b, sizeof(T)) == 0;
  } else {
    return a.size() == b.size() && std::memcmp(a.data(), b.data(), sizeof(double) * a.size()) == 0;
  }
}
template<class Tup>
bool same_bits_tuple(const Tup & a, const Tup & b)
{
  bool ok = true;
  [&]<std::size_t... I>(std::index_sequence<I...>) {
    ((ok = ok && same_bits(std::get<I>(a), std::get<I>(b))), ...);
  }(std::make_index_sequence<std::tuple_size_v<Tup>>{});
  return ok;
}
template<class Tup>
double dist_tuple(const Tup & a, const Tup & b)
{
  double s = 0;
  [&]<std::size_t... I>(std::index_sequence<I...>) {
    ((s += smooth::rminus(std::get<I>(a), std::get<I>(b)).squaredNorm()), ...);
  }(std::make_index_sequence<std::tuple_size_v<Tup>>{});
  return std::sqrt(s);
}
// largest coefficient-wise difference; a coefficient that is NaN in both counts as equal, NaN in one only as infinite
template<class Tup>
double coeff_diff_tuple(const Tup & a, const Tup & b)
{
  double m = 0;
  auto one = [&](const auto & u, const auto & v) {
    auto cmp = [&](const auto & cu, const auto & cv) {
      if (cu.size() != cv.size()) { m = INFINITY; return; }
      for (Eigen::Index i = 0; i < cu.size(); ++i) {
        const double x = cu(i), y = cv(i);
        if (std::isnan(x) && std::isnan(y)) continue;
        const double d = std::abs(x - y);
        if (!(d <= m)) m = std::isnan(d) ? INFINITY : d;
      }
    };
    if constexpr (requires { u.coeffs(); }) cmp(u.coeffs(), v.coeffs());
    else cmp(u, v);
  };
  [&]<std::size_t... I>(std::index_sequence<I...>) { (one(std::get<I>(a), std::get<I>(b)), ...); }(
    std::make_index_sequence<std::tuple_size_v<Tup>>{});
  return m;
}
template<class Tup>
bool all_finite_tuple(const Tup & a)
{
  bool ok  = true;
  auto one = [&](const auto & v) {
    if constexpr (requires { v.coeffs(); }) ok = ok && v.coeffs().allFinite();
    else ok = ok && v.allFinite();
  };
  std::apply([&](const auto &... v) { (one(v), ...); }, a);
  return ok;
}
template<class Tup>
double mag_tuple(const Tup & a)
{
  double m = 0;
  auto one = [&](const auto & v) {
    if constexpr (requires { v.coeffs(); }) {
      m = std::max(m, v.coeffs().cwiseAbs().maxCoeff());
    } else {
      if (v.size() > 0) m = std::max(m, v.cwiseAbs().maxCoeff());
    }
  };
  std::apply([&](const auto &... v) { (one(v), ...); }, a);
  return m;
}
template<class Tup>
std::string tuple_json(const Tup & a)
{
  std::ostringstream os;
  os.precision(17);
  os << "[";
  bool first = true;
  auto one   = [&](const auto & v) {
    if constexpr (requires { v.coeffs(); }) {
      for (Eigen::Index i = 0; i < v.coeffs().size(); ++i) { os << (first ? "" : ",") << v.coeffs()(i); first = false; }
    } else {
      for (Eigen::Index i = 0; i < v.size(); ++i) { os << (first ? "" : ",") << v(i); first = false; }
    }
  };
  std::apply([&](const auto &... v) { (one(v), ...); }, a);
  os << "]";
  return os.str();
}
static std::string jnum(double v)
{
  char b[64];
  if (std::isnan(v)) return "\"nan\"";
  if (std::isinf(v)) return v > 0 ? "\"inf\"" : "\"-inf\"";
  std::snprintf(b, sizeof b, "%.17g", v);
  return b;
}

// ------------------------------------------------------------------------------------------------ functor wrappers
template<class X>
struct Ctx
{
  long ncalls = 0, njac = 0;
  bool first  = true;  // next evaluation is the first of a loop iteration (r = f(x))
  double rn = NAN, last_norm = NAN;
  X x_first;           // the point of that first evaluation
  bool have_first = false;
};

template<class Fam>
struct FnN
{
  using X = typename Fam::X;
  const Fam * fam;
  Ctx<X> * ctx;
  template<class... A>
  auto operator()(const A &... a) const
  {
    auto r = fam->eval(a...);
    if (ctx) {
      ++ctx->ncalls;
      ctx->last_norm = r.stableNorm();
      if (ctx->first) {
        ctx->first      = false;
        ctx->x_first    = X(a...);
        ctx->have_first = true;
        ctx->rn         = ctx->last_norm;
      }
    }
    return r;
  }
};
template<class Fam, class Tup>
struct FnA;
template<class Fam, class... A>
struct FnA<Fam, std::tuple<A...>> : FnN<Fam>
{
  auto jacobian(const A &... a) const
  {
    if (this->ctx) ++this->ctx->njac;
    return this->fam->jac(a...);
  }
};

// ------------------------------------------------------------------------------------------------ case spec / runner
struct Spec
{
  std::string id, fam, stratum;
  char strat = 'C';   // C Ceres, D Disney, S scripted
  bool cont  = false; // reuse the strategy object of the previous case of this stream
  unsigned long max_iter = 1000;
  double ptol = 1e-6, ftol = 1e-6;
  bool verbose = false;
  std::vector<std::pair<bool, double>> script;
  bool check_conv = false;  // problem is well conditioned, start in the basin: Ftol/Ptol must be within 1e-3
  bool contract   = true;   // strategy only takes steps with rho > 0 (false for scripted)
  double fscale   = 1;      // magnitude of the data entering the residual (scale of the rounding error of evaluating f)
};

struct ItRec
{
  double delta, rho, actu, pred, dnorm, norm_new, rn;
  bool take, rnz, stepped;
  bool lam_ok;  // lambda * max(d)^2 = max(d)^2 / Delta is a finite double (the regularised normal matrix does not overflow)
  long n;
};

static const char * mode_name(Type D, bool usejac)
{
  switch (D) {
  case Type::Numerical: return "Numerical";
  case Type::Analytic: return "Analytic";
  default: return usejac ? "Default(Analytic)" : "Default(Numerical)";
  }
}

static std::shared_ptr<RecStrategy> make_strategy(const Spec & sp, std::shared_ptr<RecStrategy> prev)
{
  if (sp.cont && prev) {
    prev->deltas.clear();
    prev->rhos.clear();
    prev->takes.clear();
    return prev;
  }
  auto rec = std::make_shared<RecStrategy>();
  if (sp.strat == 'C') {
    rec->inner = std::make_shared<smooth::CeresStrategy>();
  } else if (sp.strat == 'D') {
    rec->inner = std::make_shared<smooth::DisneyStrategy>();
  } else {
    auto s    = std::make_shared<ScriptStrategy>();
    s->script = sp.script;
    rec->inner = s;
  }
  return rec;
}

// slack allowed between consecutive callback costs on the real code: relative 1e-9 (rounding of f and of the
// norms; the branch pred_red <= 0 takes a step of size O(sqrt(u)) without looking at rho) plus an absolute floor
// compared on norms: |f_new| <= |f_prev| (1 + MONO_REL) + MONO_ABS * fscale * (1 + iterations in between)
// (the absolute floor dates from the time when numerical differentiation did not restore the arguments exactly - fixed in
// /repo by 59fd5d3 - and is kept as the allowance for the rounding error of evaluating f near a zero residual)
static constexpr double MONO_REL = 1e-9;
static constexpr double MONO_ABS = 1e-13;

template<Type D, bool UseJac, class Fam>
std::shared_ptr<RecStrategy>
run_case(const Fam & fam, typename Fam::X x, const Spec & sp, std::shared_ptr<RecStrategy> prev = nullptr)
{
  using X = typename Fam::X;
  using F = std::conditional_t<UseJac, FnA<Fam, X>, FnN<Fam>>;

  Ctx<X> ctx;
  F f;
  f.fam = &fam, f.ctx = &ctx;
  F f_nc;
  f_nc.fam = &fam, f_nc.ctx = nullptr;

  auto rec = make_strategy(sp, prev);
  const double delta0 = rec->inner->get_delta();
  std::vector<ItRec> its;
  std::vector<double> cb_cost;
  std::vector<X> cb_x;
  std::vector<long> cb_at;  // number of step_and_update calls before this callback
  X last_xp;                // trial point xp of the current iteration (recomputed)
  bool have_xp = false, xp_mismatch = false;
  std::string oracle_problem, rho_formula_problem;
  bool oracle_inexact = false;

  rec->hook = [&](double rho) {
    ItRec it{};
    it.delta = rec->deltas.empty() ? NAN : rec->deltas.back();
    it.rho   = rho;
    it.stepped = false;
    if (!ctx.have_first) {
      oracle_problem = "no residual evaluation seen before step_and_update";
      its.push_back(it);
      return;
    }
    // recompute optim.hpp:76-103 from the point of the first evaluation of this iteration
    X xl    = ctx.x_first;
    auto xw = std::apply([](auto &... a) { return smooth::wrt(a...); }, xl);
    const auto [r, J] = smooth::diff::dr<1, D>(f_nc, xw);
    using JType             = std::decay_t<decltype(J)>;
    static constexpr auto N = JType::ColsAtCompileTime;
    static constexpr auto clamper    = [](double el) { return std::clamp(el, 1e-6, 1e32); };
    const Eigen::Vector<double, N> d = smooth::colwise_norm(J).unaryExpr(clamper);
    const auto [dx, lambda]          = smooth::solve_trust_region(J, d, r, it.delta);
    const auto xp                    = smooth::wrt_rplus(xw, dx);
    last_xp = std::make_from_tuple<X>(xp);
    have_xp = true;
    it.rn       = r.stableNorm();
    it.norm_new = std::apply(f_nc, xp).stableNorm();
    it.actu     = 1. - smooth::fpow<2>(it.norm_new / it.rn);
    it.pred     = 1. - smooth::fpow<2>((r + J * dx).stableNorm() / it.rn);
    const double rho2 = it.actu / it.pred;
    it.dnorm    = d.cwiseProduct(dx).stableNorm();
    it.n        = dx.size();
    it.rnz      = it.rn == 0;
    it.lam_ok   = std::isfinite(lambda * d.maxCoeff() * d.maxCoeff());
    // tie the recomputation to what the library did: same point now, same norms, same rho
    if (!same_bits_tuple(xl, x)) oracle_problem = "arguments at step_and_update differ from the replayed point";
    // (stableNorm's blocking depends on the alignment of its operand, so norms of equal vectors at different addresses
    //  may differ in the last bits: compare to 1e-13)
    auto close = [](double a, double b) {
      return std::memcmp(&a, &b, 8) == 0 || (std::isnan(a) && std::isnan(b)) || std::abs(a - b) <= 1e-13 * std::max(std::abs(a), std::abs(b));
    };
    if (!close(it.rn, ctx.rn)) {
      char b[200];
      std::snprintf(b, sizeof b, "r_n recomputed (%a) differs from the first evaluation of the iteration (%a)", it.rn, ctx.rn);
      oracle_problem = b;
    }
    if (!close(it.norm_new, ctx.last_norm)) oracle_problem = "|f(xp)| differs from the last evaluation";
    ++g_iters;
    if (std::memcmp(&rho2, &rho, 8) == 0 || (std::isnan(rho2) && std::isnan(rho))) {
      ++g_rho_bitwise;
    } else {
      // not bit-identical: a genuine difference only if it is not explained by last-bit noise under cancellation
      const bool cancel = std::abs(it.actu) < 1e-6 || std::abs(it.pred) < 1e-6;
      char b[200];
      std::snprintf(b, sizeof b, "rho handed to the strategy (%a) is not actu_red/pred_red (%a)", rho, rho2);
      if (!cancel && !(std::abs(rho - rho2) <= 1e-9 * (1 + std::abs(rho2)))) rho_formula_problem = b;
      oracle_inexact = true;
    }
    its.push_back(it);
    ctx.first = true;
  };

  auto cb = [&](const auto &... a) {
    cb_cost.push_back(fam.eval(a...).squaredNorm());
    cb_x.push_back(X(a...));
    cb_at.push_back(static_cast<long>(rec->rhos.size()) + 0);
    if (!its.empty() && cb_at.size() > 1) {
      its.back().stepped = true;
      // optim.hpp:140-143: the point handed to the callback after a step is the trial point xp
      if (have_xp && !same_bits_tuple(cb_x.back(), last_xp) && coeff_diff_tuple(cb_x.back(), last_xp) != 0) xp_mismatch = true;
    }
  };

  smooth::MinimizeOptions opts;
  opts.strat    = rec;
  opts.ptol     = sp.ptol;
  opts.ftol     = sp.ftol;
  opts.max_iter = sp.max_iter;
  opts.verbose  = sp.verbose;

  auto xw0 = std::apply([](auto &... a) { return smooth::wrt(a...); }, x);
  const smooth::SolveResult res = smooth::minimize<D>(f, xw0, cb, opts);
  rec->hook = nullptr;

  const char * mode = mode_name(D, UseJac);
  const char * stname =
    res.status == smooth::SolveResult::Status::Ftol ? "Ftol" : res.status == smooth::SolveResult::Status::Ptol ? "Ptol" : "MaxIters";

  // ---- canonical trace line
  std::printf("R %s %s %s %c %d %lu %a %a %a %a %zu", sp.id.c_str(), sp.fam.c_str(), mode, sp.strat, sp.cont ? 1 : 0,
              sp.max_iter, sp.ptol, sp.ftol, cb_cost.empty() ? NAN : cb_cost[0], delta0, sp.cont ? std::size_t(0) : sp.script.size());
  if (!sp.cont)
    for (auto & s : sp.script) std::printf(" %d %a", s.first ? 1 : 0, s.second);
  std::printf(" %zu", its.size());
  for (std::size_t i = 0; i < its.size(); ++i) {
    const auto & it = its[i];
    std::printf(" %a %a %d %d %a %a %a %ld %a %d", it.delta, it.rho, i < rec->takes.size() ? int(rec->takes[i]) : -1,
                it.rnz ? 1 : 0, it.actu, it.pred, it.dnorm, it.n, it.norm_new, it.stepped ? 1 : 0);
  }
  std::printf(" %s %u %zu %a\n", stname, res.iter, cb_cost.size(), rec->inner->get_delta());

  // ---- the property itself, on the real code
  ++rep.evaluations;
  ++rep.strata[sp.fam + "/" + mode];
  ++rep.strata[std::string("strategy/") + sp.strat + (sp.cont ? "+reused" : "")];
  ++rep.strata["start/" + sp.stratum];
  ++rep.strata[std::string("status/") + stname];
  // input region of the former finding C09-zero-residual-nan (fixed in /repo by 16638da; unreachable through a zero
  // residual since then, kept as a label of the failure records should it return): an iteration with r_n == 0 that
  // "takes" its step although lambda d_i^2 = d_i^2 / Delta (the diagonal added to J'J) is not a finite number any more
  bool lam_overflow = false;
  for (auto & it : its) lam_overflow = lam_overflow || (it.rnz && it.stepped && !it.lam_ok);
  const char * region = lam_overflow ? "zero_residual_radius_underflow" : "regular";
  if (lam_overflow) ++rep.strata["region/zero_residual_radius_underflow"];
  auto fail = [&](const char * check, const std::string & detail) {
    std::ostringstream os;
    os << "{\"check\":\"" << check << "\",\"case\":\"" << sp.id << "\",\"fam\":\"" << sp.fam << "\",\"mode\":\"" << mode
       << "\",\"strategy\":\"" << sp.strat << "\",\"reused_strategy\":" << (sp.cont ? "true" : "false")
       << ",\"max_iter\":" << sp.max_iter << ",\"ptol\":" << jnum(sp.ptol) << ",\"ftol\":" << jnum(sp.ftol)
       << ",\"start_stratum\":\"" << sp.stratum << "\",\"start\":" << (cb_x.empty() ? "[]" : tuple_json(cb_x[0]))
       << ",\"status\":\"" << stname << "\",\"iter\":" << res.iter << ",\"callbacks\":" << cb_cost.size() << ",\"region\":\"" << region << "\"," << detail
       << "}";
    rep.fail(os.str(), std::string(check) + "/" + region);
  };
  if (!oracle_problem.empty()) fail("oracle_recompute", "\"what\":\"" + oracle_problem + "\"");
  else if (oracle_inexact) ++rep.strata["oracle/rho_not_bitwise"];
  if (!rho_formula_problem.empty()) fail("rho_formula", "\"what\":\"" + rho_formula_problem + "\"");
  if (xp_mismatch) fail("callback_point", "\"what\":\"the point handed to the callback after a step is not the trial point x (+) dx\"");
  // iteration bound, callbacks
  if (res.iter > sp.max_iter) fail("iter_bound", "\"what\":\"iter > max_iter\"");
  if (cb_cost.size() > sp.max_iter + 1) fail("iter_bound", "\"what\":\"callbacks > max_iter + 1\"");
  if (cb_cost.empty() || cb_at[0] != 0) fail("callback_first", "\"what\":\"no callback on the initial point before the first iteration\"");
  if (rec->rhos.size() != res.iter || rec->deltas.size() != res.iter)
    fail("iter_count", "\"what\":\"reported iter differs from the number of strategy calls\",\"step_and_update_calls\":"
                         + std::to_string(rec->rhos.size()) + ",\"get_delta_calls\":" + std::to_string(rec->deltas.size()));
  // status contract
  if (res.status == smooth::SolveResult::Status::MaxIters) {
    if (res.iter != sp.max_iter) fail("status_maxiters", "\"what\":\"MaxIters reported with iter != max_iter\"");
  } else {
    if (res.iter < 1 || its.empty() || !its.back().stepped)
      fail("status_converged", "\"what\":\"Ftol/Ptol reported but the last iteration took no step\"");
  }
  // zero residual (C09_zero_residual_stops / C09_zero_residual_ends_run; optim.hpp:139,147 since /repo 16638da): an iteration
  // that sees r_n == 0 takes its step, is the last iteration of the run, and the run reports Ftol
  for (std::size_t i = 0; i < its.size(); ++i) {
    if (!its[i].rnz) continue;
    if (!its[i].stepped || i + 1 != its.size() || res.status != smooth::SolveResult::Status::Ftol) {
      fail("zero_residual_stops", "\"what\":\"an iteration with r_n == 0 did not end the run with Ftol (zero residual cannot be reduced; rho is NaN)\",\"iteration\":"
                                    + std::to_string(i) + ",\"iterations_executed\":" + std::to_string(its.size()) + ",\"stepped\":" + (its[i].stepped ? "true" : "false"));
      break;
    }
    ++rep.strata["zero_residual/iteration_with_r_n_0_ended_run_with_Ftol"];
  }
  // monotone callback costs
  for (std::size_t k = 1; k < cb_cost.size() && sp.contract; ++k) {
    const double a = std::sqrt(cb_cost[k - 1]), b = std::sqrt(cb_cost[k]);
    if (std::isnan(a)) continue;
    if (std::isnan(b)) {
      fail("monotone", "\"what\":\"callback cost became NaN\",\"k\":" + std::to_string(k) + ",\"cost_prev\":" + jnum(cb_cost[k - 1]));
      continue;
    }
    if (b > a) {
      const double between = static_cast<double>(cb_at[k] - cb_at[k - 1]);
      const double slack   = MONO_ABS * sp.fscale * (1 + between);
      const double inc     = a > 0 ? (b - a) / a : INFINITY;
      if (b - a > slack && !(inc <= g_max_increase)) g_max_increase = inc;
      if (b > a * (1 + MONO_REL) + slack)
        fail("monotone", "\"what\":\"callback cost increased\",\"k\":" + std::to_string(k) + ",\"cost_prev\":" + jnum(cb_cost[k - 1])
                           + ",\"cost_new\":" + jnum(cb_cost[k]));
    }
  }
  // run-time check of the floating-point oracle contract assumed by C09_cost_monotone_fl (Proofs/C09_Minimize.v fl_oracle)
  for (std::size_t i = 0; i < its.size(); ++i) {
    const auto & it    = its[i];
    const double slack = MONO_ABS * sp.fscale * 2;
    if (it.actu > 0 && !(it.norm_new <= it.rn)) fail("fl_contract_a", "\"what\":\"actu_red > 0 but |f(xp)| > r_n\",\"iteration\":" + std::to_string(i));
    if ((it.rnz || it.pred <= 0) && !(it.norm_new <= it.rn * (1 + MONO_REL) + slack))
      fail("fl_contract_b", "\"what\":\"step taken without looking at rho (r_n == 0 or pred_red <= 0) makes the cost worse\",\"iteration\":"
                              + std::to_string(i) + ",\"r_n\":" + jnum(it.rn) + ",\"norm_new\":" + jnum(it.norm_new) + ",\"pred_red\":" + jnum(it.pred)
                              + ",\"Delta\":" + jnum(it.delta));
    if (!it.rnz && it.rho > 0 && !(it.pred <= 0) && !(it.actu > 0))
      fail("fl_contract_c", "\"what\":\"rho > 0, pred_red > 0 but actu_red <= 0\",\"iteration\":" + std::to_string(i));
  }
  // final arguments = last iterate handed to the callback
  if (!cb_x.empty()) {
    const double dd = coeff_diff_tuple(x, cb_x.back());
    if (!same_bits_tuple(x, cb_x.back())) {
      ++g_drift_cases;
      if (!(dd <= g_max_drift)) g_max_drift = dd;
    }
    const double mg = mag_tuple(x);
    // (a callback point that already contains NaN - only reachable through a contract-breaking user strategy or a
    //  return of the former finding C09-zero-residual-nan, which the other checks report - is not compared: numerical differentiation at such a point turns every coordinate into NaN)
    // exact since /repo 59fd5d3 (dr_numerical restores the perturbed arguments from a saved copy; before that the
    // arguments drifted by O(u) per iteration in Numerical mode and 1e-10 relative was tolerated here)
    (void)mg;
    if (all_finite_tuple(cb_x.back()) && !(dd == 0))
      fail("final_is_last_iterate", "\"what\":\"final arguments differ from the last callback point\",\"dist\":" + jnum(dd));
    // never worse than the start
    const double cf = std::apply([&](const auto &... a) { return fam.eval(a...).squaredNorm(); }, x);
    if (sp.contract && !std::isnan(cb_cost[0])
        && !(std::sqrt(cf) <= std::sqrt(cb_cost[0]) * (1 + MONO_REL * (1 + cb_cost.size())) + MONO_ABS * sp.fscale * (1 + res.iter)))
      fail("not_worse_than_start", "\"what\":\"final cost above start cost\",\"cost_start\":" + jnum(cb_cost[0]) + ",\"cost_final\":" + jnum(cf));
  }
  // convergence to the planted minimiser
  if (sp.check_conv && res.status != smooth::SolveResult::Status::MaxIters) {
    const double dd = dist_tuple(x, fam.planted);
    ++g_conv_checked;
    if (!(dd <= g_max_dist)) g_max_dist = dd;
    if (!(dd <= 1e-3))
      fail("convergence", "\"what\":\"Ftol/Ptol result farther than 1e-3 from the planted minimiser\",\"dist\":" + jnum(dd)
                            + ",\"final\":" + tuple_json(x) + ",\"planted\":" + tuple_json(fam.planted));
  }
  // (beyond the literal statement, needed to notice a minimize that never moves: with the default tolerances a
  //  well-conditioned planted problem must report convergence within 60 iterations; observed maximum 22)
  if (sp.check_conv && sp.ptol == 1e-6 && sp.ftol == 1e-6 && sp.max_iter >= 60 && res.status == smooth::SolveResult::Status::MaxIters)
    fail("convergence_reached", "\"what\":\"no convergence within max_iter on a well-conditioned planted problem with default tolerances\",\"dist\":"
                                  + jnum(dist_tuple(x, fam.planted)));
  if (rep.samples.size() < 6 && (rep.evaluations % 97 == 1)) {
    std::ostringstream os;
    os << "{\"case\":\"" << sp.id << "\",\"fam\":\"" << sp.fam << "\",\"mode\":\"" << mode << "\",\"strategy\":\"" << sp.strat
       << "\",\"max_iter\":" << sp.max_iter << ",\"ptol\":" << jnum(sp.ptol) << ",\"ftol\":" << jnum(sp.ftol)
       << ",\"start\":" << tuple_json(cb_x[0]) << ",\"status\":\"" << stname << "\",\"iter\":" << res.iter
       << ",\"callback_costs\":[";
    for (std::size_t k = 0; k < cb_cost.size() && k < 12; ++k) os << (k ? "," : "") << jnum(cb_cost[k]);
    os << "],\"rho\":[";
    for (std::size_t k = 0; k < rec->rhos.size() && k < 12; ++k) os << (k ? "," : "") << jnum(rec->rhos[k]);
    os << "]}";
    rep.sample(os.str());
  }
  return rec;
}


// ================================================================================================ problem families
using V2 = Eigen::Vector2d;
using V3 = Eigen::Vector3d;
using VX = Eigen::VectorXd;
using MX = Eigen::MatrixXd;
using smooth::SE2d;
using smooth::SE3d;
using smooth::SO3d;

static VX rand_vec(Rng & r, int n, double s = 1)
{
  VX v(n);
  for (int i = 0; i < n; ++i) v(i) = s * r.sym();
  return v;
}
// m x n matrix with singular values in [1/kappa, 1] * scale (well conditioned when kappa small)
static MX rand_mat(Rng & r, int m, int n, double kappa, double scale)
{
  MX A(m, n);
  for (int i = 0; i < m; ++i)
    for (int j = 0; j < n; ++j) A(i, j) = r.sym();
  Eigen::JacobiSVD<MX> svd(A, Eigen::ComputeThinU | Eigen::ComputeThinV);
  VX sv(n);
  for (int j = 0; j < n; ++j) sv(j) = scale * std::exp(-std::log(kappa) * (n > 1 ? double(j) / (n - 1) : 0.));
  return svd.matrixU() * sv.asDiagonal() * svd.matrixV().transpose();
}
// minimiser of |A x - b| by long-double QR (independent of smooth)
static VX ls_solve(const MX & A, const VX & b)
{
  using ML = Eigen::Matrix<long double, -1, -1>;
  using VL = Eigen::Matrix<long double, -1, 1>;
  ML Al = A.cast<long double>();
  VL bl = b.cast<long double>();
  VL xl = Al.colPivHouseholderQr().solve(bl);
  return xl.cast<double>();
}

// F1: static linear least squares, 6 residuals in 3 unknowns
struct LinS
{
  using X = std::tuple<V3>;
  Eigen::Matrix<double, 6, 3> A;
  Eigen::Matrix<double, 6, 1> b;
  X planted;
  auto eval(const V3 & x) const { return Eigen::Matrix<double, 6, 1>(A * x - b); }
  auto jac(const V3 &) const { return A; }
};
// F2: dynamic linear least squares
struct LinD
{
  using X = std::tuple<VX>;
  MX A;
  VX b;
  X planted;
  VX eval(const VX & x) const { return A * x - b; }
  MX jac(const VX &) const { return A; }
};
// F3: linear least squares with a sparse (banded) Jacobian
struct LinSp
{
  using X = std::tuple<VX>;
  Eigen::SparseMatrix<double> A;
  VX b;
  X planted;
  VX eval(const VX & x) const { return A * x - b; }
  Eigen::SparseMatrix<double> jac(const VX &) const { return A; }
};
// F4: Rosenbrock-type polynomial residuals (a (x2 - x1^2), 1 - x1), minimiser (1,1)
struct Rosen
{
  using X = std::tuple<V2>;
  double a;
  X planted;
  auto eval(const V2 & x) const { return V2(a * (x(1) - x(0) * x(0)), 1 - x(0)); }
  auto jac(const V2 & x) const
  {
    Eigen::Matrix2d J;
    J << -2 * a * x(0), a, -1, 0;
    return J;
  }
};
// F5: polynomial (quadratic) residuals B u + c .* u .* u, u = x - x*, dynamic size
struct PolyD
{
  using X = std::tuple<VX>;
  MX B;
  VX c, xs, off;   // off: constant offset orthogonal to range(B) is not needed; off = 0 (zero-residual) or small
  X planted;
  VX eval(const VX & x) const
  {
    const VX u = x - xs;
    return B * u + c.cwiseProduct(u).cwiseProduct(u);
  }
  MX jac(const VX & x) const
  {
    const VX u = x - xs;
    MX J       = B;
    J += (2 * c.cwiseProduct(u)).asDiagonal();
    return J;
  }
};
// F6: curve fitting y = a exp(b t) + c on 8 abscissae
struct Curve
{
  using X = std::tuple<V3>;
  Eigen::Matrix<double, 8, 1> t, y;
  X planted;
  auto eval(const V3 & p) const
  {
    Eigen::Matrix<double, 8, 1> r;
    for (int i = 0; i < 8; ++i) r(i) = p(0) * std::exp(p(1) * t(i)) + p(2) - y(i);
    return r;
  }
  auto jac(const V3 & p) const
  {
    Eigen::Matrix<double, 8, 3> J;
    for (int i = 0; i < 8; ++i) {
      const double e = std::exp(p(1) * t(i));
      J(i, 0) = e, J(i, 1) = p(0) * t(i) * e, J(i, 2) = 1;
    }
    return J;
  }
};
// F7: residual that is NaN outside x2 > 0 (log), minimiser (1, 1)
struct LogNan
{
  using X = std::tuple<V2>;
  X planted;
  auto eval(const V2 & x) const { return V2(x(0) - 1, std::log(x(1))); }
  auto jac(const V2 & x) const
  {
    Eigen::Matrix2d J;
    J << 1, 0, 0, 1 / x(1);
    return J;
  }
};
// F8: constant residual (zero Jacobian, non-zero residual)
struct ConstF
{
  using X = std::tuple<V2>;
  V3 c;
  X planted;
  auto eval(const V2 &) const { return c; }
  auto jac(const V2 &) const { return Eigen::Matrix<double, 3, 2>(Eigen::Matrix<double, 3, 2>::Zero()); }
};

// F10: point alignment g * p_i = q_i on SO3 (4 points, static), SE2 (5 points, dynamic), SE3 (4 points, static)
template<class G, int Dim, int Np, bool Dynamic>
struct Align
{
  using X = std::tuple<G>;
  using P = Eigen::Vector<double, Dim>;
  std::array<P, Np> p, q;
  X planted;
  auto eval(const G & g) const
  {
    std::conditional_t<Dynamic, VX, Eigen::Vector<double, Dim * Np>> r(Dim * Np);
    for (int i = 0; i < Np; ++i) r.template segment<Dim>(Dim * i) = g * p[i] - q[i];
    return r;
  }
};
// F11: g (-) g* on a Lie group with the analytic Jacobian dr_expinv
template<class G>
struct LogRes
{
  using X = std::tuple<G>;
  G gs;
  X planted;
  auto eval(const G & g) const { return typename G::Tangent(g - gs); }
  auto jac(const G & g) const { return typename G::TangentMap(G::dr_expinv(g - gs)); }
};
// F12: Bundle<SO3, R3>
using Bun = smooth::Bundle<SO3d, V3>;
struct BunRes
{
  using X = std::tuple<Bun>;
  Bun bs;
  Eigen::Matrix<double, 6, 1> w;  // row weights (conditioning)
  X planted;
  auto eval(const Bun & b) const { return Eigen::Matrix<double, 6, 1>(w.cwiseProduct(b - bs)); }
};
// F13: mixed arguments (SO3, dynamic vector), as in test_nls MixedArgs
struct Mixed
{
  using X = std::tuple<SO3d, VX>;
  SO3d g0;
  V3 vs;
  X planted;
  VX eval(const SO3d & g, const VX & v) const
  {
    VX r(6);
    r << (g + v.template head<3>()) - g0, v - vs;
    return r;
  }
};
// F14: two static arguments
struct TwoSO3
{
  using X = std::tuple<SO3d, SO3d>;
  SO3d a1, a2;
  V3 d12;
  X planted;
  auto eval(const SO3d & g1, const SO3d & g2) const
  {
    Eigen::Matrix<double, 9, 1> r;
    r << g1 - a1, g2 - a2, (g1 - g2) - d12;
    return r;
  }
};
// F15: three arguments with an analytic sparse Jacobian (test_nls AnalyticSparse)
struct Sparse3
{
  using X = std::tuple<SO3d, SO3d, SO3d>;
  V3 d23, d31;
  X planted;
  VX eval(const SO3d & g1, const SO3d & g2, const SO3d & g3) const
  {
    VX f(9);
    f.segment<3>(0) = g1.log();
    f.segment<3>(3) = (g3 - g2) - d23;
    f.segment<3>(6) = (g1 - g3) - d31;
    return f;
  }
  Eigen::SparseMatrix<double> jac(const SO3d & g1, const SO3d & g2, const SO3d & g3) const
  {
    const Eigen::Matrix3d a = SO3d::dr_expinv(g1.log());
    const Eigen::Matrix3d b3 = SO3d::dr_expinv(g3 - g2), b2 = -SO3d::dl_expinv(g3 - g2);
    const Eigen::Matrix3d c1 = SO3d::dr_expinv(g1 - g3), c3 = -SO3d::dl_expinv(g1 - g3);
    Eigen::SparseMatrix<double> J(9, 9);
    for (int i = 0; i != 3; ++i)
      for (int j = 0; j != 3; ++j) {
        J.insert(i, j)         = a(i, j);
        J.insert(3 + i, 3 + j) = b2(i, j);
        J.insert(3 + i, 6 + j) = b3(i, j);
        J.insert(6 + i, 6 + j) = c3(i, j);
        J.insert(6 + i, 0 + j) = c1(i, j);
      }
    J.makeCompressed();
    return J;
  }
};

// ================================================================================================ generators
static long g_case = 0;
static std::string next_id(const char * stream)
{
  char b[64];
  std::snprintf(b, sizeof b, "%s%ld", stream, ++g_case);
  return b;
}

// option values: every boundary of the loop/status logic
static void draw_options(Rng & r, Spec & sp, bool may_run_long)
{
  static const unsigned long mi[] = {0, 1, 2, 3, 5, 8, 20, 60, 1000};
  const int k = r.below(12);
  sp.max_iter = k < 9 ? mi[k] : 1000;
  static const double tols[] = {1e-6, 1e-6, 1e-6, 1e-10, 1e-14, 0.0, 1e-3, 1e-1, -1.0, 1.0};
  sp.ptol = tols[r.below(10)];
  sp.ftol = tols[r.below(10)];
  // a run that can never report convergence executes max_iter iterations: keep those short (the exact-rational
  // model carries Delta with 2^(k^2/2) denominators through k consecutive rejections)
  if ((sp.ptol <= 0 && sp.ftol <= 0) || !may_run_long) sp.max_iter = std::min<unsigned long>(sp.max_iter, 40);
  sp.max_iter = std::min<unsigned long>(sp.max_iter, 200);
  const int s = r.below(10);
  sp.strat    = s < 5 ? 'C' : s < 9 ? 'D' : 'S';
  sp.contract = sp.strat != 'S';
  sp.verbose  = r.below(40) == 0;
  if (sp.strat == 'S') {
    const int n = r.below(12);
    for (int i = 0; i < n; ++i) sp.script.emplace_back(r.below(2) == 0, r.logu(1e-3, 1e5));
    sp.max_iter = std::min<unsigned long>(sp.max_iter, 30);
  }
}
static bool conv_domain(const Spec & sp)
{
  return sp.strat != 'S' && !sp.cont && sp.ptol <= 1e-6 && sp.ftol <= 1e-6;
}
// start perturbation magnitude strata
struct Pert
{
  const char * label;
  double mag;
};
static Pert draw_pert(Rng & r, double basin)
{
  switch (r.below(6)) {
  case 0: return {"at_minimiser", 0.0};
  case 1: return {"1e-9", 1e-9};
  case 2: return {"1e-4", 1e-4};
  case 3: return {"small", 0.05 * basin};
  case 4: return {"medium", 0.3 * basin};
  default: return {"basin_edge", basin};
  }
}
template<class G>
static G rand_group(Rng & r, double angle)
{
  typename G::Tangent a;
  for (int i = 0; i < a.size(); ++i) a(i) = r.sym();
  a *= angle / std::max(1e-300, a.norm());
  return G::exp(a);
}
template<class G>
static G perturb_group(Rng & r, const G & g, double mag)
{
  typename G::Tangent a;
  for (int i = 0; i < a.size(); ++i) a(i) = r.sym();
  if (a.norm() > 0) a *= mag / a.norm();
  return g + a;
}

template<class Fam>
static void run_modes_jac(Rng & r, const Fam & fam, const typename Fam::X & x0, Spec sp)
{
  switch (r.below(4)) {
  case 0: run_case<Type::Analytic, true>(fam, x0, sp); break;
  case 1: run_case<Type::Numerical, true>(fam, x0, sp); break;
  case 2: run_case<Type::Default, true>(fam, x0, sp); break;
  default: run_case<Type::Default, false>(fam, x0, sp); break;
  }
}
template<class Fam>
static void run_modes_num(Rng & r, const Fam & fam, const typename Fam::X & x0, Spec sp)
{
  if (r.below(2)) run_case<Type::Numerical, false>(fam, x0, sp);
  else run_case<Type::Default, false>(fam, x0, sp);
}

#if C09_PART == 0 || C09_PART == 1
static void gen_lin_static(Rng & r)
{
  LinS f;
  const double kappa = r.below(3) == 0 ? 1e3 : 1 + 9 * r.uni();
  f.A                = rand_mat(r, 6, 3, kappa, r.logu(1e-2, 1e2));
  const V3 xs        = rand_vec(r, 3, r.logu(1e-2, 1e2));
  const bool noise   = r.below(2);
  f.b                = f.A * xs;
  if (noise) f.b += rand_vec(r, 6, 1e-3 * f.b.norm() + 1e-6);
  f.planted = {V3(ls_solve(f.A, f.b))};
  Spec sp;
  sp.id = next_id("ls"), sp.fam = "linear_static";
  sp.fscale = 1 + f.b.norm();
  draw_options(r, sp, true);
  const Pert pe = draw_pert(r, r.logu(1, 1e3));
  sp.stratum    = pe.label;
  V3 x0         = std::get<0>(f.planted) + pe.mag * rand_vec(r, 3);
  sp.check_conv = conv_domain(sp) && kappa <= 10;
  run_modes_jac(r, f, {x0}, sp);
}
static void gen_lin_dynamic(Rng & r, bool zero_col)
{
  LinD f;
  const int n        = 1 + r.below(6);
  const int m        = n + r.below(5);
  const double kappa = r.below(3) == 0 ? 1e4 : 1 + 9 * r.uni();
  f.A                = rand_mat(r, m, n, kappa, r.logu(1e-2, 1e2));
  int zc             = -1;
  if (zero_col) {
    zc = r.below(n);
    f.A.col(zc).setZero();
  }
  const VX xs = rand_vec(r, n, r.logu(1e-2, 1e2));
  f.b         = f.A * xs;
  if (r.below(2)) f.b += rand_vec(r, m, 1e-3 * f.b.norm() + 1e-6);
  if (zero_col) {
    f.planted = {xs};
  } else {
    f.planted = {ls_solve(f.A, f.b)};
  }
  Spec sp;
  sp.id = next_id(zero_col ? "zc" : "ld"), sp.fam = zero_col ? "linear_zero_jacobian_column" : "linear_dynamic";
  sp.fscale = 1 + f.b.norm();
  draw_options(r, sp, true);
  const Pert pe = draw_pert(r, r.logu(1, 1e3));
  sp.stratum    = pe.label;
  VX x0         = std::get<0>(f.planted) + pe.mag * rand_vec(r, n);
  sp.check_conv = !zero_col && conv_domain(sp) && kappa <= 10;
  run_modes_jac(r, f, {x0}, sp);
}
static void gen_lin_sparse(Rng & r)
{
  LinSp f;
  const int n = 2 + r.below(7);
  const int m = n + 1;
  f.A.resize(m, n);
  for (int j = 0; j < n; ++j) {
    f.A.insert(j, j)     = 1 + r.uni();
    f.A.insert(j + 1, j) = 0.5 * r.sym();
  }
  f.A.makeCompressed();
  const VX xs = rand_vec(r, n, r.logu(1e-1, 1e1));
  f.b         = f.A * xs;
  if (r.below(2)) f.b += rand_vec(r, m, 1e-3);
  f.planted = {ls_solve(MX(f.A), f.b)};
  Spec sp;
  sp.id = next_id("sp"), sp.fam = "linear_sparse";
  sp.fscale = 1 + f.b.norm();
  draw_options(r, sp, true);
  const Pert pe = draw_pert(r, r.logu(1, 1e2));
  sp.stratum    = pe.label;
  VX x0         = std::get<0>(f.planted) + pe.mag * rand_vec(r, n);
  sp.check_conv = conv_domain(sp);
  switch (r.below(3)) {
  case 0: run_case<Type::Analytic, true>(f, {x0}, sp); break;
  case 1: run_case<Type::Default, true>(f, {x0}, sp); break;
  default: run_case<Type::Numerical, true>(f, {x0}, sp); break;
  }
}
static void gen_rosen(Rng & r)
{
  Rosen f;
  f.a       = r.below(2) ? 1.0 : 10.0;
  f.planted = {V2(1, 1)};
  Spec sp;
  sp.id = next_id("ro"), sp.fam = "polynomial_rosenbrock";
  sp.fscale = 100;
  draw_options(r, sp, true);
  const Pert pe = draw_pert(r, 1.5);
  sp.stratum    = pe.label;
  V2 x0         = V2(1, 1) + pe.mag * V2(r.sym(), r.sym());
  sp.check_conv = conv_domain(sp);
  run_modes_jac(r, f, {x0}, sp);
}
static void gen_poly(Rng & r)
{
  PolyD f;
  const int n = 1 + r.below(5);
  f.B         = MX::Identity(n, n) + 0.3 * rand_mat(r, n, n, 2, 1);
  f.c         = rand_vec(r, n, 0.3);
  f.xs        = rand_vec(r, n, r.logu(1e-1, 1e1));
  f.planted   = {f.xs};
  Spec sp;
  sp.id = next_id("po"), sp.fam = "polynomial_quadratic";
  sp.fscale = 1 + 4 * f.xs.norm();
  draw_options(r, sp, true);
  const Pert pe = draw_pert(r, 0.5);
  sp.stratum    = pe.label;
  VX x0         = f.xs + pe.mag * rand_vec(r, n);
  sp.check_conv = conv_domain(sp);
  run_modes_jac(r, f, {x0}, sp);
}
static void gen_curve(Rng & r)
{
  Curve f;
  const V3 ps(1 + r.uni(), -(0.5 + 1.5 * r.uni()), r.sym());
  for (int i = 0; i < 8; ++i) f.t(i) = i / 7.0 * 2;
  const bool noise = r.below(2);
  for (int i = 0; i < 8; ++i) f.y(i) = ps(0) * std::exp(ps(1) * f.t(i)) + ps(2) + (noise ? 1e-7 * r.sym() : 0.);
  f.planted = {ps};
  Spec sp;
  sp.id = next_id("cf"), sp.fam = "curve_fit_exp";
  sp.fscale = 10;
  draw_options(r, sp, true);
  const Pert pe = draw_pert(r, 0.3);
  sp.stratum    = pe.label;
  V3 x0         = ps + pe.mag * V3(r.sym(), r.sym(), r.sym());
  sp.check_conv = conv_domain(sp);
  run_modes_jac(r, f, {x0}, sp);
}
// degenerate starts: zero residual, zero Jacobian (column), NaN rho
static void gen_degenerate(Rng & r)
{
  Spec sp;
  draw_options(r, sp, false);
  switch (r.below(6)) {
  case 0: {  // zero residual at the start: r_n == 0, rho = NaN
    LinS f;
    f.A         = rand_mat(r, 6, 3, 3, 1);
    const V3 xs = V3(1, -2, 0.5);  // dyadic: A xs - A xs is exactly 0
    f.b         = f.A * xs;
    f.planted   = {xs};
    sp.id = next_id("dz"), sp.fam = "degenerate_zero_residual", sp.stratum = "at_minimiser";
    sp.fscale = 1 + f.b.norm();
    run_modes_jac(r, f, {xs}, sp);
    break;
  }
  case 1: gen_lin_dynamic(r, true); break;
  case 2: {  // zero Jacobian, non-zero residual: dx = 0, pred_red = 0, rho = NaN
    ConstF f;
    f.c       = V3(1, 2, 3) * r.logu(1e-3, 1e3);
    f.planted = {V2(0, 0)};
    sp.id = next_id("dj"), sp.fam = "degenerate_zero_jacobian", sp.stratum = "anywhere";
    sp.fscale = 1 + f.c.norm();
    run_modes_jac(r, f, {V2(r.sym(), r.sym())}, sp);
    break;
  }
  case 3: {  // residual NaN from the start (x2 <= 0): every rho is NaN
    LogNan f;
    f.planted = {V2(1, 1)};
    sp.id = next_id("dn"), sp.fam = "degenerate_nan_residual", sp.stratum = "nan_start";
    sp.fscale = 10;
    run_modes_jac(r, f, {V2(r.sym(), -r.uni())}, sp);
    break;
  }
  case 4: {  // zero residual with the step-size test disabled (ptol <= 0) and enough iterations for Delta to underflow
    LinS f;
    f.A         = rand_mat(r, 6, 3, 3, 1);
    const V3 xs = V3(1, -2, 0.5);
    f.b         = f.A * xs;
    f.planted   = {xs};
    sp.strat = 'C', sp.contract = true, sp.script.clear();
    sp.ptol     = r.below(2) ? 0.0 : -1.0;
    sp.max_iter = 44 + r.below(12);   // Ceres: Delta = 1e4 / 2^(k(k+1)/2) is below 2^-1024 from k = 45 on
    sp.id = next_id("dsp"), sp.fam = "degenerate_zero_residual_ptol0", sp.stratum = "at_minimiser";
    sp.fscale = 1 + f.b.norm();
    run_modes_jac(r, f, {xs}, sp);
    break;
  }
  default: {  // first steps land where the residual is NaN (log of a negative number): rho = NaN, then recovery
    LogNan f;
    f.planted = {V2(1, 1)};
    sp.id = next_id("dl"), sp.fam = "degenerate_nan_trial_point", sp.stratum = "far_start";
    sp.fscale = 30;
    run_modes_jac(r, f, {V2(r.sym(), 3 + 20 * r.uni())}, sp);
    break;
  }
  }
}
// strategy object shared by consecutive minimize calls (MinimizeOptions::strat is a shared_ptr)
static void gen_reused(Rng & r)
{
  std::shared_ptr<RecStrategy> rec;
  const char kind = r.below(2) ? 'C' : 'D';
  const int ncalls = 2 + r.below(3);
  for (int k = 0; k < ncalls; ++k) {
    Rosen f;
    f.a       = r.below(2) ? 1.0 : 10.0;
    f.planted = {V2(1, 1)};
    Spec sp;
    draw_options(r, sp, true);
    sp.strat = kind, sp.contract = true, sp.script.clear();
    sp.cont  = k > 0;
    sp.id = next_id("ru"), sp.fam = "polynomial_rosenbrock", sp.stratum = "reused_strategy";
    sp.fscale = 100;
    sp.max_iter = std::min<unsigned long>(sp.max_iter, 25);
    V2 x0 = V2(1, 1) + 1.5 * V2(r.sym(), r.sym());
    rec   = run_case<Type::Analytic, true>(f, {x0}, sp, rec);
  }
}
#endif

#if C09_PART == 0 || C09_PART == 2
template<class G, int Dim, int Np, bool Dynamic>
static void gen_align(Rng & r, const char * name)
{
  Align<G, Dim, Np, Dynamic> f;
  const G gs       = rand_group<G>(r, 0.1 + 2.4 * r.uni());
  const bool noise = r.below(2);
  for (int i = 0; i < Np; ++i) {
    for (int k = 0; k < Dim; ++k) f.p[i](k) = 2 * r.sym();
    f.q[i] = gs * f.p[i];
    if (noise)
      for (int k = 0; k < Dim; ++k) f.q[i](k) += 1e-6 * r.sym();
  }
  f.planted = {gs};
  Spec sp;
  sp.id = next_id("al"), sp.fam = name;
  sp.fscale = 1;
  for (int i = 0; i < Np; ++i) sp.fscale += f.q[i].norm() + f.p[i].norm();
  draw_options(r, sp, true);
  const Pert pe = draw_pert(r, 0.5);
  sp.stratum    = pe.label;
  G x0          = perturb_group(r, gs, pe.mag);
  sp.check_conv = conv_domain(sp);
  run_modes_num(r, f, {x0}, sp);
}
template<class G>
static void gen_logres(Rng & r, const char * name)
{
  LogRes<G> f;
  f.gs      = rand_group<G>(r, 0.1 + 2.4 * r.uni());
  f.planted = {f.gs};
  Spec sp;
  sp.id = next_id("lg"), sp.fam = name;
  sp.fscale = 20;
  draw_options(r, sp, true);
  const Pert pe = draw_pert(r, 1.0);
  sp.stratum    = pe.label;
  G x0          = perturb_group(r, f.gs, pe.mag);
  sp.check_conv = conv_domain(sp);
  run_modes_jac(r, f, {x0}, sp);
}
static void gen_bundle(Rng & r)
{
  BunRes f;
  f.bs.part<0>() = rand_group<SO3d>(r, 2 * r.uni());
  f.bs.part<1>() = V3(r.sym(), r.sym(), r.sym()) * 3;
  for (int i = 0; i < 6; ++i) f.w(i) = r.logu(0.3, 3);
  f.planted = {f.bs};
  Spec sp;
  sp.id = next_id("bu"), sp.fam = "bundle_so3_r3";
  sp.fscale = 50;
  draw_options(r, sp, true);
  const Pert pe = draw_pert(r, 1.0);
  sp.stratum    = pe.label;
  Eigen::Matrix<double, 6, 1> a;
  for (int i = 0; i < 6; ++i) a(i) = r.sym();
  a *= pe.mag / std::max(1e-300, a.norm());
  Bun x0        = f.bs + a;
  sp.check_conv = conv_domain(sp);
  run_modes_num(r, f, {x0}, sp);
}
static void gen_mixed(Rng & r)
{
  Mixed f;
  f.g0 = rand_group<SO3d>(r, 2 * r.uni());
  f.vs = V3(r.sym(), r.sym(), r.sym());
  // (g + v) - g0 = 0 and v = vs  <=>  g = g0 * exp(vs)^-1
  f.planted = {f.g0 * SO3d::exp(f.vs).inverse(), VX(f.vs)};
  Spec sp;
  sp.id = next_id("mx"), sp.fam = "multi_argument_so3_vector";
  sp.fscale = 20;
  draw_options(r, sp, true);
  const Pert pe = draw_pert(r, 0.5);
  sp.stratum    = pe.label;
  SO3d g = perturb_group(r, std::get<0>(f.planted), pe.mag);
  VX v   = VX(f.vs) + pe.mag * rand_vec(r, 3);
  sp.check_conv = conv_domain(sp);
  run_modes_num(r, f, {g, v}, sp);
}
static void gen_two(Rng & r)
{
  TwoSO3 f;
  f.a1      = rand_group<SO3d>(r, 2 * r.uni());
  f.a2      = perturb_group(r, f.a1, 1.0 * r.uni());
  f.d12     = f.a1 - f.a2;
  f.planted = {f.a1, f.a2};
  Spec sp;
  sp.id = next_id("tw"), sp.fam = "multi_argument_so3_so3";
  sp.fscale = 20;
  draw_options(r, sp, true);
  const Pert pe = draw_pert(r, 0.5);
  sp.stratum    = pe.label;
  SO3d g1 = perturb_group(r, f.a1, pe.mag), g2 = perturb_group(r, f.a2, pe.mag);
  sp.check_conv = conv_domain(sp);
  run_modes_num(r, f, {g1, g2}, sp);
}
static void gen_sparse3(Rng & r)
{
  Sparse3 f;
  f.d23 = 0.5 * V3(r.sym(), r.sym(), r.sym());
  f.d31 = 0.5 * V3(r.sym(), r.sym(), r.sym());
  // g1 = I;  g1 - g3 = d31 => g3 = exp(d31)^-1;  g3 - g2 = d23 => g2 = g3 exp(d23)^-1
  const SO3d g1 = SO3d::Identity();
  const SO3d g3 = g1 * SO3d::exp(f.d31).inverse();
  const SO3d g2 = g3 * SO3d::exp(f.d23).inverse();
  f.planted     = {g1, g2, g3};
  Spec sp;
  sp.id = next_id("s3"), sp.fam = "multi_argument_sparse_jacobian";
  sp.fscale = 20;
  draw_options(r, sp, true);
  const Pert pe = draw_pert(r, 0.4);
  sp.stratum    = pe.label;
  SO3d a = perturb_group(r, g1, pe.mag), b = perturb_group(r, g2, pe.mag), c = perturb_group(r, g3, pe.mag);
  sp.check_conv = conv_domain(sp);
  switch (r.below(3)) {
  case 0: run_case<Type::Analytic, true>(f, {a, b, c}, sp); break;
  case 1: run_case<Type::Numerical, true>(f, {a, b, c}, sp); break;
  default: run_case<Type::Default, true>(f, {a, b, c}, sp); break;
  }
}
#endif

int main()
{
  const uint64_t seed = seed_from_env();
  Rng r(seed * 0x9e3779b97f4a7c15ULL + 0xC09 + C09_PART);
  const int scale = thorough() ? 40 : 4;
  rep.property    = "C09";
#if C09_PART == 0 || C09_PART == 1
  for (int i = 0; i < 60 * scale; ++i) gen_lin_static(r);
  for (int i = 0; i < 80 * scale; ++i) gen_lin_dynamic(r, false);
  for (int i = 0; i < 50 * scale; ++i) gen_lin_sparse(r);
  for (int i = 0; i < 80 * scale; ++i) gen_rosen(r);
  for (int i = 0; i < 60 * scale; ++i) gen_poly(r);
  for (int i = 0; i < 60 * scale; ++i) gen_curve(r);
  for (int i = 0; i < 120 * scale; ++i) gen_degenerate(r);
  for (int i = 0; i < 30 * scale; ++i) gen_reused(r);
#endif
#if C09_PART == 0 || C09_PART == 2
  for (int i = 0; i < 50 * scale; ++i) gen_align<SO3d, 3, 4, false>(r, "align_so3_points");
  for (int i = 0; i < 50 * scale; ++i) gen_align<SE2d, 2, 5, true>(r, "align_se2_points_dynamic");
  for (int i = 0; i < 50 * scale; ++i) gen_align<SE3d, 3, 4, false>(r, "align_se3_points");
  for (int i = 0; i < 50 * scale; ++i) gen_logres<SO3d>(r, "align_so3_log");
  for (int i = 0; i < 40 * scale; ++i) gen_logres<SE2d>(r, "align_se2_log");
  for (int i = 0; i < 40 * scale; ++i) gen_logres<SE3d>(r, "align_se3_log");
  for (int i = 0; i < 40 * scale; ++i) gen_bundle(r);
  for (int i = 0; i < 40 * scale; ++i) gen_mixed(r);
  for (int i = 0; i < 40 * scale; ++i) gen_two(r);
  for (int i = 0; i < 50 * scale; ++i) gen_sparse3(r);
#endif
  rep.maxerr["callback_cost_relative_increase"] = g_max_increase;
  rep.count["callback_cost_relative_increase"]  = rep.evaluations;
  rep.maxerr["final_vs_last_callback_drift"]    = g_max_drift;
  rep.count["final_vs_last_callback_drift"]     = g_drift_cases;
  rep.maxerr["distance_to_planted_minimiser"]   = g_max_dist;
  rep.count["distance_to_planted_minimiser"]    = g_conv_checked;
  rep.count["iterations"]                       = g_iters;
  rep.maxerr["iterations"]                      = 0;
  rep.count["rho_recomputed_bitwise"]           = g_rho_bitwise;
  rep.maxerr["rho_recomputed_bitwise"]          = 0;
  rep.print();
  return 0;
}
