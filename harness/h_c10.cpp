// C10 harness: the REAL solve_linear_ldlt / solve_trust_region / colwise_norm of /repo.
//
//  mode "prop" (default; prints the JSON Report): checks the property itself against a long-double oracle
//    that shares nothing with smooth (own loops for H, b, residuals; own long-double Cholesky for the
//    finite-difference reference of dphi):
//      normal_eq      backward error |H x - b| / (|H||x| + ||J|'|r||) <= 1e-8            (dense, sparse, static)
//                     -- this is also the run-time check of the Eigen LDLT / SimplicialLDLT contract
//      dense_sparse   |x_dense - x_sparse| <= 1e-6 |x| when cond(H) <= 1e8
//      dphi           vs Richardson-extrapolated central difference of |D dx(lambda)| in long double
//      descent        |J dx + r| <= |r| for solve_trust_region
//      lambda         returned lambda == 1/Delta, dx == solve_linear_ldlt(J,d,r,1/Delta)
//      minimiser      phi(dx) <= phi(dx + perturbation)
//      colwise        colwise_norm dense / sparse vs long double
//  mode "corr <casefile>": writes small dyadic-rational cases for the extracted exact model and prints the
//    implementation's results as canonical lines (hex floats).
// Eigen's index/structure assertions become exceptions: a library change that writes outside a sparse structure is then
// reported with the failing case instead of aborting the harness
#include <stdexcept>
#define eigen_assert(x)                                           \
  do {                                                            \
    if (!(x)) throw std::logic_error("eigen_assert failed: " #x); \
  } while (0)
#include <algorithm>
#include <cstring>
#include <fstream>
#include <functional>
#include <iostream>
#include <optional>

#include <Eigen/Dense>
#include <Eigen/Sparse>

#include <smooth/detail/math.hpp>
#include <smooth/optim/tr_solver.hpp>

#include "hcommon.hpp"

using namespace hv;
using MatL = Eigen::Matrix<ld, Eigen::Dynamic, Eigen::Dynamic>;
using VecL = Eigen::Matrix<ld, Eigen::Dynamic, 1>;
using MatD = Eigen::MatrixXd;
using VecD = Eigen::VectorXd;
using SpC  = Eigen::SparseMatrix<double>;
using SpR  = Eigen::SparseMatrix<double, Eigen::RowMajor>;

// ---------- oracle (long double, own loops) -------------------------------------------------------
static MatL H_of(const MatD & J, const VecD & d, ld lam)
{
  const int m = J.rows(), n = J.cols();
  MatL H(n, n);
  for (int k = 0; k < n; ++k)
    for (int j = 0; j < n; ++j) {
      ld s = 0;
      for (int i = 0; i < m; ++i) s += static_cast<ld>(J(i, k)) * static_cast<ld>(J(i, j));
      if (k == j) s += lam * static_cast<ld>(d(k)) * static_cast<ld>(d(k));
      H(k, j) = s;
    }
  return H;
}
static VecL b_of(const MatD & J, const VecD & r)
{
  const int m = J.rows(), n = J.cols();
  VecL b(n);
  for (int k = 0; k < n; ++k) {
    ld s = 0;
    for (int i = 0; i < m; ++i) s += static_cast<ld>(J(i, k)) * static_cast<ld>(r(i));
    b(k) = -s;
  }
  return b;
}
static ld ninf(const VecL & v)
{
  ld m = 0;
  for (int i = 0; i < v.size(); ++i) m = std::max(m, std::fabs(v(i)));
  return m;
}
static ld minf(const MatL & A)
{
  ld m = 0;
  for (int i = 0; i < A.rows(); ++i) {
    ld s = 0;
    for (int j = 0; j < A.cols(); ++j) s += std::fabs(A(i, j));
    m = std::max(m, s);
  }
  return m;
}
// Cholesky solve in long double (own code); returns false when a pivot is not positive
static bool chol_solve(MatL A, VecL b, VecL & x)
{
  const int n = A.rows();
  for (int j = 0; j < n; ++j) {
    ld s = A(j, j);
    for (int k = 0; k < j; ++k) s -= A(j, k) * A(j, k);
    if (!(s > 0)) return false;
    A(j, j) = std::sqrt(s);
    for (int i = j + 1; i < n; ++i) {
      ld t = A(i, j);
      for (int k = 0; k < j; ++k) t -= A(i, k) * A(j, k);
      A(i, j) = t / A(j, j);
    }
  }
  for (int i = 0; i < n; ++i) {
    ld t = b(i);
    for (int k = 0; k < i; ++k) t -= A(i, k) * b(k);
    b(i) = t / A(i, i);
  }
  for (int i = n - 1; i >= 0; --i) {
    ld t = b(i);
    for (int k = i + 1; k < n; ++k) t -= A(k, i) * b(k);
    b(i) = t / A(i, i);
  }
  x = b;
  return true;
}
static ld phiN(const MatD & J, const VecD & d, const VecD & r, ld lam, bool & ok)
{
  VecL x;
  ok = chol_solve(H_of(J, d, lam), b_of(J, r), x);
  if (!ok) return 0;
  ld s = 0;
  for (int j = 0; j < x.size(); ++j) s += (static_cast<ld>(d(j)) * x(j)) * (static_cast<ld>(d(j)) * x(j));
  return std::sqrt(s);
}
static ld res_norm(const MatD & J, const VecD & r, const VecL & x)
{
  ld s = 0;
  for (int i = 0; i < J.rows(); ++i) {
    ld t = r(i);
    for (int j = 0; j < J.cols(); ++j) t += static_cast<ld>(J(i, j)) * x(j);
    s += t * t;
  }
  return std::sqrt(s);
}
static ld phi_val(const MatD & J, const VecD & d, const VecD & r, ld lam, const VecL & x)
{
  ld a = res_norm(J, r, x), s = 0;
  for (int j = 0; j < x.size(); ++j) s += (static_cast<ld>(d(j)) * x(j)) * (static_cast<ld>(d(j)) * x(j));
  return a * a + lam * s;
}
static double cond_of(const MatL & H)
{
  Eigen::SelfAdjointEigenSolver<MatL> es(H, Eigen::EigenvaluesOnly);
  ld lo = es.eigenvalues()(0), hi = es.eigenvalues()(H.rows() - 1);
  if (!(lo > 0)) return 1e300;
  return static_cast<double>(hi / lo);
}

static SpC to_sparse(const MatD & J, bool keep_zeros)
{
  std::vector<Eigen::Triplet<double>> t;
  for (int i = 0; i < J.rows(); ++i)
    for (int j = 0; j < J.cols(); ++j)
      if (keep_zeros || J(i, j) != 0) t.emplace_back(i, j, J(i, j));
  SpC S(J.rows(), J.cols());
  S.setFromTriplets(t.begin(), t.end());
  S.makeCompressed();
  return S;
}

// ---------- generators --------------------------------------------------------------------------
struct Case
{
  MatD J;
  VecD d, r;
  double lam;
  std::string sJ, sd, sr, sl, sshape;
};

static int gen_dim(Rng & g)
{
  switch (g.below(4)) {
  case 0: return 1 + g.below(3);
  case 1: return 4 + g.below(5);
  case 2: return 9 + g.below(12);
  default: return 21 + g.below(20);
  }
}

static Case gen_case(Rng & g)
{
  Case c;
  int m = gen_dim(g), n = gen_dim(g);
  if (g.below(6) == 0) n = m;
  c.sshape   = m < n ? "wide" : (m == n ? "square" : "tall");
  MatD & J   = c.J;
  J          = MatD::Zero(m, n);
  auto randm = [&](int a, int b) {
    MatD M(a, b);
    for (int i = 0; i < a; ++i)
      for (int j = 0; j < b; ++j) M(i, j) = g.sym() * 2;
    return M;
  };
  switch (g.below(8)) {
  case 0:
  case 1: c.sJ = "full"; J = randm(m, n); break;
  case 2: {
    c.sJ  = "rankdef";
    int k = std::max(1, std::min(m, n) - 1 - g.below(std::min(m, n)));
    k     = std::min(k, std::max(1, std::min(m, n) - 1));
    J     = randm(m, k) * randm(k, n);
    break;
  }
  case 3: c.sJ = "zero"; break;
  case 4: {
    c.sJ = "zerocol";
    J    = randm(m, n);
    for (int j = 0; j < n; ++j)
      if (g.below(3) == 0) J.col(j).setZero();
    break;
  }
  case 5: {
    c.sJ = "dupcol";
    J    = randm(m, n);
    for (int j = 1; j < n; ++j)
      if (g.below(3) == 0) J.col(j) = J.col(g.below(j)) * (g.below(2) ? 1.0 : -2.0);
    break;
  }
  case 6: {
    c.sJ       = "sparse";
    double den = 0.05 + 0.3 * g.uni();
    for (int i = 0; i < m; ++i)
      for (int j = 0; j < n; ++j)
        if (g.uni() < den) J(i, j) = g.sym() * 3;
    break;
  }
  default: {
    c.sJ = "colscaled";
    J    = randm(m, n);
    for (int j = 0; j < n; ++j) J.col(j) *= g.logu(1e-3, 1e3);
    break;
  }
  }
  c.d.resize(n);
  switch (g.below(4)) {
  case 0:
    c.sd = "ones";
    c.d.setOnes();
    break;
  case 1:
    c.sd = "moderate";
    for (int j = 0; j < n; ++j) c.d(j) = g.logu(0.1, 10);
    break;
  case 2:
    c.sd = "wide";
    for (int j = 0; j < n; ++j) c.d(j) = g.logu(1e-3, 1e3);
    break;
  default: {
    // what minimize() passes: clamped column norms (optim.hpp:91-92)
    c.sd = "colnorm";
    for (int j = 0; j < n; ++j) c.d(j) = std::clamp(J.col(j).norm(), 1e-6, 1e32);
    break;
  }
  }
  c.r.resize(m);
  switch (g.below(6)) {
  case 0:
    c.sr = "zero";
    c.r.setZero();
    break;
  case 1: {
    // r orthogonal to range(J): J'r = 0 up to rounding, dx ~ 0
    c.sr = "kernel";
    for (int i = 0; i < m; ++i) c.r(i) = g.sym();
    if (m > 0 && J.norm() > 0) {
      Eigen::HouseholderQR<MatD> qr(J);
      MatD Q    = qr.householderQ();
      int rk    = std::min(m, n);
      VecD proj = Q.leftCols(rk) * (Q.leftCols(rk).transpose() * c.r);
      c.r -= proj;
    }
    break;
  }
  case 2:
    c.sr = "large";
    for (int i = 0; i < m; ++i) c.r(i) = g.sym() * 1e3;
    break;
  default:
    c.sr = "generic";
    for (int i = 0; i < m; ++i) c.r(i) = g.sym() * 3;
    break;
  }
  switch (g.below(6)) {
  case 0: c.sl = "lam_min"; c.lam = 1e-6; break;
  case 1: c.sl = "lam_max"; c.lam = 1e6; break;
  case 2: c.sl = "lam_one"; c.lam = 1; break;
  default: c.sl = "lam_logu"; c.lam = g.logu(1e-6, 1e6); break;
  }
  return c;
}

// JSON has no nan/inf: non-finite numbers are written as strings
static std::string jnum(double v)
{
  if (std::isnan(v)) return "\"nan\"";
  if (std::isinf(v)) return v > 0 ? "\"inf\"" : "\"-inf\"";
  std::ostringstream os;
  os.precision(17);
  os << v;
  return os.str();
}
static std::string jvecs(const VecD & v)
{
  std::string s = "[";
  for (int i = 0; i < v.size(); ++i) s += (i ? "," : "") + jnum(v(i));
  return s + "]";
}

static std::string jmat(const MatD & J)
{
  std::ostringstream os;
  os.precision(17);
  os << "[";
  for (int i = 0; i < J.rows(); ++i) {
    os << (i ? "," : "") << "[";
    for (int j = 0; j < J.cols(); ++j) os << (j ? "," : "") << J(i, j);
    os << "]";
  }
  os << "]";
  return os.str();
}

static std::string describe(const Case & c, long idx)
{
  std::ostringstream os;
  os.precision(17);
  os << "\"case\":" << idx << ",\"m\":" << c.J.rows() << ",\"n\":" << c.J.cols() << ",\"Jkind\":\"" << c.sJ
     << "\",\"dkind\":\"" << c.sd << "\",\"rkind\":\"" << c.sr << "\",\"lambda\":" << c.lam;
  if (c.J.size() <= 36) os << ",\"J\":" << jmat(c.J) << ",\"d\":" << jvec(c.d) << ",\"r\":" << jvec(c.r);
  return os.str();
}

// static-size instantiations (configuration coverage: ColsAtCompileTime fixed)
template<int M, int N>
static VecD run_static(const MatD & J, const VecD & d, const VecD & r, double lam, double & dphi)
{
  Eigen::Matrix<double, M, N> Js = J;
  Eigen::Matrix<double, N, 1> ds = d;
  Eigen::Matrix<double, M, 1> rs = r;
  Eigen::Matrix<double, N, 1> x  = smooth::solve_linear_ldlt(Js, ds, rs, lam, dphi);
  return x;
}

static int prop_mode()
{
  Rng g(seed_from_env() * 7919 + 10);
  Report rep;
  rep.property = "C10";
  const long N = thorough() ? 30000 : 3000;
  for (long idx = 0; idx < N; ++idx) {
    Case c      = gen_case(g);
    try {
    const int m = c.J.rows(), n = c.J.cols();
    ++rep.evaluations;
    ++rep.strata["J." + c.sJ];
    ++rep.strata["d." + c.sd];
    ++rep.strata["r." + c.sr];
    ++rep.strata[c.sl];
    ++rep.strata["shape." + c.sshape];
    ++rep.strata[std::string("dim.") + (std::max(m, n) <= 3 ? "1-3" : std::max(m, n) <= 8 ? "4-8" : std::max(m, n) <= 20 ? "9-20" : "21-40")];

    const MatL H   = H_of(c.J, c.d, c.lam);
    const VecL b   = b_of(c.J, c.r);
    const double K = cond_of(H);
    ++rep.strata[K <= 1e4 ? "cond.<=1e4" : K <= 1e8 ? "cond.1e4-1e8" : K <= 1e12 ? "cond.1e8-1e12" : "cond.>1e12"];
    const ld Hn = minf(H), bn = ninf(b);
    // scale of the right-hand side as data: | |J|' |r| |_inf  (b = -J'r is formed in floating point, so its
    // rounding error is relative to this, not to |b|, which cancels to ~0 when r is orthogonal to range(J))
    ld bs = 0;
    for (int k = 0; k < n; ++k) {
      ld s = 0;
      for (int i = 0; i < m; ++i) s += std::fabs(static_cast<ld>(c.J(i, k)) * static_cast<ld>(c.r(i)));
      bs = std::max(bs, s);
    }

    auto fail = [&](const char * check, const char * variant, double err, double tol) {
      std::ostringstream os;
      os.precision(17);
      os << "{\"check\":\"" << check << "\",\"variant\":\"" << variant << "\",\"err\":" << jnum(err) << ",\"tol\":" << tol
         << ",\"cond\":" << jnum(K) << "," << describe(c, idx) << "}";
      // kept per check.variant: the first two plus the smallest and the largest failing input (magnitude = m*n;
      // inputs with m*n <= 36 are written out in full)
      rep.fail(os.str(), std::string(check) + "." + variant, static_cast<double>(c.J.size()));
    };
    auto backward = [&](const VecD & x, const char * variant) {
      VecL xl = x.cast<ld>();
      bool fin = x.allFinite();
      ld den  = Hn * ninf(xl) + bs;
      double e = !fin ? 1e300 : (den > 0 ? static_cast<double>(ninf(H * xl - b) / den) : 0.0);
      rep.tally(std::string("normal_eq.") + variant, e);
      if (!(e <= 1e-8)) fail("normal_eq", variant, e, 1e-8);
    };

    // ---- solve_linear_ldlt dense / sparse (col-major, row-major, with explicit zeros)
    double dphi_d = 0, dphi_s = 0, dphi_r = 0;
    const SpC Js  = to_sparse(c.J, g.below(4) == 0);
    const SpR Jr  = Js;
    const VecD xd = smooth::solve_linear_ldlt(c.J, c.d, c.r, c.lam, dphi_d);
    const VecD xs = smooth::solve_linear_ldlt(Js, c.d, c.r, c.lam, dphi_s);
    const VecD xr = smooth::solve_linear_ldlt(Jr, c.d, c.r, c.lam, dphi_r);
    const VecD xd_nodphi = smooth::solve_linear_ldlt(c.J, c.d, c.r, c.lam);
    backward(xd, "dense");
    backward(xs, "sparse");
    backward(xr, "sparse_rowmajor");
    {
      double e = (xd - xd_nodphi).cwiseAbs().maxCoeff();
      rep.tally("dphi_arg_does_not_change_x", e);
      if (!(e == 0)) fail("dphi_arg_does_not_change_x", "dense", e, 0);
    }
    // static sizes
    {
      double dp = 0;
      std::optional<VecD> xst;
      if (m == 3 && n == 2) xst = run_static<3, 2>(c.J, c.d, c.r, c.lam, dp);
      if (m == 2 && n == 3) xst = run_static<2, 3>(c.J, c.d, c.r, c.lam, dp);
      if (m == 1 && n == 1) xst = run_static<1, 1>(c.J, c.d, c.r, c.lam, dp);
      if (m == 2 && n == 2) xst = run_static<2, 2>(c.J, c.d, c.r, c.lam, dp);
      if (m == 3 && n == 3) xst = run_static<3, 3>(c.J, c.d, c.r, c.lam, dp);
      if (m == 6 && n == 3) xst = run_static<6, 3>(c.J, c.d, c.r, c.lam, dp);
      if (m == 4 && n == 6) xst = run_static<4, 6>(c.J, c.d, c.r, c.lam, dp);
      if (xst) {
        ++rep.strata["static_size"];
        backward(*xst, "static");
      }
    }
    // ---- dense / sparse agreement
    if (K <= 1e8) {
      // scale: |x| plus the noise floor of x caused by forming b = -J'r in binary64 (10 ulp of the data scale
      // |J|'|r| amplified by |H^-1| = cond/|H|); without it the comparison is meaningless when r is orthogonal
      // to range(J) and x itself is rounding noise
      double floor_ = static_cast<double>(K / std::max<ld>(Hn, 1e-300L) * bs) * 1e-9;
      double sc = std::max(xd.cwiseAbs().maxCoeff(), xs.cwiseAbs().maxCoeff()) + floor_;
      double e  = sc > 0 ? std::max((xd - xs).cwiseAbs().maxCoeff(), (xd - xr).cwiseAbs().maxCoeff()) / sc : 0.0;
      if (!xd.allFinite() || !xs.allFinite() || !xr.allFinite()) e = 1e300;
      rep.tally("dense_sparse", e);
      if (!(e <= 1e-6)) fail("dense_sparse", "x", e, 1e-6);
    }
    // ---- dphi against a finite difference of |D dx(lambda)| (long double, Richardson)
    {
      bool ok1, ok2, ok3, ok4, ok0;
      const ld lam = c.lam, h = lam * 1e-3L;
      ld p0 = phiN(c.J, c.d, c.r, lam, ok0);
      ld D1 = (phiN(c.J, c.d, c.r, lam + h, ok1) - phiN(c.J, c.d, c.r, lam - h, ok2)) / (2 * h);
      ld D2 = (phiN(c.J, c.d, c.r, lam + h / 2, ok3) - phiN(c.J, c.d, c.r, lam - h / 2, ok4)) / h;
      ld ref = (4 * D2 - D1) / 3;
      // natural scale of the derivative: |phi'| <= phi / lambda
      ld scale = p0 / lam;
      // r in the kernel of J' up to rounding: phi is rounding noise and so is any derivative of it
      const bool noise = static_cast<double>(bn) <= 1e-13 * static_cast<double>(minf(c.J.cast<ld>().transpose())) * c.r.cwiseAbs().maxCoeff();
      if (ok0 && ok1 && ok2 && ok3 && ok4 && K <= 1e8 && !noise) {
        for (auto [val, variant] : {std::pair{dphi_d, "dense"}, std::pair{dphi_s, "sparse"}, std::pair{dphi_r, "sparse_rowmajor"}}) {
          double e = scale > 0 ? static_cast<double>(std::fabs(val - ref) / scale) : std::fabs(val);
          if (!std::isfinite(val)) e = 1e300;
          rep.tally(std::string("dphi.") + variant, e);
          if (!(e <= 1e-6)) fail("dphi", variant, e, 1e-6);
          // sign: phi is non-increasing in lambda
          if (!(val <= 0)) fail("dphi_sign", variant, val, 0);
        }
      } else {
        ++rep.strata["dphi_skipped(cond>1e8 or J'r~0)"];
        if (bn == 0) {
          // exact zero right-hand side: dx = 0 and the code must return dphi = 0 (normalized() of a zero vector)
          rep.tally("dphi.zero_rhs", std::fabs(dphi_d) + std::fabs(dphi_s));
          if (!(dphi_d == 0 && dphi_s == 0)) fail("dphi", "zero_rhs", std::fabs(dphi_d) + std::fabs(dphi_s), 0);
        }
      }
    }
    // ---- solve_trust_region: lambda = 1/Delta, same dx, descent, minimiser
    {
      const double Delta = 1.0 / c.lam;  // Delta over 1e-6..1e6 as lambda is
      auto [dxd, lamd] = smooth::solve_trust_region(c.J, c.d, c.r, Delta);
      auto [dxs, lams] = smooth::solve_trust_region(Js, c.d, c.r, Delta);
      const double want = 1.0 / Delta;
      rep.tally("lambda", std::fabs(lamd - want) + std::fabs(lams - want));
      if (!(lamd == want && lams == want)) fail("lambda", "dense/sparse", std::fabs(lamd - want) + std::fabs(lams - want), 0);
      const VecD xref = smooth::solve_linear_ldlt(c.J, c.d, c.r, want);
      const VecD xrefs = smooth::solve_linear_ldlt(Js, c.d, c.r, want);
      double e = (VecD(dxd) - xref).cwiseAbs().maxCoeff() + (VecD(dxs) - xrefs).cwiseAbs().maxCoeff();
      rep.tally("tr_is_ldlt_at_1_over_Delta", e);
      if (!(e == 0)) fail("tr_is_ldlt_at_1_over_Delta", "dense/sparse", e, 0);
      // the pair is the minimiser for lambda = 1/Delta: backward error with H(1/Delta)
      {
        const MatL H2 = H_of(c.J, c.d, want);
        for (auto [xp, variant] : {std::pair{VecD(dxd), "tr_dense"}, std::pair{VecD(dxs), "tr_sparse"}}) {
          VecL xl = xp.cast<ld>();
          ld den  = minf(H2) * ninf(xl) + bs;
          double be = !xp.allFinite() ? 1e300 : (den > 0 ? static_cast<double>(ninf(H2 * xl - b) / den) : 0.0);
          rep.tally(std::string("normal_eq.") + variant, be);
          if (!(be <= 1e-8)) fail("normal_eq", variant, be, 1e-8);
        }
      }
      const ld rn = res_norm(c.J, c.r, VecL::Zero(n));
      for (auto [xp, variant] : {std::pair{VecD(dxd), "dense"}, std::pair{VecD(dxs), "sparse"}}) {
        const VecL xl = xp.cast<ld>();
        ld a     = res_norm(c.J, c.r, xl);
        double ex = rn > 0 ? static_cast<double>((a - rn) / rn) : static_cast<double>(a);
        rep.tally(std::string("descent.") + variant, std::max(ex, 0.0));
        // rounding allowance: the computed dx has backward error ~1e-15, so |J dx + r| can exceed |r| by a few ulp
        if (!(ex <= 1e-12)) fail("descent", variant, ex, 1e-12);
        // direct minimiser check: phi(dx) <= phi(dx + p) for random perturbations p
        const ld p0 = phi_val(c.J, c.d, c.r, want, xl);
        for (int t = 0; t < 3; ++t) {
          VecL y = xl;
          ld sc  = std::max<ld>(ninf(xl), 1e-3L) * (t == 0 ? 1e-1L : t == 1 ? 1e-3L : 1.0L);
          for (int j = 0; j < n; ++j) y(j) += sc * g.sym();
          const ld py = phi_val(c.J, c.d, c.r, want, y);
          double em   = static_cast<double>((p0 - py) / std::max<ld>(p0, 1e-300L));
          rep.tally(std::string("minimiser.") + variant, std::max(em, 0.0));
          if (!(em <= 1e-10)) fail("minimiser", variant, em, 1e-10);
        }
      }
    }
    // ---- colwise_norm
    {
      const VecD cd = smooth::colwise_norm(c.J);
      const VecD cs = smooth::colwise_norm(Js);
      const VecD cr = smooth::colwise_norm(Jr);
      double e = 0;
      for (int j = 0; j < n; ++j) {
        ld s = 0;
        for (int i = 0; i < m; ++i) s += static_cast<ld>(c.J(i, j)) * static_cast<ld>(c.J(i, j));
        ld want = std::sqrt(s);
        for (double v : {cd(j), cs(j), cr(j)}) {
          double ee = want > 0 ? static_cast<double>(std::fabs(v - want) / want) : std::fabs(v);
          e = std::max(e, ee);
        }
      }
      if (cd.size() != n || cs.size() != n || cr.size() != n) e = 1e300;
      rep.tally("colwise_norm", e);
      if (!(e <= 1e-13)) fail("colwise_norm", "dense/sparse", e, 1e-13);
    }
    if (idx < 3 || (idx % 997 == 0)) {
      std::ostringstream os;
      os.precision(17);
      os << "{" << describe(c, idx) << ",\"cond\":" << jnum(K) << ",\"dx_dense\":" << (n <= 8 ? jvecs(xd) : std::string("\"(n>8)\""))
         << ",\"dphi_dense\":" << jnum(dphi_d) << ",\"dphi_sparse\":" << jnum(dphi_s) << "}";
      rep.sample(os.str());
    }
    } catch (const std::exception & ex) {
      std::string w = ex.what();
      for (auto & ch : w)
        if (ch == '"' || ch == '\\') ch = '\'';
      std::ostringstream os;
      os << "{\"check\":\"crash\",\"variant\":\"exception\",\"what\":\"" << w.substr(0, 200) << "\"," << describe(c, idx) << "}";
      rep.fail(os.str(), "crash.exception", static_cast<double>(c.J.size()));
    }
  }
  rep.print();
  return 0;
}

// ---------- correspondence mode ----------------------------------------------------------------
struct Dy
{
  long num, den;  // den = 2^k
  double val() const { return static_cast<double>(num) / static_cast<double>(den); }
};
static Dy gen_dy(Rng & g, int maxnum, int maxshift)
{
  long den = 1L << g.below(maxshift + 1);
  long num = g.below(2 * maxnum + 1) - maxnum;
  return {num, den};
}
static Dy gen_dy_pos(Rng & g, int maxnum, int maxshift)
{
  long den = 1L << g.below(maxshift + 1);
  long num = 1 + g.below(maxnum);
  return {num, den};
}

static void put_hex(const char * tag, const VecD & v)
{
  std::printf(" %s %d", tag, static_cast<int>(v.size()));
  for (int i = 0; i < v.size(); ++i) std::printf(" %a", v(i));
}

static int corr_mode(const char * casefile)
{
  Rng g(seed_from_env() * 104729 + 10);
  const long N = thorough() ? 4000 : 400;
  const int maxdim = thorough() ? 10 : 8;
  std::ofstream cf(casefile);
  for (long idx = 0; idx < N; ++idx) {
    int m = 1 + g.below(maxdim), n = 1 + g.below(maxdim);
    if (g.below(5) == 0) n = m;
    std::vector<Dy> Jd(m * n), dd(n), rd(m);
    std::string kind;
    switch (g.below(6)) {
    case 0: kind = "zero"; for (auto & e : Jd) e = {0, 1}; break;
    case 1: {
      kind = "dupcol";
      for (auto & e : Jd) e = gen_dy(g, 8, 2);
      for (int j = 1; j < n; ++j)
        if (g.below(2) == 0) {
          int src = g.below(j);
          for (int i = 0; i < m; ++i) Jd[i * n + j] = Jd[i * n + src];
        }
      break;
    }
    case 2: {
      kind = "zerocol";
      for (auto & e : Jd) e = gen_dy(g, 8, 2);
      for (int j = 0; j < n; ++j)
        if (g.below(3) == 0)
          for (int i = 0; i < m; ++i) Jd[i * n + j] = {0, 1};
      break;
    }
    case 3: {
      kind = "sparse";
      for (auto & e : Jd) e = g.below(4) == 0 ? gen_dy(g, 8, 2) : Dy{0, 1};
      break;
    }
    default: kind = "full"; for (auto & e : Jd) e = gen_dy(g, 8, 2); break;
    }
    for (auto & e : dd) e = gen_dy_pos(g, 8, 2);
    for (auto & e : rd) e = gen_dy(g, 16, 2);
    const char mode = "LLTC"[g.below(4)];
    Dy lam;
    std::string lk;
    if (g.below(3) == 0) {
      // powers of two over the whole range 2^-20 .. 2^20 (1e-6 .. 1e6)
      int e = g.below(41) - 20;
      lam   = e >= 0 ? Dy{1L << e, 1} : Dy{1, 1L << (-e)};
      lk    = "pow2_wide";
    } else {
      lam = gen_dy_pos(g, 12, 3);
      lk  = "small_dyadic";
    }
    MatD J(m, n);
    VecD d(n), r(m);
    for (int i = 0; i < m; ++i)
      for (int j = 0; j < n; ++j) J(i, j) = Jd[i * n + j].val();
    for (int j = 0; j < n; ++j) d(j) = dd[j].val();
    for (int i = 0; i < m; ++i) r(i) = rd[i].val();

    // case line for the model: mode m n  J(row-major)  d  r  lam|Delta   (each number: num den)
    cf << mode << " " << m << " " << n;
    for (auto & e : Jd) cf << " " << e.num << " " << e.den;
    for (auto & e : dd) cf << " " << e.num << " " << e.den;
    for (auto & e : rd) cf << " " << e.num << " " << e.den;
    cf << " " << lam.num << " " << lam.den << "\n";

    std::printf("%c %ld %d %d %s %s", mode, idx, m, n, kind.c_str(), lk.c_str());
    const SpC Js = to_sparse(J, false);
    if (mode == 'L') {
      const double K = cond_of(H_of(J, d, lam.val()));
      double dpd = 0, dps = 0;
      VecD xd = smooth::solve_linear_ldlt(J, d, r, lam.val(), dpd);
      VecD xs = smooth::solve_linear_ldlt(Js, d, r, lam.val(), dps);
      std::printf(" cond %a", K);
      put_hex("xd", xd);
      put_hex("xs", xs);
      std::printf(" dphi %a %a", dpd, dps);
    } else if (mode == 'T') {
      // here the last number is Delta
      const double Delta = lam.val();
      const double K     = cond_of(H_of(J, d, 1.0L / static_cast<ld>(Delta)));
      auto [xd, l1] = smooth::solve_trust_region(J, d, r, Delta);
      auto [xs, l2] = smooth::solve_trust_region(Js, d, r, Delta);
      std::printf(" cond %a", K);
      put_hex("xd", VecD(xd));
      put_hex("xs", VecD(xs));
      std::printf(" lambda %a %a", l1, l2);
    } else {
      put_hex("cd", smooth::colwise_norm(J));
      put_hex("cs", smooth::colwise_norm(Js));
    }
    std::printf("\n");
  }
  return 0;
}

int main(int argc, char ** argv)
{
  if (argc >= 3 && std::strcmp(argv[1], "corr") == 0) return corr_mode(argv[2]);
  return prop_mode();
}
