#define HV_EIGEN_ASSERT_THROWS
// C11 numeric harness: cspline_eval_vs / _gs and their derivative / Jacobian outputs on the real library against an
// independent long-double oracle: g(u) = prod_j expm(B~_j(u) hat(v_j)) with the documented hat matrices; body velocity
// vee(g^-1 g'), acceleration and jerk by Richardson-extrapolated central differences; Jacobians w.r.t. the control
// differences / control points by Richardson differences of the oracle.
#include "docmat.hpp"
#include <smooth/spline/cumulative_spline.hpp>
#include <smooth/polynomial/basis.hpp>
using namespace hv;
static Report * REP;

template<int K>
Eigen::Matrix<double, K + 1, K + 1> basis(bool bspline)
{
  Eigen::Matrix<double, K + 1, K + 1> M;
  const auto bs = smooth::polynomial_cumulative_basis<smooth::PolynomialBasis::Bspline, K, double>();
  const auto be = smooth::polynomial_cumulative_basis<smooth::PolynomialBasis::Bernstein, K, double>();
  for (int i = 0; i <= K; ++i)
    for (int j = 0; j <= K; ++j) M(i, j) = bspline ? bs[static_cast<size_t>(i)][static_cast<size_t>(j)] : be[static_cast<size_t>(i)][static_cast<size_t>(j)];
  return M;
}

template<typename G, int K>
struct Oracle
{
  using D = Doc<G>;
  std::array<VecX, K> vs;
  Eigen::Matrix<ld, K + 1, K + 1> B;
  ld bt(int j, ld u) const
  {
    ld s = 0, p = 1;
    for (int r = 0; r <= K; ++r) {
      s += p * B(r, j);
      p *= u;
    }
    return s;
  }
  MatX g(ld u) const
  {
    MatX M = MatX::Identity(G::Dim, G::Dim);
    for (int j = 1; j <= K; ++j) M = M * expm(D::hat(VecX(bt(j, u) * vs[static_cast<size_t>(j - 1)])));
    return M;
  }
  template<typename F>
  static auto rich(F f, ld u, ld h)
  {
    auto cd = [&](ld hh) { return decltype(f(u))((f(u + hh) - f(u - hh)) / (2 * hh)); };
    auto d1 = cd(h), d2 = cd(h / 2), d3 = cd(h / 4);
    auto r1 = decltype(d1)((4 * d2 - d1) / 3), r2 = decltype(d1)((4 * d3 - d2) / 3);
    return decltype(d1)((16 * r2 - r1) / 15);
  }
  VecX vel(ld u) const
  {
    MatX dg = rich([&](ld x) { return g(x); }, u, 1e-3L);
    return D::vee(g(u).inverse() * dg);
  }
  VecX acc(ld u) const { return rich([&](ld x) { return vel(x); }, u, 2e-3L); }
  VecX jer(ld u) const { return rich([&](ld x) { return acc(x); }, u, 4e-3L); }
};

template<typename G, int K>
void run(Rng & rng, int n, const char * gname)
{
  using D = Doc<G>;
  constexpr int Dof = G::Dof;
  for (int c = 0; c < n; ++c) {
    const bool bsp = rng.below(2);
    Oracle<G, K> o;
    auto Bd = basis<K>(bsp);
    for (int i = 0; i <= K; ++i)
      for (int j = 0; j <= K; ++j) o.B(i, j) = Bd(i, j);
    std::vector<typename G::Tangent> vs;
    std::string strat = "generic";
    for (int j = 0; j < K; ++j) {
      typename G::Tangent v;
      int kind = rng.below(5);
      for (int i = 0; i < Dof; ++i) v(i) = rng.sym() * (i < Dof - D::rot_k ? 2.0 : 1.0);
      if (kind == 0) { v.setZero(); strat = "zero_diff"; }
      if (kind == 1) { v *= 1e-5; strat = "tiny_diff"; }
      vs.push_back(v);
      o.vs[static_cast<size_t>(j)] = to_ld(v);
    }
    double u = 0;
    switch (rng.below(5)) {
    case 0: u = 0; break;
    case 1: u = 1; break;
    case 2: u = std::ldexp(1.0, -(1 + rng.below(10))); break;
    default: u = rng.uni();
    }
    ++REP->evaluations;
    ++REP->strata[std::string(gname) + ":K" + std::to_string(K) + ":" + strat];
    typename G::Tangent vel, acc, jer;
    // NaN pre-fill: an output the library leaves unwritten is then visible
    vel.setConstant(std::numeric_limits<typename G::Scalar>::quiet_NaN());
    acc = vel;
    jer = vel;
    G g = smooth::cspline_eval_vs<K, G>(vs, Bd, u, vel, acc, jer);
    // finite-difference oracle needs interior points: use one-sided-safe u in [0,1]; the oracle is polynomial in u so
    // evaluating slightly outside [0,1] is fine
    auto chk = [&](const char * what, const MatX & got, const MatX & want, double tol) {
      double e = static_cast<double>(maxabs(got - want) / std::max<ld>(1, maxabs(want)));
      REP->tally(std::string(gname) + "." + what, e);
      if (!(e <= tol)) {
        std::ostringstream os;
        os.precision(17);
        os << "{\"group\":\"" << gname << "\",\"K\":" << K << ",\"check\":\"" << what << "\",\"err\":" << e << ",\"tol\":" << tol
           << ",\"u\":" << u << ",\"bspline\":" << bsp << ",\"stratum\":\"" << strat << "\"}";
        REP->fail(os.str(), std::string(gname) + "." + what, e);
      }
    };
    chk("value", D::mat(to_ld(g.coeffs())), o.g(u), 1e-9);
    chk("vel", to_ld(vel), o.vel(u), 1e-7);
    chk("acc", to_ld(acc), o.acc(u), 1e-6);
    chk("jer", to_ld(jer), o.jer(u), 1e-4);
    // cspline_eval_gs: same curve anchored at g0 with v_i = g_i (-) g_(i-1)
    {
      std::vector<G> gs;
      G g0 = gen_elem<G>(rng, nullptr, 5.0);
      gs.push_back(g0);
      for (int j = 0; j < K; ++j) gs.push_back(gs.back() + vs[static_cast<size_t>(j)]);
      typename G::Tangent v2, a2, j2;
      G gg = smooth::cspline_eval_gs<K>(gs, Bd, u, v2, a2, j2);
      MatX want = D::mat(to_ld(g0.coeffs())) * o.g(u);
      bool inside = true;
      for (int j = 0; j < K; ++j) {
        ld rn = 0;
        for (int i = 0; i < D::rot_k; ++i) rn += o.vs[static_cast<size_t>(j)](Dof - D::rot_k + i) * o.vs[static_cast<size_t>(j)](Dof - D::rot_k + i);
        if (std::sqrt(rn) > 3.0L) inside = false;
      }
      if (inside) {
        chk("gs_value", D::mat(to_ld(gg.coeffs())), want, 1e-8);
        chk("gs_vel", to_ld(v2), o.vel(u), 1e-7);
        chk("gs_acc", to_ld(a2), o.acc(u), 1e-6);
      }
    }
    // Jacobians w.r.t. the differences: column block j of dg_dvs is the right-Jacobian of g w.r.t. v_j:
    //   vee( g^-1 dg/dv_j[k] )
    if (K <= 3 && rng.below(3) == 0) {
      smooth::SplineJacobian<G, K - 1> dvel, dacc;
      auto dg = smooth::cspline_eval_dg_dvs<K, G>(vs, Bd, u, dvel, dacc);
      MatX want(Dof, Dof * K), wantv(Dof, Dof * K), wanta(Dof, Dof * K);
      MatX gi = o.g(u).inverse();
      for (int j = 0; j < K; ++j)
        for (int k = 0; k < Dof; ++k) {
          auto pert = [&](ld h) {
            Oracle<G, K> p = o;
            p.vs[static_cast<size_t>(j)](k) += h;
            return p;
          };
          auto cdm = [&](auto f) {
            auto cd = [&](ld h) { return decltype(f(o))((f(pert(h)) - f(pert(-h))) / (2 * h)); };
            auto d1 = cd(1e-3L), d2 = cd(5e-4L);
            return decltype(d1)((4 * d2 - d1) / 3);
          };
          want.col(Dof * j + k)  = D::vee(gi * cdm([&](const Oracle<G, K> & q) { return q.g(u); }));
          wantv.col(Dof * j + k) = cdm([&](const Oracle<G, K> & q) { return q.vel(u); });
          wanta.col(Dof * j + k) = cdm([&](const Oracle<G, K> & q) { return q.acc(u); });
        }
      chk("dg_dvs", mto_ld(dg), want, 1e-6);
      chk("dvel_dvs", mto_ld(dvel), wantv, 1e-5);
      chk("dacc_dvs", mto_ld(dacc), wanta, 1e-4);
    }
    // Jacobian w.r.t. the control points: central differences of the (independently checked) value / velocity outputs
    if (K <= 3 && rng.below(3) == 0) {
      std::vector<G> gs;
      gs.push_back(gen_elem<G>(rng, nullptr, 5.0));
      for (int j = 0; j < K; ++j) gs.push_back(gs.back() + vs[static_cast<size_t>(j)]);
      smooth::SplineJacobian<G, K> dvel, dacc;
      auto dg = smooth::cspline_eval_dg_dgs<K>(gs, Bd, u, dvel, dacc);
      MatX want(Dof, Dof * (K + 1)), wantv(Dof, Dof * (K + 1));
      typename G::Tangent v0;
      G gc   = smooth::cspline_eval_gs<K>(gs, Bd, u, v0);
      MatX gi = D::mat(to_ld(gc.coeffs())).inverse();
      const double h = 1e-5;
      for (int j = 0; j <= K; ++j)
        for (int k = 0; k < Dof; ++k) {
          typename G::Tangent e = G::Tangent::Zero();
          e(k)                  = h;
          auto gp = gs, gm = gs;
          gp[static_cast<size_t>(j)] = gs[static_cast<size_t>(j)] + e;
          gm[static_cast<size_t>(j)] = gs[static_cast<size_t>(j)] + typename G::Tangent(-e);
          typename G::Tangent vp, vm;
          G a1 = smooth::cspline_eval_gs<K>(gp, Bd, u, vp), a2 = smooth::cspline_eval_gs<K>(gm, Bd, u, vm);
          MatX dM = (D::mat(to_ld(a1.coeffs())) - D::mat(to_ld(a2.coeffs()))) / (2 * static_cast<ld>(h));
          want.col(Dof * j + k)  = D::vee(gi * dM);
          wantv.col(Dof * j + k) = (to_ld(vp) - to_ld(vm)) / (2 * static_cast<ld>(h));
        }
      bool inside = true;
      for (int j = 0; j < K; ++j) {
        ld rn = 0;
        for (int i = 0; i < D::rot_k; ++i) rn += o.vs[static_cast<size_t>(j)](Dof - D::rot_k + i) * o.vs[static_cast<size_t>(j)](Dof - D::rot_k + i);
        if (std::sqrt(rn) > 2.5L) inside = false;
      }
      if (inside) {
        chk("dg_dgs", mto_ld(dg), want, 1e-5);
        chk("dvel_dgs", mto_ld(dvel), wantv, 1e-4);
      }
    }
    if (c == 0) {
      std::ostringstream os;
      os << "{\"group\":\"" << gname << "\",\"K\":" << K << ",\"u\":" << u << ",\"bspline\":" << bsp << ",\"v1\":" << jvec(vs[0]) << "}";
      REP->sample(os.str());
    }
  }
}

template<typename G>
void run_all_K(Rng & rng, int n, const char * gname)
{
  run<G, 1>(rng, n, gname);
  run<G, 2>(rng, n, gname);
  run<G, 3>(rng, n, gname);
  run<G, 4>(rng, n / 2, gname);
  run<G, 5>(rng, n / 4, gname);
  run<G, 6>(rng, n / 4, gname);
}

static int hv_main();
int main() { return hv::guard(hv_main); }
static int hv_main()
{
  Report rep;
  rep.property = "C11";
  REP          = &rep;
  Rng rng(seed_from_env());
  const int n = thorough() ? 400 : 40;
  run_all_K<smooth::SO3d>(rng, n, "SO3");
  run_all_K<smooth::SE2d>(rng, n, "SE2");
  run_all_K<smooth::SE3d>(rng, n / 2, "SE3");
  run_all_K<smooth::SO2d>(rng, n / 2, "SO2");
  rep.print();
  return 0;
}
