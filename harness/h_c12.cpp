// C12 property harness (failing-input search): checks the property ITSELF on the real Spline<K,G> for
// G in {SO3, SE2, SE3, R^2}, K = 1..5, against an oracle that does not use the library's group code:
// documented matrices in long double (docmat.hpp), matrix products/inverses, scaling-and-squaring expm,
// and (arclength) a composite Gauss-Legendre quadrature of |velocity|.
//
// Every operation of a random history is checked against its specification; a result that violates its
// specification is reported (failure record with stable keys: check, group, K, classification of the input
// region) and DISCARDED, so that later operations of the history start from states that satisfy the
// specifications (a known defect does not contaminate the classification of later failures).
#include "docmat.hpp"

#include <smooth/se2.hpp>
#include <smooth/se3.hpp>
#include <smooth/so3.hpp>
#include <smooth/spline/spline.hpp>

using namespace hv;

// ---------------------------------------------------------------- oracle traits
template<typename G>
struct Or
{
  static constexpr const char * name = Doc<G>::name;
  static MatX mat(const G & g) { return Doc<G>::mat(to_ld(g.coeffs())); }
  static MatX hat(const typename G::Tangent & a) { return Doc<G>::hat(to_ld(a)); }
  static G rand_elem(Rng & r)
  {
    typename G::Tangent a;
    for (int i = 0; i < a.size(); ++i) a(i) = 1.5 * r.sym();
    return G::exp(a);
  }
};
template<>
struct Or<Eigen::Vector2d>
{
  using G = Eigen::Vector2d;
  static constexpr const char * name = "R2";
  static MatX mat(const G & g)
  {
    MatX M  = MatX::Identity(3, 3);
    M(0, 2) = g(0);
    M(1, 2) = g(1);
    return M;
  }
  static MatX hat(const G & a)
  {
    MatX M  = MatX::Zero(3, 3);
    M(0, 2) = a(0);
    M(1, 2) = a(1);
    return M;
  }
  static G rand_elem(Rng & r) { return G(3 * r.sym(), 3 * r.sym()); }
};

struct Fails
{
  std::map<std::string, int> per_key;
  std::vector<std::string> list;
  long n = 0;
  void add(const std::string & key, const std::string & json)
  {
    ++n;
    if (per_key[key]++ < 3) list.push_back(json);
  }
};

static Fails FAILS;
static Report REP;

template<int K, typename G>
struct Run
{
  using S   = smooth::Spline<K, G>;
  using Tan = smooth::Tangent<G>;
  using O   = Or<G>;
  static constexpr int Dof = smooth::Dof<G>;
  Rng & rng;
  long caseno = 0;
  explicit Run(Rng & r) : rng(r) {}

  std::string gk() const { return std::string(O::name) + ".K" + std::to_string(K); }

  static double merr(const MatX & a, const MatX & b)
  {
    if (!a.allFinite()) return std::numeric_limits<double>::infinity();
    return static_cast<double>(maxabs(a - b) / std::max<ld>(1, maxabs(b)));
  }
  template<typename A, typename B>
  static double verr(const A & a, const B & b)
  {
    if (!a.allFinite()) return std::numeric_limits<double>::infinity();
    return (a - b).cwiseAbs().maxCoeff() / std::max(1.0, b.cwiseAbs().maxCoeff());
  }

  Tan rand_tan(double s)
  {
    Tan a;
    for (int i = 0; i < Dof; ++i) a(i) = s * rng.sym();
    return a;
  }
  double rand_dur()
  {
    switch (rng.below(4)) {
    case 0: return 1.0;
    case 1: return rng.logu(0.05, 0.5);
    default: return 0.2 + 2.8 * rng.uni();
    }
  }
  S rand_seg(bool local)
  {
    Eigen::Matrix<double, Dof, K> V;
    for (int j = 0; j < K; ++j) V.col(j) = rand_tan(rng.below(5) == 0 ? 0.0 : 0.8);
    return S(rand_dur(), V, local ? G(smooth::Identity<G>()) : O::rand_elem(rng));
  }

  void fail(const std::string & check, const std::string & cls_key, const std::string & cls_json, double err,
            const std::string & input_json)
  {
    std::ostringstream os;
    os.precision(17);
    os << "{\"check\":\"" << check << "\",\"group\":\"" << O::name << "\",\"K\":" << K << "," << cls_json
       << (cls_json.empty() ? "" : ",") << "\"err\":" << (std::isfinite(err) ? err : 1e300) << ",\"case\":" << caseno << ","
       << input_json << "}";
    FAILS.add(check + "|" + cls_key, os.str());
  }

  // knots of x recovered through the public API are not available; the harness tracks them itself
  struct Tracked
  {
    S x;
    std::vector<double> knots;  // segment end times
    std::vector<double> jumps;  // times where an incompatible concatenation made the curve jump (by specification)
    bool is_jump(double t) const
    {
      for (double j : jumps)
        if (j == t) return true;
      return false;
    }
  };

  // ----- elementary checks on one spline
  bool check_outside(const Tracked & tx, const char * origin)
  {
    const S & x = tx.x;
    bool ok     = true;
    Tan vel = Tan::Constant(std::numeric_limits<double>::quiet_NaN()), acc = vel;   // NaN pre-fill: unwritten outputs are visible
    vel.setOnes();
    acc.setOnes();
    G a      = x(-0.7, vel, acc);
    double e = std::max({merr(O::mat(a), O::mat(x.start())), vel.cwiseAbs().maxCoeff(), acc.cwiseAbs().maxCoeff()});
    vel.setOnes();
    acc.setOnes();
    G b = x(x.t_max() + 0.7, vel, acc);
    e   = std::max({e, merr(O::mat(b), O::mat(x.end())), vel.cwiseAbs().maxCoeff(), acc.cwiseAbs().maxCoeff()});
    REP.tally(gk() + ".eval_outside", e);
    ++REP.evaluations;
    if (!(e <= 1e-12)) {
      std::ostringstream in;
      in << "\"origin\":\"" << origin << "\",\"t_max\":" << x.t_max();
      fail("eval_outside", origin, "", e, in.str());
      ok = false;
    }
    // continuity: start, end and knots
    if (!x.empty()) {
      double ec = merr(O::mat(x(0.)), O::mat(x.start()));
      if (!tx.is_jump(x.t_max())) ec = std::max(ec, merr(O::mat(x(x.t_max())), O::mat(x.end())));
      for (double k : tx.knots) {
        if (k >= x.t_max() || tx.is_jump(k)) continue;
        const double h = 1e-9 * std::max(1.0, k);
        bool jump_inside = false;  // a specified jump within the probing distance (knots created by crops next to a jump)
        for (double j : tx.jumps) jump_inside = jump_inside || (j <= k && j >= k - 2 * h);
        if (jump_inside) continue;
        ec             = std::max(ec, merr(O::mat(x(k - h)), O::mat(x(k))) - 1e-6);
      }
      REP.tally(gk() + ".continuity", std::max(ec, 0.0));
      ++REP.evaluations;
      if (!(ec <= 1e-9)) {
        std::ostringstream in;
        in << "\"origin\":\"" << origin << "\",\"t_max\":" << x.t_max() << ",\"nseg\":" << x.size();
        fail("continuity", origin, "\"origin_op\":\"" + std::string(origin) + "\"", ec, in.str());
        ok = false;
      }
    }
    return ok;
  }

  // sample times in [a,b]: the break points (a, b, knots inside) and, for EVERY piece between consecutive break
  // points, its middle and two points 1% inside its ends (short pieces left by crops next to a knot included), plus
  // uniformly random times
  std::vector<double> samples(double a, double b, const std::vector<double> & knots, double shift)
  {
    std::vector<double> br{a, b};
    for (double k : knots) {
      const double t = k - shift;
      if (t > a && t < b) br.push_back(t);
    }
    std::sort(br.begin(), br.end());
    std::vector<double> ts;
    for (std::size_t i = 0; i < br.size(); ++i) {
      ts.push_back(br[i]);
      if (i + 1 < br.size() && br[i + 1] > br[i]) {
        const double l = br[i], r = br[i + 1];
        ts.push_back(0.5 * (l + r));
        ts.push_back(l + 0.01 * (r - l));
        ts.push_back(r - 0.01 * (r - l));
      }
    }
    for (int i = 0; i < 4; ++i) ts.push_back(a + (b - a) * rng.uni());
    return ts;
  }
  static bool near_knot(double t, const std::vector<double> & knots, double shift = 0)
  {
    for (double k : knots)
      if (std::fabs(t - (k - shift)) < 1e-7) return true;
    return false;
  }

  // ----- operations with their specifications
  bool op_concat(Tracked & cur, bool global)
  {
    const S x1 = cur.x;
    // operand: empty, one or two segments; compatible (continuous joint) three times out of four
    const bool compatible = rng.below(4) != 0;
    G start_o = O::rand_elem(rng);
    if (compatible) start_o = (global && !x1.empty()) ? x1.end() : G(smooth::Identity<G>());
    std::vector<double> oknots;
    S o(start_o);
    if (rng.below(8) != 0) {
      Eigen::Matrix<double, Dof, K> V;
      for (int j = 0; j < K; ++j) V.col(j) = rand_tan(0.8);
      o = S(rand_dur(), V, start_o);
      oknots.push_back(o.t_max());
      if (rng.below(3) == 0) {
        o += rand_seg(true);
        oknots.push_back(o.t_max());
      }
    }
    const double t1 = x1.t_max(), t2 = o.t_max();
    S y = x1;
    if (global)
      y.concat_global(o);
    else
      y += o;
    ++REP.strata[global ? "op.concat_global" : "op.concat_local"];
    if (o.empty()) ++REP.strata["concat.other_empty"];
    if (x1.empty()) ++REP.strata["concat.this_empty"];
    if (!compatible) ++REP.strata["concat.jump_at_joint"];
    double e = 0, worst_t = 0;
    if (!(y.size() == x1.size() + o.size() && std::fabs(y.t_max() - (t1 + t2)) <= 1e-12 * (1 + t1 + t2))) e = 1;
    const MatX Mend1 = O::mat(x1.end()), Mstart1 = O::mat(x1.start());
    std::vector<double> allk = cur.knots;
    for (double k : oknots) allk.push_back(t1 + k);
    std::vector<double> ts = samples(0, t1 + t2 + 0.5, allk, 0);
    ts.push_back(-0.3);
    ts.push_back(t1);
    for (double t : ts) {
      MatX want;
      if (x1.empty())
        want = global ? O::mat(o(t)) : MatX(Mstart1 * O::mat(o(t)));
      else if (t < t1)
        want = O::mat(x1(t));
      else if (t > t1 || !o.empty())
        want = global ? O::mat(o(t - t1)) : MatX(Mend1 * O::mat(o(t - t1)));
      else
        continue;  // t == t1 with an empty operand: the value of the last segment (checked by continuity)
      const double ee = merr(O::mat(y(t)), want);
      if (ee > e) {
        e       = ee;
        worst_t = t;
      }
      ++REP.evaluations;
    }
    REP.tally(gk() + (global ? ".concat_global_spec" : ".concat_local_spec"), e);
    if (!(e <= 1e-9)) {
      std::ostringstream in;
      in.precision(17);
      in << "\"t1\":" << t1 << ",\"t2\":" << t2 << ",\"t\":" << worst_t << ",\"n1\":" << x1.size() << ",\"n2\":" << o.size();
      fail(global ? "concat_global_spec" : "concat_local_spec", "", "", e, in.str());
      return false;
    }
    // accept
    if (!compatible && !x1.empty()) cur.jumps.push_back(t1);
    cur.x          = y;
    for (double k : oknots) cur.knots.push_back(t1 + k);
    return true;
  }

  bool op_crop(Tracked & cur)
  {
    const S & x = cur.x;
    if (x.empty()) return true;
    const double tm = x.t_max();
    auto pick       = [&](std::string & lab) -> double {
      switch (rng.below(5)) {
      case 0:
        if (!cur.knots.empty()) {
          lab = "knot";
          return cur.knots[rng.below(static_cast<int>(cur.knots.size()))];
        }
        [[fallthrough]];
      case 1:
        if (!cur.knots.empty()) {
          lab            = "near_knot";
          const double k = cur.knots[rng.below(static_cast<int>(cur.knots.size()))];
          return std::clamp(k + (rng.below(2) ? 1 : -1) * rng.logu(1e-9, 1e-2), 0.0, tm);
        }
        [[fallthrough]];
      default: lab = "inside"; return tm * rng.uni();
      }
    };
    std::string la, lb;
    double ta = pick(la), tb = pick(lb);
    if (rng.below(6) == 0) {
      ta = 0;
      la = "zero";
    }
    if (rng.below(6) == 0) {
      tb = tm;
      lb = "tmax";
    }
    if (tb < ta) std::swap(ta, tb);
    if (!(tb - ta > 1e-6)) return true;
    const bool loc = rng.below(3) != 0;
    // classification
    const double first_knot = cur.knots.empty() ? tm : cur.knots.front();
    const int later         = ta >= first_knot ? 1 : 0;
    int on_knot             = 0;
    for (double k : cur.knots)
      if (k == ta) on_knot = 1;
    ++REP.strata["op.crop"];
    ++REP.strata["crop.ta_" + la];
    ++REP.strata["crop.tb_" + lb];
    if (later) ++REP.strata["crop.ta_in_later_segment"];
    if (!loc) ++REP.strata["crop.not_localized"];

    const S y = x.crop(ta, tb, loc);
    double e = 0, ed = 0, worst_t = 0;
    if (!(std::fabs(y.t_max() - (tb - ta)) <= 1e-12 * (1 + tb))) e = 1;
    const MatX Mga  = O::mat(x(ta));
    const MatX Minv = Mga.inverse();
    auto want_of    = [&](double s) -> MatX { return loc ? MatX(Minv * O::mat(x(s))) : O::mat(x(s)); };
    const bool tb_jump = cur.is_jump(tb);  // x jumps at tb: y(tb - ta) is the left limit, end() the right one
    for (double t : samples(0, tb - ta, cur.knots, ta)) {
      if (tb_jump && ta + t >= tb) continue;
      {
        // ta + (k - ta) != k in binary64: such a sample may fall on either side of a specified jump -> skipped.
        // (Only a few ulp wide: a wider window would hide defects in very short segments next to a jump.)
        bool on_jump = false;
        for (double j : cur.jumps) on_jump = on_jump || std::fabs(ta + t - j) <= 1e-12 * std::max(1.0, std::fabs(j));
        if (on_jump) continue;
      }
      Tan v1, a1, v2, a2;
      const G gy = y(t, v1, a1);
      const G gx = x(std::min(ta + t, tb), v2, a2);
      (void)gx;
      double ee = merr(O::mat(gy), want_of(std::min(ta + t, tb)));
      if (ee > e) {
        e       = ee;
        worst_t = t;
      }
      // identical velocity and acceleration (away from knots, where one-sided values may legitimately differ)
      if (!near_knot(ta + t, cur.knots) && t > 1e-7 && t < tb - ta - 1e-7) {
        ed = std::max({ed, verr(v1, v2), verr(a1, a2)});
      }
      ++REP.evaluations;
    }
    // beyond the end and before the start
    e = std::max(e, merr(O::mat(y(tb - ta + 0.3)), want_of(tb)));
    e = std::max(e, merr(O::mat(y(-0.3)), want_of(ta)));
    e = std::max(e, merr(O::mat(y.end()), want_of(tb)));
    e = std::max(e, merr(O::mat(y.start()), want_of(ta)));
    REP.tally(gk() + ".crop_spec", e);
    REP.tally(gk() + ".crop_spec_derivatives", ed);
    const double tot = std::max(e, ed > 1e-7 ? ed : 0.0);
    if (!(e <= 1e-9) || !(ed <= 1e-7)) {
      std::ostringstream cls, in;
      cls << "\"ta_in_later_segment\":" << later << ",\"localize\":" << (loc ? 1 : 0) << ",\"ta_on_knot\":" << on_knot;
      in.precision(17);
      in << "\"ta\":" << ta << ",\"tb\":" << tb << ",\"t\":" << worst_t << ",\"nseg\":" << x.size() << ",\"knots\":[";
      for (std::size_t i = 0; i < cur.knots.size(); ++i) in << (i ? "," : "") << cur.knots[i];
      in << "],\"err_derivatives\":" << (std::isfinite(ed) ? ed : 1e300);
      std::ostringstream key;
      key << later << loc;
      fail("crop_spec", key.str(), cls.str(), tot, in.str());
      return false;
    }
    // accept: new knots
    Tracked nt;
    nt.x          = y;
    for (double j : cur.jumps)
      if (j > ta && j <= tb) nt.jumps.push_back(j - ta);
    for (double k : cur.knots)
      if (k > ta && k < tb) nt.knots.push_back(k - ta);
    nt.knots.push_back(tb - ta);
    cur = nt;
    return true;
  }

  bool op_make_local(Tracked & cur)
  {
    const S & x = cur.x;
    S y         = x;
    y.make_local();
    ++REP.strata["op.make_local"];
    const MatX Minv = O::mat(x.start()).inverse();
    const int ident = merr(O::mat(x.start()), O::mat(G(smooth::Identity<G>()))) < 1e-14 ? 1 : 0;
    if (!ident) ++REP.strata["make_local.nonidentity_start"];
    double e = 0, worst_t = 0;
    for (double t : samples(-0.5, x.t_max() + 0.5, cur.knots, 0)) {
      const double ee = merr(O::mat(y(t)), Minv * O::mat(x(t)));
      if (ee > e) {
        e       = ee;
        worst_t = t;
      }
      ++REP.evaluations;
    }
    e = std::max(e, merr(O::mat(y.end()), Minv * O::mat(x.end())));
    REP.tally(gk() + ".make_local_spec", e);
    if (!(e <= 1e-9)) {
      std::ostringstream cls, in;
      cls << "\"start_is_identity\":" << ident;
      in.precision(17);
      in << "\"t\":" << worst_t << ",\"nseg\":" << x.size() << ",\"t_max\":" << x.t_max();
      fail("make_local_spec", std::to_string(ident), cls.str(), e, in.str());
      return false;
    }
    cur.x = y;
    return true;
  }

  void check_constant_velocity()
  {
    const Tan v    = rand_tan(rng.below(4) == 0 ? 3.0 : 1.0);
    const double T = rand_dur();
    const G ga     = rng.below(3) == 0 ? G(smooth::Identity<G>()) : O::rand_elem(rng);
    const S c      = S::ConstantVelocity(v, T, ga);
    ++REP.strata["op.constant_velocity"];
    const MatX Ma = O::mat(ga), H = O::hat(v);
    double e = 0, worst_t = 0, ed = 0;
    for (double t : {0.0, T, 0.5 * T, T * rng.uni(), T * rng.uni()}) {
      Tan vel = Tan::Constant(std::numeric_limits<double>::quiet_NaN()), acc = vel;   // NaN pre-fill: unwritten outputs are visible
      const G g       = c(t, vel, acc);
      const double ee = merr(O::mat(g), Ma * expm(H * static_cast<ld>(t)));
      if (ee > e) {
        e       = ee;
        worst_t = t;
      }
      if (t > 0 && t < T) ed = std::max({ed, verr(vel, v), acc.cwiseAbs().maxCoeff()});
      ++REP.evaluations;
    }
    e = std::max(e, merr(O::mat(c.end()), Ma * expm(H * static_cast<ld>(T))));
    REP.tally(gk() + ".constant_velocity", std::max(e, ed));
    if (!(e <= 1e-9) || !(ed <= 1e-8)) {
      std::ostringstream cls, in;
      cls << "\"K_is_3\":" << (K == 3 ? 1 : 0);
      in.precision(17);
      in << "\"T\":" << T << ",\"t\":" << worst_t << ",\"v\":" << jvec(v) << ",\"err_velocity\":" << ed;
      fail("constant_velocity", "", cls.str(), std::max(e, ed), in.str());
    }
    // ConstantVelocityGoal reaches its goal
    {
      const G gb = smooth::composition(ga, G(smooth::exp<G>(rand_tan(1.0))));
      const S cg = S::ConstantVelocityGoal(gb, T, ga);
      const double eg = merr(O::mat(cg(T)), O::mat(gb));
      REP.tally(gk() + ".constant_velocity_goal", eg);
      ++REP.evaluations;
      if (!(eg <= 1e-9)) {
        std::ostringstream cls, in;
        cls << "\"K_is_3\":" << (K == 3 ? 1 : 0);
        in.precision(17);
        in << "\"T\":" << T << ",\"t\":" << T << ",\"goal\":1";
        fail("constant_velocity", "goal", cls.str(), eg, in.str());
      }
    }
  }

  void check_fixed_cubic()
  {
    if constexpr (K == 3) {
      const G ga = rng.below(3) == 0 ? G(smooth::Identity<G>()) : O::rand_elem(rng);
      const G gb = smooth::composition(ga, G(smooth::exp<G>(rand_tan(1.0))));
      const Tan va = rand_tan(1.0), vb = rand_tan(1.0);
      const double T = rand_dur();
      const S c      = S::FixedCubic(gb, va, vb, T, ga);
      ++REP.strata["op.fixed_cubic"];
      Tan v0, a0, v1, a1;
      const G g0 = c(0., v0, a0);
      const G g1 = c(T, v1, a1);
      const double e =
        std::max({merr(O::mat(g0), O::mat(ga)), merr(O::mat(g1), O::mat(gb)), merr(O::mat(c.end()), O::mat(gb)), verr(v0, va), verr(v1, vb)});
      REP.tally(gk() + ".fixed_cubic", e);
      ++REP.evaluations;
      if (!(e <= 1e-9)) {
        std::ostringstream in;
        in.precision(17);
        in << "\"T\":" << T << ",\"va\":" << jvec(va) << ",\"vb\":" << jvec(vb);
        fail("fixed_cubic", "", "", e, in.str());
      }
    }
  }

  // arclength on the commutative instance: composite 8-point Gauss-Legendre of |vel| between knots
  void check_arclength(const Tracked & tx)
  {
    if constexpr (K == 3 && std::is_same_v<G, Eigen::Vector2d>) {
      const S & x = tx.x;
      if (x.empty()) return;
      static const double gx[4] = {0.1834346424956498, 0.5255324099163290, 0.7966664774136267, 0.9602898564975363};
      static const double gw[4] = {0.3626837833783620, 0.3137066458778873, 0.2223810344533745, 0.1012285362903763};
      const double t            = rng.below(4) == 0 ? x.t_max() + 0.5 : x.t_max() * rng.uni();
      Eigen::Vector2d want      = Eigen::Vector2d::Zero();
      std::vector<double> br{0};
      for (double k : tx.knots)
        if (k < std::min(t, x.t_max())) br.push_back(k);
      br.push_back(std::min(t, x.t_max()));
      for (std::size_t i = 0; i + 1 < br.size(); ++i) {
        const int P = 400;
        for (int p = 0; p < P; ++p) {
          const double a = br[i] + (br[i + 1] - br[i]) * p / P, b = br[i] + (br[i + 1] - br[i]) * (p + 1) / P;
          for (int q = 0; q < 4; ++q)
            for (int sgn = -1; sgn <= 1; sgn += 2) {
              Eigen::Vector2d vel;
              x(0.5 * (a + b) + sgn * 0.5 * (b - a) * gx[q], vel);
              want += 0.5 * (b - a) * gw[q] * vel.cwiseAbs();
            }
        }
      }
      const Eigen::Vector2d got = x.arclength(t);
      const double e            = verr(got, want);
      REP.tally(gk() + ".arclength", e);
      ++REP.evaluations;
      ++REP.strata["arclength"];
      if (!(e <= 1e-5)) {
        std::ostringstream in;
        in.precision(17);
        in << "\"t\":" << t << ",\"t_max\":" << x.t_max() << ",\"nseg\":" << x.size() << ",\"got\":" << jvec(got)
           << ",\"want\":" << jvec(want);
        fail("arclength", "", "", e, in.str());
      }
    }
  }

  void history()
  {
    ++caseno;
    Tracked cur;
    // constructors
    if (rng.below(6) == 0) {
      cur.x = S(O::rand_elem(rng));
    } else {
      cur.x = rand_seg(rng.below(2));
      cur.knots.push_back(cur.x.t_max());
    }
    check_outside(cur, "constructor");
    const int nops = 2 + rng.below(8);
    for (int k = 0; k < nops; ++k) {
      const int c       = rng.below(12);
      const char * name = "";
      if (c < 5 && cur.x.size() < 8) {
        op_concat(cur, false);
        name = "concat_local";
      } else if (c < 7 && cur.x.size() < 8) {
        op_concat(cur, true);
        name = "concat_global";
      } else if (c < 11) {
        op_crop(cur);
        name = "crop";
      } else {
        op_make_local(cur);
        name = "make_local";
      }
      check_outside(cur, name);
      if (rng.below(3) == 0) check_arclength(cur);
    }
    ++REP.strata["histories." + std::string(O::name)];
    ++REP.strata["final_size." + std::to_string(cur.x.size())];
    check_constant_velocity();
    check_fixed_cubic();
  }
};

template<int K, typename G>
void run_all(Rng & rng, int n)
{
  Run<K, G> r(rng);
  for (int i = 0; i < n; ++i) r.history();
}

int main()
{
  Rng rng((seed_from_env() << 32) ^ 0xC12C12C12ULL);
  REP.property = "C12";
  const int n  = thorough() ? 300 : 30;
  using R2     = Eigen::Vector2d;
  run_all<1, R2>(rng, n);
  run_all<2, R2>(rng, n);
  run_all<3, R2>(rng, 2 * n);
  run_all<4, R2>(rng, n);
  run_all<5, R2>(rng, n);
  run_all<1, smooth::SO3d>(rng, n);
  run_all<2, smooth::SO3d>(rng, n);
  run_all<3, smooth::SO3d>(rng, n);
  run_all<4, smooth::SO3d>(rng, n);
  run_all<5, smooth::SO3d>(rng, n);
  run_all<1, smooth::SE2d>(rng, n);
  run_all<2, smooth::SE2d>(rng, n);
  run_all<3, smooth::SE2d>(rng, n);
  run_all<4, smooth::SE2d>(rng, n);
  run_all<5, smooth::SE2d>(rng, n);
  run_all<2, smooth::SE3d>(rng, n);
  run_all<3, smooth::SE3d>(rng, n);
  run_all<5, smooth::SE3d>(rng, n);
  REP.nfail    = FAILS.n;
  REP.failures = FAILS.list;
  if (REP.failures.size() > 60) REP.failures.resize(60);
  REP.print();
  return 0;
}
