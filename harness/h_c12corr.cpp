// C12 correspondence harness: executes generated operation histories on the REAL Spline<K, Eigen::Vector2d>
// (K = 1..5) and prints one canonical result line per observation; the same operation file is executed by the
// extracted Coq model (extract/C12/driver.ml) and scripts/props_C12.py diffs the two outputs.
//
//   usage: h_c12corr <ops-file-to-write>      (VERIF_SEED, VERIF_TIER from the environment)
//
// All generated numbers are small dyadic rationals (written as n/d), so every time computation of the
// library (sums/differences of knots) is exact in binary64 and discrete observables must agree exactly.
#include <algorithm>
#include <array>
#include <cmath>
#include <cstdint>
#include <cstdio>
#include <cstdlib>
#include <map>
#include <sstream>
#include <string>
#include <vector>

#include <Eigen/Core>
#include <Eigen/Geometry>

#include "hcommon.hpp"

#include <smooth/lie_groups.hpp>
#include <smooth/polynomial/basis.hpp>
#include <smooth/spline/cumulative_spline.hpp>
// read the private per-segment vectors of Spline (no source change): only spline.hpp is compiled with this
#define private public
#include <smooth/spline/spline.hpp>
#undef private

using namespace hv;
using V2 = Eigen::Vector2d;

static FILE * OPS = nullptr;
static long LINE  = 0;  // number of the current op line (1-based), printed in front of every result line
static std::map<std::string, long> STRATA;
static long NEVAL = 0;

// dyadic number n / 2^k written exactly
static std::string dy(double x)
{
  const double sc = 1048576.0;  // 2^20
  double n        = x * sc;
  if (!(std::floor(n) == n) || std::fabs(n) > 9e15) {
    std::fprintf(stderr, "non-dyadic value generated: %.17g\n", x);
    std::exit(3);
  }
  long long nn = static_cast<long long>(n);
  long long d  = 1048576;
  while (nn % 2 == 0 && d > 1) {
    nn /= 2;
    d /= 2;
  }
  std::ostringstream os;
  os << nn << "/" << d;
  return os.str();
}

static void op(const std::string & s)
{
  ++LINE;
  std::fprintf(OPS, "%s\n", s.c_str());
}

static double q4(Rng & r, int lim) { return (r.below(2 * lim * 4 + 1) - lim * 4) / 4.0; }  // multiples of 1/4 in [-lim, lim]

template<int K>
struct Hist
{
  using S = smooth::Spline<K, V2>;
  static constexpr int NR = 3;
  std::array<S, NR> reg;
  Rng & rng;
  explicit Hist(Rng & r) : rng(r) {}

  V2 gv(int lim = 3)
  {
    if (rng.below(3) == 0) return V2::Zero();
    return V2(q4(rng, lim), q4(rng, lim));
  }
  double dur() { return (1 + rng.below(12)) / 4.0; }  // 0.25 .. 3

  void print_vec(const V2 & v) { std::printf(" %.17g %.17g", v.x(), v.y()); }

  void obs(int r)
  {
    std::ostringstream os;
    os << "obs " << r;
    op(os.str());
    const S & x = reg[r];
    std::printf("%ld obs %zu %.17g", LINE, x.size(), x.t_max());
    print_vec(x.start());
    print_vec(x.end());
    std::printf("\n");
    ++NEVAL;
  }
  void eval(int r, double t, const char * stratum)
  {
    std::ostringstream os;
    os << "eval " << r << " " << dy(t);
    op(os.str());
    V2 vel = V2::Constant(std::numeric_limits<double>::quiet_NaN()), acc = vel;   // NaN pre-fill
    V2 g = reg[r](t, vel, acc);
    std::printf("%ld eval", LINE);
    print_vec(g);
    print_vec(vel);
    print_vec(acc);
    std::printf("\n");
    ++STRATA[std::string("eval.") + stratum];
    ++NEVAL;
  }
  void arc(int r, double t)
  {
    if constexpr (K == 3) {
      std::ostringstream os;
      os << "arc " << r << " " << dy(t);
      op(os.str());
      V2 a = reg[r].arclength(t);
      std::printf("%ld arc", LINE);
      print_vec(a);
      std::printf("\n");
      ++STRATA["arclength"];
      ++NEVAL;
    }
  }
  // evaluation battery: at knots, between, out of range
  void battery(int r)
  {
    obs(r);
    const S & x = reg[r];
    eval(r, -0.5, "before_start");
    eval(r, 0, "t0");
    eval(r, x.t_max(), "tmax");
    eval(r, x.t_max() + 0.5, "after_end");
    const std::size_t N = x.size();
    for (std::size_t i = 0; i < N; ++i) {
      const double a = i == 0 ? 0 : x.m_end_t[i - 1], b = x.m_end_t[i];
      if (i + 1 < N) eval(r, b, "knot");
      if (rng.below(2) || N <= 3) eval(r, 0.5 * (a + b), "mid_segment");
      if (rng.below(4) == 0) eval(r, a + 0.25 * (b - a), "quarter_segment");
    }
    if (N > 0 && rng.below(2)) {
      const int i    = rng.below(static_cast<int>(N));
      const double a = i == 0 ? 0 : x.m_end_t[i - 1], b = x.m_end_t[i];
      arc(r, rng.below(3) == 0 ? b : 0.5 * (a + b));
      if (rng.below(3) == 0) arc(r, x.t_max() + 1);
    }
  }

  void do_new(int r)
  {
    const double T = dur();
    Eigen::Matrix<double, 2, K> V;
    for (int j = 0; j < K; ++j) V.col(j) = V2(q4(rng, 2), q4(rng, 2));
    const V2 ga = gv();
    std::ostringstream os;
    os << "new " << r << " " << dy(T);
    for (int j = 0; j < K; ++j) os << " " << dy(V(0, j)) << " " << dy(V(1, j));
    os << " " << dy(ga.x()) << " " << dy(ga.y());
    op(os.str());
    reg[r] = S(T, V, ga);
    ++STRATA["op.new"];
  }
  void do_empty(int r)
  {
    const V2 ga = gv();
    std::ostringstream os;
    os << "empty " << r << " " << dy(ga.x()) << " " << dy(ga.y());
    op(os.str());
    reg[r] = S(ga);
    ++STRATA["op.empty"];
  }
  void do_cv(int r)
  {
    const V2 v     = V2(q4(rng, 2), q4(rng, 2));
    const double T = rng.below(10) == 0 ? -0.5 * rng.below(2) : dur();  // T <= 0 is accepted by the API: empty Spline
    const V2 ga    = gv();
    std::ostringstream os;
    os << "cv " << r << " " << dy(v.x()) << " " << dy(v.y()) << " " << dy(T) << " " << dy(ga.x()) << " " << dy(ga.y());
    op(os.str());
    reg[r] = S::ConstantVelocity(v, T, ga);
    ++STRATA[T > 0 ? "op.constant_velocity" : "op.constant_velocity_T<=0"];
  }
  void do_fc(int r)
  {
    if constexpr (K == 3) {
      const V2 gb = gv(), va = V2(q4(rng, 2), q4(rng, 2)), vb = V2(q4(rng, 2), q4(rng, 2)), ga = gv();
      const double T = dur();
      std::ostringstream os;
      os << "fc " << r << " " << dy(gb.x()) << " " << dy(gb.y()) << " " << dy(va.x()) << " " << dy(va.y()) << " "
         << dy(vb.x()) << " " << dy(vb.y()) << " " << dy(T) << " " << dy(ga.x()) << " " << dy(ga.y());
      op(os.str());
      reg[r] = S::FixedCubic(gb, va, vb, T, ga);
      ++STRATA["op.fixed_cubic"];
    } else {
      do_new(r);
    }
  }
  bool do_concat(int r, int a, bool global)
  {
    if (a == r) return false;  // value semantics only: aliasing (x += x) is outside the model, see notes/C12.md
    if (reg[r].size() + reg[a].size() > 8) return false;
    std::ostringstream os;
    os << (global ? "cg " : "cl ") << r << " " << a;
    op(os.str());
    if (global)
      reg[r].concat_global(reg[a]);
    else
      reg[r] += reg[a];
    ++STRATA[global ? "op.concat_global" : "op.concat_local"];
    if (reg[a].empty()) ++STRATA["concat.other_empty"];
    return true;
  }
  void do_ml(int r)
  {
    std::ostringstream os;
    os << "ml " << r;
    op(os.str());
    if (!reg[r].start().isZero()) ++STRATA["make_local.nonidentity_start"];
    reg[r].make_local();
    ++STRATA["op.make_local"];
  }
  // pick a time on the grid of the spline: knot / inside a segment / generic multiple of 1/8
  double pick_time(const S & x, std::string & lab)
  {
    const std::size_t N = x.size();
    const int c         = rng.below(4);
    if (N == 0 || c == 3) {
      lab = "grid";
      return rng.below(static_cast<int>(8 * (x.t_max() + 1))) / 8.0;
    }
    const int i    = rng.below(static_cast<int>(N));
    const double a = i == 0 ? 0 : x.m_end_t[i - 1], b = x.m_end_t[i];
    if (c == 0) {
      lab = "knot";
      return b;
    } else if (c == 1) {
      lab = "mid";
      return 0.5 * (a + b);
    }
    lab = "quarter";
    return a + 0.25 * (b - a);
  }
  void do_crop(int r, int a)
  {
    const S & x = reg[a];
    std::string la, lb;
    double ta = pick_time(x, la), tb = pick_time(x, lb);
    const int mode = rng.below(10);
    if (mode == 0) {
      ta = -0.25;
      la = "negative";
    } else if (mode == 1) {
      tb = x.t_max() + 1;
      lb = "beyond_end";
    } else if (mode == 2) {
      ta = 0;
      la = "zero";
    } else if (mode == 3) {
      tb = x.t_max();
      lb = "tmax";
    }
    if (tb < ta && rng.below(4) != 0) std::swap(ta, tb);  // mostly valid intervals; tb <= ta gives an empty Spline
    const bool loc = rng.below(3) != 0;
    std::ostringstream os;
    os << "crop " << r << " " << a << " " << dy(ta) << " " << dy(tb) << " " << (loc ? 1 : 0);
    op(os.str());
    ++STRATA["op.crop"];
    ++STRATA["crop.ta_" + la];
    ++STRATA["crop.tb_" + lb];
    if (!loc) ++STRATA["crop.not_localized"];
    if (tb <= ta) ++STRATA["crop.empty_interval"];
    if (x.size() > 0 && ta >= x.m_end_t[0] && ta < tb) ++STRATA["crop.ta_in_later_segment"];
    S y = x.crop(ta, tb, loc);
    bool finite = true;
    for (double v : y.m_seg_T0) finite = finite && std::isfinite(v);
    for (double v : y.m_seg_Del) finite = finite && std::isfinite(v);
    if (finite) {
      std::printf("%ld crop ok\n", LINE);
      reg[r] = y;
    } else {
      std::printf("%ld crop nan\n", LINE);  // register unchanged on both sides
      ++STRATA["crop.result_nan"];
    }
    ++NEVAL;
  }

  void run()
  {
    {
      std::ostringstream os;
      os << "K " << K;
      op(os.str());
    }
    for (int r = 0; r < NR; ++r) {
      const int c = rng.below(12);
      if (c == 0)
        do_empty(r);
      else if (c <= 2)
        do_cv(r);
      else if (c == 3)
        do_fc(r);
      else
        do_new(r);
    }
    // grow registers 0 and 1 to several segments (so that crops starting in a later segment / on a knot are common)
    for (int r = 0; r < 2; ++r) {
      const int extra = rng.below(4);
      for (int k = 0; k < extra; ++k) {
        do_new(2);
        do_concat(r, 2, rng.below(6) == 0);
      }
    }
    battery(0);
    battery(1);
    const int nops = 4 + rng.below(9);
    for (int k = 0; k < nops; ++k) {
      const int r = rng.below(NR), a = rng.below(NR);
      const int c = rng.below(20);
      if (c < 5) {
        if (!do_concat(r, a, false)) continue;
      } else if (c < 8) {
        if (!do_concat(r, a, true)) continue;
      } else if (c < 15) {
        do_crop(r, a);
      } else if (c == 15) {
        do_ml(r);
      } else if (c == 16) {
        do_cv(r);
      } else if (c == 17) {
        do_fc(r);
      } else if (c == 18) {
        do_empty(r);
      } else {
        do_new(r);
      }
      battery(r);
    }
  }
};

// which repairs are present in the tree under test?  (decided on tiny fixed probes; the model is then run with
// exactly these flags, so the comparison passes before and after each repair and fails for any other behaviour)
static void detect_flags(int * f)
{
  using S3 = smooth::Spline<3, V2>;
  Eigen::Matrix<double, 2, 3> V;
  V << 1, 2, -1, 0.5, -1, 2;
  S3 x;
  x += S3(1.0, V);
  x += S3(1.0, 2 * V);
  x += S3(1.0, -V);
  // crop index: crop(1.5, 3) at t = 0.25 is (1, 0.609375) when repaired, (-1/64, 399/512) on the unchanged tree
  {
    auto y = x.crop(1.5, 3);
    f[0]   = std::fabs(y(0.25).x() - 1.0) < 1e-9 && std::fabs(y(0.25).y() - 0.609375) < 1e-9;
  }
  // crop frame: end() of a non-localised crop is x(tb) when repaired
  {
    auto y = x.crop(0.5, 0.75, false);
    f[1]   = (y.end() - x(0.75)).norm() < 1e-9;
  }
  // ConstantVelocity degree 2
  {
    auto c = smooth::Spline<2, V2>::ConstantVelocity(V2(1, 2), 2.0);
    f[2]   = (c(2.0) - V2(2, 4)).norm() < 1e-9;
  }
  // make_local
  {
    S3 y(1.0, V, V2(5, 5));
    const V2 want = y.end() - V2(5, 5);
    y.make_local();
    f[3] = (y.end() - want).norm() < 1e-9;
  }
}

int main(int argc, char ** argv)
{
  if (argc < 2) {
    std::fprintf(stderr, "usage: h_c12corr <ops-file>\n");
    return 2;
  }
  OPS = std::fopen(argv[1], "w");
  if (!OPS) return 2;
  Rng rng((seed_from_env() << 32) ^ 0xC12C0FFEEULL);
  int f[4];
  detect_flags(f);
  {
    std::ostringstream os;
    os << "FLAGS " << f[0] << " " << f[1] << " " << f[2] << " " << f[3];
    op(os.str());
    std::printf("%ld flags %d %d %d %d\n", LINE, f[0], f[1], f[2], f[3]);
  }
  const int nh = thorough() ? 400 : 40;
  for (int h = 0; h < nh; ++h) {
    switch (h % 5) {
    case 0: Hist<3>(rng).run(); break;
    case 1: Hist<1>(rng).run(); break;
    case 2: Hist<2>(rng).run(); break;
    case 3: Hist<4>(rng).run(); break;
    default: Hist<5>(rng).run(); break;
    }
    ++STRATA["histories"];
  }
  std::fclose(OPS);
  // summary line (JSON) for the python side
  std::printf("{\"evaluations\":%ld,\"strata\":{", NEVAL);
  bool first = true;
  for (auto & kv : STRATA) {
    std::printf("%s\"%s\":%ld", first ? "" : ",", kv.first.c_str(), kv.second);
    first = false;
  }
  std::printf("}}\n");
  return 0;
}
