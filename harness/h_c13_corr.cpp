// C13 correspondence harness: executes the cases of a case file (argv[1], written by scripts/props_C13.py from
// VERIF_SEED) on the REAL smooth::BSpline<K, Vector1d> of the tree under test and prints one canonical line per case.
//
// Observation of the internals of BSpline::operator() without touching /repo: inside this translation unit only,
// the call `cspline_eval_gs<K>(window, Bum, u, vel, acc)` in spline/detail/bspline_impl.hpp is routed through a
// spy (macro rename, in the same spirit as `#define private public`): the spy records u, the size of the window,
// its first element (control point i has the value i, so this IS istar) and the basis matrix handed over, then
// forwards to the real cspline_eval_gs.  If the library stops calling cspline_eval_gs this file fails to build and
// the check reports it.
#include <cinttypes>
#include <cmath>
#include <cstdio>
#include <cstdlib>
#include <cstring>
#include <fstream>
#include <iostream>
#include <limits>
#include <sstream>
#include <string>
#include <vector>

#include <smooth/spline/cumulative_spline.hpp>

namespace smooth {
inline namespace SMOOTH_NAMESPACE {
struct C13Spy
{
  long calls  = 0;
  double u    = 0;
  double first = 0;
  long size   = 0;
  int rows = 0, cols = 0;
  double B[64];
};
inline C13Spy c13_spy;

template<int K, class R, class M, class S, class V, class A>
auto c13_spy_cspline_eval_gs(R && gs, const M & B, S u, V vel, A acc)
{
  c13_spy.calls++;
  c13_spy.u    = static_cast<double>(u);
  c13_spy.size = static_cast<long>(std::ranges::size(gs));
  auto f        = *std::ranges::begin(gs);
  c13_spy.first = static_cast<double>(f(0));
  c13_spy.rows  = static_cast<int>(B.rows());
  c13_spy.cols  = static_cast<int>(B.cols());
  for (int i = 0; i < B.rows() && i < 8; ++i)
    for (int j = 0; j < B.cols() && j < 8; ++j) c13_spy.B[i * 8 + j] = static_cast<double>(B(i, j));
  return cspline_eval_gs<K>(std::forward<R>(gs), B, u, vel, acc);
}
}  // namespace SMOOTH_NAMESPACE
}  // namespace smooth

#define cspline_eval_gs c13_spy_cspline_eval_gs
#include <smooth/spline/bspline.hpp>
#undef cspline_eval_gs

#include <smooth/polynomial/basis.hpp>

using V1 = Eigen::Matrix<double, 1, 1>;

static double rd(std::istringstream & is)
{
  std::string s;
  is >> s;
  return std::strtod(s.c_str(), nullptr);
}

template<int K>
void run_sel(const std::string & id, int N, double t0, double dt, double t)
{
  std::vector<V1> c;
  for (int i = 0; i < N; ++i) c.push_back(V1(static_cast<double>(i)));
  smooth::BSpline<K, V1> s(t0, dt, c);
  smooth::c13_spy = smooth::C13Spy{};
  V1 vel, acc;
  V1 g = s(t, vel, acc);
  const auto & sp = smooth::c13_spy;
  std::printf("SEL %s %ld %a %ld %ld %a %a %a %a\n", id.c_str(), static_cast<long>(sp.first), sp.u, sp.size, sp.calls,
              s.t_min(), s.t_max(), g(0), vel(0));
  static bool dumped = false;
  if (!dumped) {
    dumped = true;
    std::printf("BUM %d %d %d", K, sp.rows, sp.cols);
    for (int i = 0; i <= K; ++i)
      for (int j = 0; j <= K; ++j) std::printf(" %a", sp.B[i * 8 + j]);
    std::printf("\n");
  }
}

template<int K>
void run_eval(const std::string & id, int N, double t0, double dt, double t, const std::vector<double> & cs)
{
  std::vector<V1> c;
  for (int i = 0; i < N; ++i) c.push_back(V1(cs[i]));
  smooth::BSpline<K, V1> s(t0, dt, c);
  V1 vel, acc;
  V1 g = s(t, vel, acc);
  // value must not depend on which derivative outputs are requested
  V1 g2 = s(t);
  V1 vel3;
  V1 g3 = s(t, vel3);
  int same = (g2(0) == g(0) && g3(0) == g(0) && vel3(0) == vel(0)) ? 1 : 0;
  std::printf("EVAL %s %a %a %a %d\n", id.c_str(), g(0), vel(0), acc(0), same);
}

template<int K>
void run_mono(const std::string & id, double u)
{
  const auto U = smooth::monomial_derivatives<K, 2, double>(u);
  std::printf("MONO %s", id.c_str());
  for (int p = 0; p <= 2; ++p)
    for (int k = 0; k <= K; ++k) std::printf(" %a", U[p][k]);
  std::printf("\n");
}

#define DISPATCH(K, call)                                                                                   \
  switch (K) {                                                                                              \
  case 1: call(1); break;                                                                                   \
  case 2: call(2); break;                                                                                   \
  case 3: call(3); break;                                                                                   \
  case 4: call(4); break;                                                                                   \
  case 5: call(5); break;                                                                                   \
  case 6: call(6); break;                                                                                   \
  default: std::printf("BADK %d\n", K);                                                                     \
  }

int main(int argc, char ** argv)
{
  if (argc < 2) {
    std::fprintf(stderr, "usage: h_c13_corr <casefile>\n");
    return 2;
  }
  std::ifstream in(argv[1]);
  std::string line;
  while (std::getline(in, line)) {
    std::istringstream is(line);
    std::string kind, id;
    is >> kind >> id;
    if (kind == "SEL") {
      int K, N;
      is >> K >> N;
      double t0 = rd(is), dt = rd(is), t = rd(is);
#define CALL_SEL(KK) run_sel<KK>(id, N, t0, dt, t)
      DISPATCH(K, CALL_SEL)
    } else if (kind == "EVAL") {
      int K, N;
      is >> K >> N;
      double t0 = rd(is), dt = rd(is), t = rd(is);
      std::vector<double> cs;
      for (int i = 0; i < N; ++i) cs.push_back(rd(is));
#define CALL_EVAL(KK) run_eval<KK>(id, N, t0, dt, t, cs)
      DISPATCH(K, CALL_EVAL)
    } else if (kind == "MONO") {
      int K;
      is >> K;
      double u = rd(is);
#define CALL_MONO(KK) run_mono<KK>(id, u)
      DISPATCH(K, CALL_MONO)
    }
  }
  return 0;
}
