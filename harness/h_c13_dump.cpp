// C13 generator: prints the ACTUAL polynomial_cumulative_basis<Bspline,K,double> coefficient matrices (K=1..6)
// of the library under test as exact hex floats, one entry per line:  B <K> <row> <col> <%a>
// (row = monomial power, col = basis index j, i.e. the layout BSpline::operator() hands to cspline_eval_gs).
#include <cmath>
#include <cstdio>

#include <smooth/polynomial/basis.hpp>

template<std::size_t K>
void dump()
{
  constexpr auto M = smooth::polynomial_cumulative_basis<smooth::PolynomialBasis::Bspline, K, double>();
  for (std::size_t r = 0; r <= K; ++r)
    for (std::size_t c = 0; c <= K; ++c) std::printf("B %zu %zu %zu %a\n", K, r, c, M[r][c]);
}

int main()
{
  dump<1>();
  dump<2>();
  dump<3>();
  dump<4>();
  dump<5>();
  dump<6>();
  return 0;
}
