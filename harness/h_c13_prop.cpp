// C13 failing-input search: checks the PROPERTY ITSELF on the real smooth::BSpline<K,G> of the tree under test, for
// G in {SO3, SE2, SE3, Bundle<SO3,R3>, R3} and K = 1..6, against relations that use nothing of the spline code:
//   continuity   value / velocity / acceleration of order <= min(K-1,2) agree from both sides of every interior knot
//   derivatives  velocity = body derivative of the value, acceleration = derivative of velocity (central differences)
//   locality     moving control point j leaves all outputs outside knot intervals j-K..j bit-identical
//   constants    equal control points: constant curve, zero velocity and acceleration
//   equivariance control points h*g_i: curve h*g(t), same body velocity / acceleration
//   end values   t < t_min returns the outputs at t_min, t > t_max those at t_max; t_min/t_max formulas
// All random choices derive from VERIF_SEED.  One JSON report line (hcommon.hpp Report).
#include <cmath>
#include <limits>
#include <string>
#include <vector>

#include <smooth/bundle.hpp>
#include <smooth/se2.hpp>
#include <smooth/se3.hpp>
#include <smooth/so3.hpp>
#include <smooth/spline/bspline.hpp>

#include "hcommon.hpp"

using hv::Report;
using hv::Rng;

template<class G>
using Tan = Eigen::Matrix<double, smooth::Dof<G>, 1>;

template<class G>
Tan<G> rand_tangent(Rng & r, double mag)
{
  Tan<G> v;
  for (int i = 0; i < v.size(); ++i) v(i) = r.sym();
  const double n = v.norm();
  if (n > 0) v *= mag * r.uni() / n * std::sqrt(static_cast<double>(v.size()));
  // keep every rotation block well inside the injectivity radius: scale so that |v|_inf <= mag
  const double mx = v.cwiseAbs().maxCoeff();
  if (mx > mag) v *= mag / mx;
  return v;
}

template<class G>
double dist(const G & a, const G & b)
{
  return smooth::rminus(a, b).norm();
}

template<class G>
struct Out
{
  G g;
  Tan<G> v, a;
};

template<int K, class G>
Out<G> ev(const smooth::BSpline<K, G> & s, double t)
{
  Out<G> o;
  // the outputs are pre-filled with NaN: an output that the library does not write (or only scales) is then visible
  o.v.setConstant(std::numeric_limits<double>::quiet_NaN());
  o.a.setConstant(std::numeric_limits<double>::quiet_NaN());
  o.g = s(t, o.v, o.a);
  return o;
}

template<class G>
bool bit_equal(const Out<G> & x, const Out<G> & y)
{
  bool geq;
  if constexpr (requires { x.g.coeffs(); }) {
    geq = (x.g.coeffs().array() == y.g.coeffs().array()).all();
  } else {
    geq = (x.g.array() == y.g.array()).all();
  }
  return geq && (x.v.array() == y.v.array()).all() && (x.a.array() == y.a.array()).all();
}

static std::string jcase(const char * group, int K, int N, double t0, double dt, double t, long trial, const char * stratum)
{
  char buf[512];
  std::snprintf(buf, sizeof buf,
                "\"group\":\"%s\",\"K\":%d,\"N\":%d,\"t0\":\"%a\",\"dt\":\"%a\",\"t\":\"%a\",\"trial\":%ld,\"stratum\":\"%s\"", group, K,
                N, t0, dt, t, trial, stratum);
  return buf;
}

template<int K, class G>
void run(const char * name, Rng & r, Report & rep, int trials)
{
  using Spl = smooth::BSpline<K, G>;
  constexpr int ord = (K - 1 < 2) ? K - 1 : 2;
  for (int trial = 0; trial < trials; ++trial) {
    // ---------------- generate a spline
    const int N         = (r.below(4) == 0) ? K + 1 + r.below(30 - K) : K + 1 + r.below(8);
    const int stepkind  = r.below(4);
    const char * sk     = stepkind == 0 ? "steps_tiny" : stepkind == 1 ? "steps_moderate" : stepkind == 2 ? "steps_large" : "steps_mixed";
    const double dt     = (r.below(3) == 0) ? std::ldexp(1.0, r.below(9) - 5) : r.logu(1e-2, 1e1);
    const double t0     = (r.below(3) == 0) ? 0.0 : (r.below(2) ? r.sym() * 10 : static_cast<double>(r.below(9) - 4));
    std::vector<G> c;
    c.push_back(smooth::exp<G>(rand_tangent<G>(r, 1.5)));
    for (int i = 1; i < N; ++i) {
      double mag = stepkind == 0 ? 1e-6 : stepkind == 1 ? 0.5 : stepkind == 2 ? 2.5 : (r.below(2) ? 1e-3 : 1.5);
      c.push_back(smooth::composition(c.back(), smooth::exp<G>(rand_tangent<G>(r, mag))));
    }
    Spl s(t0, dt, c);
    const double tmax = t0 + (N - K) * dt;
    ++rep.strata[std::string(name) + "/K" + std::to_string(K)];
    ++rep.strata[sk];
    double vscale = 0;
    for (int i = 1; i < N; ++i) vscale = std::max(vscale, smooth::rminus(c[i], c[i - 1]).norm());
    const double vs1 = (1 + K * vscale) / dt, vs2 = (1 + K * K * vscale * (1 + vscale)) / (dt * dt);

    // ---------------- t_min / t_max
    ++rep.evaluations;
    if (s.t_min() != t0 || std::abs(s.t_max() - tmax) > 4e-16 * (std::abs(t0) + (N - K) * dt))
      rep.fail("{\"check\":\"tmin_tmax\"," + jcase(name, K, N, t0, dt, s.t_max(), trial, sk) + "}", std::string("tmin_tmax//") + name);

    // ---------------- continuity across interior knots
    for (int rpt = 0; rpt < 3 && N - K - 1 >= 1; ++rpt) {
      const int k     = 1 + r.below(N - K - 1);
      const double tk = t0 + k * dt;
      const double tl = std::nextafter(tk, -std::numeric_limits<double>::infinity());
      const Out<G> R = ev<K, G>(s, tk), L = ev<K, G>(s, tl);
      const double dlt = 1e-7 * dt;
      const Out<G> R2 = ev<K, G>(s, tk + dlt), L2 = ev<K, G>(s, tk - dlt);
      ++rep.evaluations;
      ++rep.strata["knot_both_sides"];
      // rounding of (t - t0)/dt moves u by <= ~2^-52 (|t|+|t0|)/dt; outputs move by that times the next derivative
      const double du  = 4e-16 * (std::abs(tk) + std::abs(t0) + dt) / dt + 1e-15;
      const double e0  = dist(R.g, L.g), tol0 = 1e-9 + du * vs1 * dt * 10;
      rep.tally("continuity_value", e0);
      if (!(e0 <= tol0)) rep.fail("{\"check\":\"continuity_value\",\"err\":" + std::to_string(e0) + "," + jcase(name, K, N, t0, dt, tk, trial, sk) + "}", std::string("continuity_value//") + name);
      const double e0b = dist(R2.g, L2.g);
      if (!(e0b <= 1e-9 + 4e-7 * vs1 * dt)) rep.fail("{\"check\":\"continuity_value\",\"side\":\"delta\",\"err\":" + std::to_string(e0b) + "," + jcase(name, K, N, t0, dt, tk, trial, sk) + "}", std::string("continuity_value/delta/") + name);
      if (ord >= 1) {
        const double e1 = (R.v - L.v).norm(), tol1 = 1e-9 * vs1 + du * vs2 * dt * 10;
        rep.tally("continuity_velocity", e1 / vs1);
        if (!(e1 <= tol1)) rep.fail("{\"check\":\"continuity_velocity\",\"err\":" + std::to_string(e1) + "," + jcase(name, K, N, t0, dt, tk, trial, sk) + "}", std::string("continuity_velocity//") + name);
        const double e1b = (R2.v - L2.v).norm();
        if (!(e1b <= 1e-9 * vs1 + 4e-7 * vs2 * dt * 4)) rep.fail("{\"check\":\"continuity_velocity\",\"side\":\"delta\",\"err\":" + std::to_string(e1b) + "," + jcase(name, K, N, t0, dt, tk, trial, sk) + "}", std::string("continuity_velocity/delta/") + name);
      }
      if (ord >= 2) {
        const double vs3 = vs2 * (1 + vscale) * K / dt;
        const double e2 = (R.a - L.a).norm(), tol2 = 1e-9 * vs2 + du * vs3 * dt * 10;
        rep.tally("continuity_acceleration", e2 / vs2);
        if (!(e2 <= tol2)) rep.fail("{\"check\":\"continuity_acceleration\",\"err\":" + std::to_string(e2) + "," + jcase(name, K, N, t0, dt, tk, trial, sk) + "}", std::string("continuity_acceleration//") + name);
        const double e2b = (R2.a - L2.a).norm();
        if (!(e2b <= 1e-9 * vs2 + 4e-7 * vs3 * dt * 8)) rep.fail("{\"check\":\"continuity_acceleration\",\"side\":\"delta\",\"err\":" + std::to_string(e2b) + "," + jcase(name, K, N, t0, dt, tk, trial, sk) + "}", std::string("continuity_acceleration/delta/") + name);
      }
      if (trial == 0 && rpt == 0) {
        char b[256];
        std::snprintf(b, sizeof b, "{\"kind\":\"continuity\",%s,\"jump_value\":%.3e,\"jump_vel\":%.3e,\"jump_acc\":%.3e}",
                      jcase(name, K, N, t0, dt, tk, trial, sk).c_str(), e0, (R.v - L.v).norm(), (R.a - L.a).norm());
        if (K == 3) rep.sample(b);
      }
    }

    // ---------------- velocity / acceleration are the successive body derivatives (central differences)
    {
      const int m    = r.below(N - K);
      const double t = t0 + (m + 0.2 + 0.6 * r.uni()) * dt, h = 1e-5 * dt;
      const Out<G> C = ev<K, G>(s, t), P = ev<K, G>(s, t + h), M = ev<K, G>(s, t - h);
      const Tan<G> vfd = smooth::rminus(P.g, M.g) / (2 * h);
      const Tan<G> afd = (P.v - M.v) / (2 * h);
      ++rep.evaluations;
      ++rep.strata["finite_difference"];
      const double ev1 = (vfd - C.v).norm() / vs1, ea1 = (afd - C.a).norm() / vs2;
      rep.tally("derivative_velocity", ev1);
      rep.tally("derivative_acceleration", ea1);
      // truncation h^2 f'''/6 ~ 1e-10 * K^2 scale, cancellation 1e-16/1e-5
      if (!(ev1 <= 1e-6 * (1 + K * K * vscale * vscale)))
        rep.fail("{\"check\":\"derivative_velocity\",\"err\":" + std::to_string(ev1) + "," + jcase(name, K, N, t0, dt, t, trial, sk) + "}", std::string("derivative_velocity//") + name);
      if (!(ea1 <= 1e-6 * (1 + K * K * vscale * vscale)))
        rep.fail("{\"check\":\"derivative_acceleration\",\"err\":" + std::to_string(ea1) + "," + jcase(name, K, N, t0, dt, t, trial, sk) + "}", std::string("derivative_acceleration//") + name);
    }

    // ---------------- local support
    {
      const int j = r.below(N);
      std::vector<G> c2 = c;
      c2[j]       = smooth::composition(c[j], smooth::exp<G>(rand_tangent<G>(r, 0.7) + Tan<G>::Constant(0.05)));
      Spl s2(t0, dt, c2);
      long inside_changed = 0, inside = 0;
      for (int m = -1; m <= N - K; ++m) {
        // m = -1: before t_min (window 0), m = N-K: after t_max (window N-K-1); otherwise middle of knot interval m
        const double t = t0 + (m + 0.5) * dt;
        const int w    = m < 0 ? 0 : (m > N - K - 1 ? N - K - 1 : m);
        const Out<G> A = ev<K, G>(s, t), B = ev<K, G>(s2, t);
        ++rep.evaluations;
        if (j < w || j > w + K) {
          ++rep.strata["locality_outside_support"];
          if (!bit_equal(A, B))
            rep.fail("{\"check\":\"locality\",\"moved\":" + std::to_string(j) + ",\"interval\":" + std::to_string(m) + ","
                     + jcase(name, K, N, t0, dt, t, trial, sk) + "}", std::string("locality//") + name);
        } else {
          ++inside;
          ++rep.strata["locality_inside_support"];
          if (!bit_equal(A, B)) ++inside_changed;
        }
      }
      rep.tally("locality_inside_changed_fraction", inside ? 1.0 - static_cast<double>(inside_changed) / inside : 0.0);
    }

    // ---------------- constants
    {
      std::vector<G> cc(N, c[0]);
      Spl sc(t0, dt, cc);
      for (double f : {-1.5, 0.0, 0.37 * (N - K), static_cast<double>(N - K), N - K + 2.0}) {
        const double t = t0 + f * dt;
        const Out<G> A = ev<K, G>(sc, t);
        ++rep.evaluations;
        ++rep.strata["constants"];
        const double e = dist(A.g, c[0]) + A.v.norm() * dt + A.a.norm() * dt * dt;
        rep.tally("constants", e);
        if (!(e <= 1e-10)) rep.fail("{\"check\":\"constants\",\"err\":" + std::to_string(e) + "," + jcase(name, K, N, t0, dt, t, trial, sk) + "}", std::string("constants//") + name);
      }
    }

    // ---------------- left equivariance
    {
      const G h = smooth::exp<G>(rand_tangent<G>(r, 2.0));
      std::vector<G> ch;
      for (const auto & g : c) ch.push_back(smooth::composition(h, g));
      Spl sh(t0, dt, ch);
      for (int rpt = 0; rpt < 3; ++rpt) {
        const double t = (rpt == 0) ? t0 + (1 + r.below(std::max(1, N - K - 1))) * dt : t0 + (r.uni() * (N - K + 1) - 0.5) * dt;
        const Out<G> A = ev<K, G>(s, t), B = ev<K, G>(sh, t);
        ++rep.evaluations;
        ++rep.strata["equivariance"];
        const double e0 = dist(B.g, smooth::composition(h, A.g)), e1 = (B.v - A.v).norm() / vs1, e2 = (B.a - A.a).norm() / vs2;
        rep.tally("equivariance_value", e0);
        rep.tally("equivariance_velocity", e1);
        rep.tally("equivariance_acceleration", e2);
        if (!(e0 <= 1e-9 && e1 <= 1e-8 && e2 <= 1e-8))
          rep.fail("{\"check\":\"equivariance\",\"err\":" + std::to_string(std::max(e0, std::max(e1, e2))) + ","
                   + jcase(name, K, N, t0, dt, t, trial, sk) + "}", std::string("equivariance//") + name);
      }
    }

    // ---------------- end values outside [t_min, t_max]
    {
      // references certainly in the clamped regions; evaluation AT t_min / t_max must agree with them (t_max computed in
      // double may fall one rounding short of the last knot: closeness there, bit-equality everywhere beyond)
      const Out<G> A0 = ev<K, G>(s, t0 - 2 * dt), A1 = ev<K, G>(s, tmax + 2 * dt);
      const Out<G> M0 = ev<K, G>(s, t0), M1 = ev<K, G>(s, tmax);
      const G first_expected = A0.g;
      ++rep.evaluations;
      {
        const double e0 = dist(A0.g, M0.g) + (A0.v - M0.v).norm() / vs1 + (A0.a - M0.a).norm() / vs2;
        const double e1 = dist(A1.g, M1.g) + (A1.v - M1.v).norm() / vs1 + (A1.a - M1.a).norm() / vs2;
        const double tolm = 1e-9 + 1e-14 * (std::abs(t0) + std::abs(tmax)) / dt * (1 + vscale) * K * K;
        rep.tally("end_value_at_tmin", e0);
        rep.tally("end_value_at_tmax", e1);
        if (!(e0 <= tolm)) rep.fail("{\"check\":\"clamp_low\",\"err\":" + std::to_string(e0) + "," + jcase(name, K, N, t0, dt, t0, trial, "at_tmin") + "}", std::string("clamp_low/at_tmin/") + name);
        if (!(e1 <= tolm)) rep.fail("{\"check\":\"clamp_high\",\"err\":" + std::to_string(e1) + "," + jcase(name, K, N, t0, dt, tmax, trial, "at_tmax") + "}", std::string("clamp_high/at_tmax/") + name);
      }
      for (double f : {1e-9, 0.5, 1.0, 3.0, 1e6}) {
        const Out<G> B = ev<K, G>(s, t0 - f * dt);
        ++rep.evaluations;
        ++rep.strata["before_tmin"];
        if (!bit_equal(A0, B)) rep.fail("{\"check\":\"clamp_low\"," + jcase(name, K, N, t0, dt, t0 - f * dt, trial, "before_tmin") + "}", std::string("clamp_low//") + name);
      }
      for (double f : {0.5, 1.0, 3.0, 1e6}) {
        const double t = tmax + f * dt;
        const Out<G> B = ev<K, G>(s, t);
        ++rep.evaluations;
        ++rep.strata["after_tmax"];
        if (!bit_equal(A1, B)) rep.fail("{\"check\":\"clamp_high\"," + jcase(name, K, N, t0, dt, t, trial, "after_tmax") + "}", std::string("clamp_high//") + name);
      }
      // the end value is the documented one: g(t_max) is reached continuously from inside
      {
        const Out<G> In = ev<K, G>(s, tmax - 1e-9 * dt);
        ++rep.evaluations;
        const double e = dist(In.g, A1.g);
        if (!(e <= 1e-9 + 1e-8 * vs1 * dt)) rep.fail("{\"check\":\"end_value_continuity\",\"err\":" + std::to_string(e) + "," + jcase(name, K, N, t0, dt, tmax, trial, sk) + "}", std::string("end_value_continuity//") + name);
      }
      if (trial % 4 == 0) {
        // (values kept opaque to the optimiser: the out-of-range double->int64 cast inside the library is undefined
        //  behaviour, and a compile-time-known operand lets g++ miscompile the surrounding loop)
        static volatile double huge_pos[3] = {9.3e18, 1e30, std::numeric_limits<double>::infinity()};
        static volatile double huge_neg[2] = {-1e30, -std::numeric_limits<double>::infinity()};
        for (int q = 0; q < 3; ++q) {
          const double t = (q == 0) ? huge_pos[0] * dt + std::abs(t0) : huge_pos[q];
          const Out<G> B = ev<K, G>(s, t);
          ++rep.evaluations;
          ++rep.strata["huge_t"];
          if (!bit_equal(A1, B)) rep.fail("{\"check\":\"clamp_high\"," + jcase(name, K, N, t0, dt, t, trial, "huge_t") + "}", std::string("clamp_high/huge_t/") + name);
        }
        for (int q = 0; q < 2; ++q) {
          const double t = huge_neg[q];
          const Out<G> B = ev<K, G>(s, t);
          ++rep.evaluations;
          ++rep.strata["huge_negative_t"];
          if (!bit_equal(A0, B)) rep.fail("{\"check\":\"clamp_low\"," + jcase(name, K, N, t0, dt, t, trial, "huge_negative_t") + "}", std::string("clamp_low/huge_negative_t/") + name);
        }
      }
      (void)first_expected;
    }
  }
}

template<class G>
void run_all(const char * name, Rng & r, Report & rep, int trials)
{
  run<1, G>(name, r, rep, trials);
  run<2, G>(name, r, rep, trials);
  run<3, G>(name, r, rep, trials);
  run<4, G>(name, r, rep, trials);
  run<5, G>(name, r, rep, trials);
  run<6, G>(name, r, rep, trials);
}

int main()
{
  Rng r(hv::seed_from_env() * 0x9e3779b97f4a7c15ULL + 13);
  Report rep;
  rep.property = "C13";
  const int trials = hv::thorough() ? 600 : 60;
#ifndef C13_ONLY
  run_all<smooth::SO3d>("SO3", r, rep, trials);
  run_all<smooth::SE2d>("SE2", r, rep, trials);
  run_all<smooth::SE3d>("SE3", r, rep, trials);
  run_all<smooth::Bundle<smooth::SO3d, Eigen::Vector3d>>("Bundle_SO3_R3", r, rep, trials);
  run_all<Eigen::Vector3d>("R3", r, rep, trials);
#else
  run_all<C13_ONLY>("only", r, rep, trials);
#endif
  rep.print();
  return 0;
}
