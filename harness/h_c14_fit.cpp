// C14 harness 2: fit_spline on the REAL library, on SO3 / SE2 / SE3 / R^3 / R data.
// For every fitted spline it checks, against oracles that do not use the Spline evaluation code:
//   interp_left   : the left limit at every data time, g0_i * exp(v_1) ... exp(v_K)  (cumulative basis at u=1), equals g_{i+1}
//   interp_right  : the stored start of segment i+1 equals g_{i+1}; spline(t_i) through the public API equals g_i
//   vel_cont      : (K>=3) body velocity at the end of segment i, K v_K/dt_i, equals the one at the start of
//                   segment i+1, K v_1/dt_{i+1}
//   rest_boundary : specs with a zero first-derivative boundary condition start and end at rest
//   ends_untouched: (K>2) first and last control velocities are exactly the differences of fit_spline_1d's output
//                   (the fix-up by log only changes the middle one)  -- model: Model/C14_Misc.v fixup
//   api_eval      : value / velocity through spline(t, vel) at t_i^+ and t_{i+1}^- agree with the above
// usage: h_c14_fit   (one-line JSON report on stdout)
#include <algorithm>
#include <cmath>
#include <cstdio>
#include <string>
#include <vector>

#include <complex>
#include <sstream>
#include <ranges>
#include <numeric>
#include <Eigen/Core>
#include <Eigen/Sparse>
#include <Eigen/SparseCholesky>
#include <Eigen/SparseLU>
#include "hcommon.hpp"
#include <smooth/se2.hpp>
#include <smooth/se3.hpp>
#include <smooth/so3.hpp>
#include <smooth/optim.hpp>
#include <smooth/spline/cumulative_spline.hpp>
#include <smooth/polynomial/basis.hpp>
// read the private segment data of Spline (no source change): only smooth/spline/spline.hpp is seen with `private` redefined
#define private public
#include <smooth/spline/spline.hpp>
#undef private
#include <smooth/spline/fit.hpp>

using namespace smooth;

static hv::Report rep;

template<class G>
static double gdist(const G & a, const G & b)
{
  return rminus(a, b).norm();
}

template<class G>
struct GName;
template<>
struct GName<SO3d> { static constexpr const char * v = "SO3"; };
template<>
struct GName<SE2d> { static constexpr const char * v = "SE2"; };
template<>
struct GName<SE3d> { static constexpr const char * v = "SE3"; };
template<>
struct GName<Eigen::Vector3d> { static constexpr const char * v = "R3"; };
template<>
struct GName<double> { static constexpr const char * v = "R1"; };

template<class G>
static Tangent<G> rand_step(hv::Rng & r, double lin)
{
  Tangent<G> v;
  for (int i = 0; i < v.size(); ++i) v(i) = lin * r.sym();
  if constexpr (std::is_same_v<G, SO3d>) {
    v *= (2.5 / std::sqrt(3.0)) / lin;  // |w| <= 2.5 < pi
  } else if constexpr (std::is_same_v<G, SE2d>) {
    v(2) = 2.5 * r.sym();
  } else if constexpr (std::is_same_v<G, SE3d>) {
    for (int i = 3; i < 6; ++i) v(i) = (2.5 / std::sqrt(3.0)) * r.sym();
  }
  return v;
}

template<class SS, class G>
static void one(hv::Rng & rng, const char * specname, const char * family, bool rest_left, bool rest_right, int caseid)
{
  constexpr int K = SS::Degree;
  const double rho = std::string(family) == "MinDerivative" ? 10.0 : 1e3;
  int N            = 2 + (rng.below(3) == 0 ? rng.below(39) : rng.below(8));  // points 2..40
  double base;
  const char * lvl;
  switch (rng.below(4)) {
  case 0: base = rng.logu(1e-2, 0.1), lvl = "dt<0.1"; break;
  case 1: base = rng.logu(0.1, 1), lvl = "dt<1"; break;
  case 2: base = rng.logu(1, 10), lvl = "dt<10"; break;
  default: base = rng.logu(10, 100), lvl = "dt<100";
  }
  int pk = rng.below(3);
  std::vector<double> ts(N);
  std::vector<G> gs(N);
  ts[0]      = rng.sym() * 10;
  double cur = base;
  const double lin = rng.below(3) == 0 ? 1e2 : 1.0;
  if constexpr (std::is_same_v<G, double>) {
    gs[0] = rng.sym();
  } else {
    gs[0] = G(::smooth::exp<G>(rand_step<G>(rng, 1.0)));
  }
  double dt_min = 1e300;
  for (int i = 1; i < N; ++i) {
    if (i > 1) {
      double r   = pk == 0 ? 1.0 : pk == 1 ? rng.logu(0.5, 2) : rng.logu(1 / rho, rho);
      double nxt = cur * r;
      if (nxt > 1e2 || nxt < 1e-2) nxt = cur / r;
      if (nxt > 1e2 || nxt < 1e-2) nxt = cur;
      cur = nxt;
    }
    ts[i]  = ts[i - 1] + cur;
    dt_min = std::min(dt_min, ts[i] - ts[i - 1]);
    gs[i]  = rplus(gs[i - 1], rand_step<G>(rng, lin));
  }
  SS ss;
  auto spl = fit_spline(ts, gs, ss);
  ++rep.evaluations;
  ++rep.strata[std::string(GName<G>::v) + "/" + family + "/" + lvl];

  const double gscale = 1.0 + lin;
  auto failrec        = [&](const char * check, int i, double err, double tol) {
    char buf[600], ebuf[40];
    if (std::isfinite(err)) std::snprintf(ebuf, sizeof ebuf, "%.3e", err);
    else std::snprintf(ebuf, sizeof ebuf, "\"non-finite\"");
    std::snprintf(buf, sizeof buf,
      "{\"check\":\"%s\",\"group\":\"%s\",\"spec\":\"%s\",\"family\":\"%s\",\"case\":%d,\"N\":%d,\"segment\":%d,\"dt_min\":%.6g,"
      "\"err\":%s,\"tol\":%.3e,\"seed_case\":\"fit:%d\"}",
      check, GName<G>::v, specname, family, caseid, N, i, dt_min, ebuf, tol, caseid);
    rep.fail(buf, std::string(check) + "/" + family, dt_min);
  };
  if ((int)spl.m_end_t.size() != N - 1) {
    failrec("segment_count", -1, (double)spl.m_end_t.size(), N - 1);
    return;
  }
  // the coefficient vectors fit_spline_1d returns for each coordinate (same call as fit_impl.hpp:263-266)
  std::vector<double> dts(N - 1);
  for (int i = 0; i + 1 < N; ++i) dts[i] = ts[i + 1] - ts[i];
  Eigen::Matrix<double, Dof<G>, -1> V(Dof<G>, (N - 1) * (K + 1));
  for (int k = 0; k < Dof<G>; ++k) {
    std::vector<double> dxs(N - 1);
    for (int i = 0; i + 1 < N; ++i) dxs[i] = rminus(gs[i + 1], gs[i])(k);
    V.row(k) = fit_spline_1d(dts, dxs, detail::splinespec_project(ss, k));
  }
  double tprev = 0;
  for (int i = 0; i + 1 < N; ++i) {
    const double T = spl.m_end_t[i] - tprev;
    tprev          = spl.m_end_t[i];
    const G g0     = i == 0 ? spl.m_g0 : spl.m_end_g[i - 1];
    // segment durations / starts
    rep.tally("seg_duration", std::abs(T - dts[i]) / dts[i]);
    if (std::abs(T - dts[i]) > 1e-9 * std::max(1.0, std::abs(ts[i]) + dts[i])) failrec("seg_duration", i, std::abs(T - dts[i]), 1e-9);
    double e0 = gdist(g0, gs[i]);
    rep.tally("interp_right", e0);
    if (!(e0 <= 1e-9 * gscale)) failrec("interp_right", i, e0, 1e-9 * gscale);
    // left limit at t_{i+1}: product of exps
    G acc = g0;
    for (int k = 0; k < K; ++k) acc = composition(acc, ::smooth::exp<G>(spl.m_Vs[i].col(k)));
    double e1 = gdist(acc, gs[i + 1]);
    rep.tally("interp_left", e1);
    const double tol_left = 1e-8 * gscale;
    if (!(e1 <= tol_left)) failrec("interp_left", i, e1, tol_left);
    if constexpr (K > 2) {
      // ends untouched by the fix-up
      Eigen::Matrix<double, Dof<G>, 1> c0 = V.col(i * (K + 1) + 1) - V.col(i * (K + 1));
      Eigen::Matrix<double, Dof<G>, 1> cl = V.col(i * (K + 1) + K) - V.col(i * (K + 1) + K - 1);
      double eu = std::max((c0 - spl.m_Vs[i].col(0)).norm(), (cl - spl.m_Vs[i].col(K - 1)).norm());
      rep.tally("ends_untouched", eu);
      if (eu != 0) failrec("ends_untouched", i, eu, 0);
    }
    if constexpr (K >= 3) {
      if (i + 2 < N) {
        const double Tn                     = spl.m_end_t[i + 1] - spl.m_end_t[i];
        Eigen::Matrix<double, Dof<G>, 1> va = K * spl.m_Vs[i].col(K - 1) / T;
        Eigen::Matrix<double, Dof<G>, 1> vb = K * spl.m_Vs[i + 1].col(0) / Tn;
        double sc = std::max({va.norm(), vb.norm(), gscale / std::max(T, Tn)});
        double ev = (va - vb).norm() / sc;
        rep.tally("vel_cont", ev);
        if (!(ev <= 1e-6)) failrec("vel_cont", i, ev, 1e-6);
      }
    }
  }
  // boundary at rest
  if (rest_left) {
    double v  = (K * spl.m_Vs[0].col(0) / dts[0]).norm();
    double sc = gscale / dts[0];
    rep.tally("rest_boundary", v / sc);
    if (!(v <= 1e-6 * sc)) failrec("rest_boundary", 0, v / sc, 1e-6);
  }
  if (rest_right) {
    double v  = (K * spl.m_Vs[N - 2].col(K - 1) / dts[N - 2]).norm();
    double sc = gscale / dts[N - 2];
    rep.tally("rest_boundary", v / sc);
    if (!(v <= 1e-6 * sc)) failrec("rest_boundary", N - 2, v / sc, 1e-6);
  }
  // public API at the data times (spline time starts at 0)
  for (int i = 0; i < N; ++i) {
    const double t = ts[i] - ts[0];
    Tangent<G> vel;
    G g      = spl(t, vel);
    double e = gdist(g, gs[i]);
    rep.tally("api_value_at_knot", e);
    // the API may evaluate the knot from the left segment: tolerance as interp_left
    if (!(e <= 1e-7 * gscale)) failrec(i == 0 ? "interp_right" : "interp_left", i - 1, e, 1e-7 * gscale);
  }
  if (rep.samples.size() < 3) {
    char buf[300];
    std::snprintf(buf, sizeof buf, "{\"harness\":\"fit\",\"group\":\"%s\",\"spec\":\"%s\",\"N\":%d,\"t0\":%.6g,\"dt0\":%.6g,\"dt_min\":%.6g}",
                  GName<G>::v, specname, N, ts[0], dts[0], dt_min);
    rep.sample(buf);
  }
}

template<class G>
static void all_specs(hv::Rng & rng, int & caseid, int reps)
{
  for (int r = 0; r < reps; ++r) {
    one<spline_specs::PiecewiseLinear<G>, G>(rng, "PiecewiseLinear", "interpolating", false, false, caseid++);
    one<spline_specs::FixedDerCubic<G, 2, 2>, G>(rng, "FixedDerCubic<2,2>", "interpolating", false, false, caseid++);
    one<spline_specs::FixedDerCubic<G, 1, 1>, G>(rng, "FixedDerCubic<1,1>", "interpolating", true, true, caseid++);
    one<spline_specs::FixedDerCubic<G, 1, 2>, G>(rng, "FixedDerCubic<1,2>", "interpolating", true, false, caseid++);
    one<spline_specs::MinDerivative<G, 5, 3, 3>, G>(rng, "MinDerivative<5,3,3>", "MinDerivative", true, true, caseid++);
    one<spline_specs::MinDerivative<G, 6, 3, 3>, G>(rng, "MinDerivative<6,3,3>", "MinDerivative", true, true, caseid++);
  }
}

int main()
{
  hv::Rng rng(hv::seed_from_env() * 104729 + 1414);
  rep.property = "C14-fit_spline";
  int caseid   = 0;
  const int reps = hv::thorough() ? 40 : 5;
  all_specs<SO3d>(rng, caseid, reps);
  all_specs<SE2d>(rng, caseid, reps);
  all_specs<SE3d>(rng, caseid, reps);
  all_specs<Eigen::Vector3d>(rng, caseid, reps);
  all_specs<double>(rng, caseid, reps);
  rep.print();
  return 0;
}
