// C14 harness 1: fit_spline_1d on the REAL library.
//  * generates (spec, dt, dx, boundary values) cases from VERIF_SEED, stratified over the sampling interval
//    (1e-2..1e2), the neighbouring-interval ratio (up to 1e3 interpolating / 10 MinDerivative) and the data scale;
//  * runs smooth::fit_spline_1d and writes  F1D  lines (exact hex-float inputs + returned coefficient vector) for
//    the extracted exact-Q model (extract/C14/driver.ml evaluates the model's constraint residual A x - b);
//  * independently of both the library's basis code and the model, evaluates every constraint of the property
//    (p_i(0)=0, p_i(dt_i)=dx_i, derivative continuity, boundary derivatives) by finite differences of the Bernstein
//    coefficients in long double and writes  ORC  lines (same row order as the code assembles A).
// usage: h_c14_fit1d <out-file>      (prints a one-line JSON summary on stdout)
#include <algorithm>
#include <cmath>
#include <cstdio>
#include <string>
#include <vector>

#include <smooth/spline/fit.hpp>

#include "hcommon.hpp"

using namespace smooth;
using hv::ld;

struct Case
{
  int spec;
  std::vector<double> dt, dx, lv, rv;
  std::string stratum;
};

template<class SS>
static Eigen::VectorXd run_spec(const Case & c)
{
  SS ss;
  for (size_t i = 0; i < c.lv.size(); ++i) ss.left_values[i](0) = c.lv[i];
  for (size_t i = 0; i < c.rv.size(); ++i) ss.rght_values[i](0) = c.rv[i];
  return fit_spline_1d(c.dt, c.dx, ss);
}

struct SpecInfo
{
  int K, inn;
  std::vector<int> left, right;
  bool opt;
  const char * name;
  const char * family;
};
static const SpecInfo SPECS[7] = {
  {1, 0, {}, {}, false, "PiecewiseLinear", "interpolating"},
  {3, 2, {1}, {1}, false, "FixedDerCubic<1,1>", "interpolating"},
  {3, 2, {2}, {2}, false, "FixedDerCubic<2,2>", "interpolating"},
  {3, 2, {1}, {2}, false, "FixedDerCubic<1,2>", "interpolating"},
  {3, 2, {2}, {1}, false, "FixedDerCubic<2,1>", "interpolating"},
  {5, 3, {1, 2}, {1, 2}, true, "MinDerivative<5,3,3>", "MinDerivative"},
  {6, 3, {1, 2}, {1, 2}, true, "MinDerivative<6,3,3>", "MinDerivative"},
};

static Eigen::VectorXd run(const Case & c)
{
  switch (c.spec) {
  case 0: return run_spec<spline_specs::PiecewiseLinear<double>>(c);
  case 1: return run_spec<spline_specs::FixedDerCubic<double, 1, 1>>(c);
  case 2: return run_spec<spline_specs::FixedDerCubic<double, 2, 2>>(c);
  case 3: return run_spec<spline_specs::FixedDerCubic<double, 1, 2>>(c);
  case 4: return run_spec<spline_specs::FixedDerCubic<double, 2, 1>>(c);
  case 5: return run_spec<spline_specs::MinDerivative<double, 5, 3, 3>>(c);
  default: return run_spec<spline_specs::MinDerivative<double, 6, 3, 3>>(c);
  }
}

// d-th u-derivative of the Bernstein-form polynomial with coefficients c[0..K] at u=0 (end=false) or u=1 (end=true):
// K!/(K-d)! * (d-th forward difference at 0 / backward difference at K).  Independent of smooth's basis matrices.
static ld bern_deriv(const ld * c, int K, int d, bool end)
{
  std::vector<ld> w(c, c + K + 1);
  for (int r = 0; r < d; ++r)
    for (int j = 0; j + 1 < (int)w.size() - r; ++j) w[j] = w[j + 1] - w[j];
  // after d rounds w[j] = Delta^d c_j for j = 0..K-d
  ld fac = 1;
  for (int j = 0; j < d; ++j) fac *= (K - j);
  return fac * (end ? w[K - d] : w[0]);
}

static std::vector<ld> oracle_residuals(const Case & c, const Eigen::VectorXd & x)
{
  const SpecInfo & S = SPECS[c.spec];
  const int K        = S.K;
  const size_t N     = std::min(c.dt.size(), c.dx.size());
  std::vector<std::vector<ld>> blk(N, std::vector<ld>(K + 1));
  for (size_t i = 0; i < N; ++i)
    for (int j = 0; j <= K; ++j) blk[i][j] = x(i * (K + 1) + j);
  std::vector<ld> r;
  for (size_t i = 0; i < S.left.size(); ++i) r.push_back(bern_deriv(blk[0].data(), K, S.left[i], false) - (ld)c.lv[i]);
  for (size_t i = 0; i < N; ++i) {
    r.push_back(blk[i][0]);
    if (S.inn >= 0) r.push_back(blk[i][K] - (ld)c.dx[i]);
  }
  for (size_t k = 0; k + 1 < N; ++k)
    for (int d = 1; d <= S.inn; ++d) {
      ld a = bern_deriv(blk[k].data(), K, d, true) / std::pow((ld)c.dt[k], d);
      ld b = bern_deriv(blk[k + 1].data(), K, d, false) / std::pow((ld)c.dt[k + 1], d);
      r.push_back(a - b);
    }
  for (size_t i = 0; i < S.right.size(); ++i)
    r.push_back(bern_deriv(blk[N - 1].data(), K, S.right[i], true) - (ld)c.rv[i]);
  return r;
}

int main(int argc, char ** argv)
{
  if (argc < 2) return 2;
  FILE * out = std::fopen(argv[1], "w");
  if (!out) return 3;
  hv::Rng rng(hv::seed_from_env() * 7919 + 14);
  const int ncases = hv::thorough() ? 3000 : 360;
  hv::Report rep;
  rep.property = "C14-fit1d";

  for (int ci = 0; ci < ncases; ++ci) {
    Case c;
    c.spec             = ci % 7;
    const SpecInfo & S = SPECS[c.spec];
    const double rho   = S.opt ? 10.0 : 1e3;
    // number of points 2..40 (so 1..39 intervals), small sizes over-represented
    int N = 1;
    switch (rng.below(4)) {
    case 0: N = 1 + rng.below(3); break;
    case 1: N = 1 + rng.below(10); break;
    case 2: N = 39; break;
    default: N = 1 + rng.below(39);
    }
    // sampling interval level
    double base;
    const char * lvl;
    switch (rng.below(5)) {
    case 0: base = rng.logu(1e-2, 3e-2), lvl = "dt~1e-2"; break;
    case 1: base = rng.logu(3e-2, 0.3), lvl = "dt~1e-1"; break;
    case 2: base = rng.logu(0.3, 3), lvl = "dt~1"; break;
    case 3: base = rng.logu(3, 30), lvl = "dt~10"; break;
    default: base = rng.logu(30, 100), lvl = "dt~100";
    }
    const char * pat;
    int pk = rng.below(4);
    c.dt.resize(N);
    double cur = base;
    for (int i = 0; i < N; ++i) {
      if (i > 0) {
        double r = 1;
        if (pk == 0) r = 1, pat = "uniform";
        else if (pk == 1) r = rng.logu(0.5, 2.0);
        else if (pk == 2) r = (i % 2) ? rho : 1 / rho;           // extreme alternating ratio
        else r = rng.logu(1 / rho, rho);
        double nxt = cur * r;
        // stay inside [1e-2, 1e2] by reflecting the ratio
        if (nxt > 1e2 || nxt < 1e-2) nxt = cur / r;
        if (nxt > 1e2 || nxt < 1e-2) nxt = cur;
        cur = nxt;
      }
      c.dt[i] = cur;
    }
    pat = pk == 0 ? "uniform" : pk == 1 ? "ratio<=2" : pk == 2 ? "ratio=max-alternating" : "ratio-random";
    double scale = 1;
    switch (rng.below(4)) {
    case 0: scale = 1e-3; break;
    case 1: scale = 1e3; break;
    default: scale = 1;
    }
    c.dx.resize(N);
    for (int i = 0; i < N; ++i) c.dx[i] = rng.below(8) == 0 ? 0.0 : scale * rng.sym();
    c.lv.assign(S.left.size(), 0.0);
    c.rv.assign(S.right.size(), 0.0);
    bool nzb = rng.below(4) == 0;
    if (nzb) {
      for (auto & v : c.lv) v = scale * rng.sym();
      for (auto & v : c.rv) v = scale * rng.sym();
    }
    Eigen::VectorXd x = run(c);
    std::vector<ld> r = oracle_residuals(c, x);

    const double dt_min = *std::min_element(c.dt.begin(), c.dt.end());
    const double dt_max = *std::max_element(c.dt.begin(), c.dt.end());
    double ratio        = 1;
    for (int i = 0; i + 1 < N; ++i) ratio = std::max({ratio, c.dt[i] / c.dt[i + 1], c.dt[i + 1] / c.dt[i]});

    std::fprintf(out, "F1D %d %d %d", ci, c.spec, N);
    for (double v : c.dt) std::fprintf(out, " %a", v);
    for (double v : c.dx) std::fprintf(out, " %a", v);
    std::fprintf(out, " %zu", c.lv.size());
    for (double v : c.lv) std::fprintf(out, " %a", v);
    std::fprintf(out, " %zu", c.rv.size());
    for (double v : c.rv) std::fprintf(out, " %a", v);
    std::fprintf(out, " %ld", (long)x.size());
    for (Eigen::Index i = 0; i < x.size(); ++i) std::fprintf(out, " %a", x(i));
    std::fprintf(out, "\n");
    std::fprintf(out, "ORC %d %zu", ci, r.size());
    for (ld v : r) std::fprintf(out, " %a", (double)v);
    std::fprintf(out, "\n");
    std::fprintf(out,
      "META %d {\"case\":%d,\"spec\":\"%s\",\"family\":\"%s\",\"N\":%d,\"dt_min\":%.6g,\"dt_max\":%.6g,\"ratio_max\":%.6g,"
      "\"dx_scale\":%g,\"level\":\"%s\",\"pattern\":\"%s\",\"nonzero_boundary\":%s}\n",
      ci, ci, S.name, S.family, N, dt_min, dt_max, ratio, scale, lvl, pat, nzb ? "true" : "false");
    ++rep.evaluations;
    ++rep.strata[std::string(S.family) + "/" + lvl];
    ++rep.strata[std::string("pattern/") + pat];
    ++rep.strata[std::string("N/") + (N <= 3 ? "1-3" : N <= 10 ? "4-10" : N < 39 ? "11-38" : "39")];
  }
  std::fclose(out);
  rep.print();
  return 0;
}
