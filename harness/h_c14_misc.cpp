// C14 harness 3: dubins_curve, fit_bspline, reparameterize_spline on the REAL library.
//  DUB lines : the six candidate triples (detail::dubins_csc / dubins_ccc) + the selected description (detail::dubins)
//              -> compared by scripts/props_C14.py with the extracted model's dubins_select (Model/C14_Dubins.v)
//  checks    : dubins_curve<3>: end pose reached, unit speed, |curvature| <= 1/R, total length == minimum over the
//              six Dubins words computed by an INDEPENDENT oracle (classical closed-form word lengths in the
//              normalised (alpha, beta, d) coordinates, long double), segment lengths in range.
//  BSP lines : fit_bspline<3> span; model num_pts / bs_tmax (Model/C14_Misc.v)
//  LPR lines : reparameterize_spline, backward pass: every call the library makes to lp2d::solve is OBSERVED (the token
//              lp2d is redirected to a recording wrapper around the real solver while reparameterize.hpp is compiled):
//              the rows the library built, the point and status the real solver returned.  The rows are compared with
//              the model's bwd_rows (Model/C14_Reparam.v) evaluated on the spline derivatives and bounds; the solver's
//              contract (Optimal => rows satisfied) is checked on the library's own rows.
//  REP lines : v2max as the library computed it (from the observed calls), the forward-pass segments read from the
//              returned Spline<2,double> -> compared with Model/C14_Reparam.v;
//              property checks on the returned map s: non-decreasing, s(0)=t_min, s(T)=t_max, continuity at the knots,
//              s'(0) <= start_vel.
// usage: h_c14_misc <out-file>
#include <algorithm>
#include <cmath>
#include <complex>
#include <cstdio>
#include <numeric>
#include <ranges>
#include <sstream>
#include <string>
#include <vector>

#include <Eigen/Core>
#include <Eigen/Sparse>
#include <Eigen/SparseCholesky>
#include <Eigen/SparseLU>

#include "hcommon.hpp"
#include <smooth/optim.hpp>
#include <smooth/polynomial/basis.hpp>
#include <smooth/se2.hpp>
#include <smooth/so3.hpp>
#include <smooth/spline/cumulative_spline.hpp>
#define private public
#include <smooth/spline/spline.hpp>
#undef private
#include <smooth/spline/dubins.hpp>
#include <smooth/spline/fit.hpp>

// ---- observation point inside reparameterize_spline: reparameterize_impl.hpp calls lp2d::solve(-1, 0, ineq) and tests
// lp2d::Status::...; while that header is compiled the token lp2d names the wrapper below, which forwards to the real
// solver (already included, #pragma once) and records the call.  Nothing of the library is re-implemented.
#include <smooth/external/lp2d.hpp>
namespace lp2d_spy {
using Status = ::lp2d::Status;
struct Call
{
  std::vector<std::array<double, 3>> rows;
  double cx, cy, x, y;
  Status status;
};
inline std::vector<Call> calls;
template<std::ranges::range R>
inline std::tuple<double, double, Status> solve(double cx, double cy, const R & rows)
{
  const auto r = ::lp2d::solve(cx, cy, rows);
  Call c;
  for (const auto & row : rows) c.rows.push_back({row[0], row[1], row[2]});
  c.cx = cx, c.cy = cy, c.x = std::get<0>(r), c.y = std::get<1>(r), c.status = std::get<2>(r);
  calls.push_back(std::move(c));
  return r;
}
}  // namespace lp2d_spy
#define lp2d lp2d_spy
#include <smooth/spline/reparameterize.hpp>
#undef lp2d

using namespace smooth;
using hv::ld;

static hv::Report rep;
static FILE * out;

static std::string num(double v)
{
  char b[64];
  if (std::isfinite(v)) std::snprintf(b, sizeof b, "%.6g", v);
  else std::snprintf(b, sizeof b, "\"non-finite\"");
  return b;
}

static std::string hexs(double v)
{
  char b[64];
  std::snprintf(b, sizeof b, "%a", v);
  return b;
}

// ------------------------------------------------------------------------------------------------ Dubins oracle
// classical word lengths (in units of R) for start (0,0,alpha) -> (d,0,beta); independent of smooth's construction
static ld mod2pi(ld x)
{
  const ld tp = 2 * M_PIl;
  x           = std::fmod(x, tp);
  if (x < 0) x += tp;
  // an arc of 2*pi - tiny is geometrically an arc of (almost) zero length reached from the other side: the shortest
  // realisation of the word uses 0, so the lower envelope is what the minimum-length oracle needs
  if (x > tp - 1e-9L) x = 0;
  return x;
}
static ld dubins_oracle(ld x, ld y, ld th, ld R, int * which = nullptr)
{
  const ld D  = std::hypot(x, y) / R;
  const ld ph = std::atan2(y, x);
  const ld a = mod2pi(-ph), b = mod2pi(th - ph);
  const ld sa = std::sin(a), sb = std::sin(b), ca = std::cos(a), cb = std::cos(b), cab = std::cos(a - b);
  ld best = INFINITY;
  auto upd = [&](ld v, int w) {
    if (std::isfinite(v) && v < best) {
      best = v;
      if (which) *which = w;
    }
  };
  {  // LSL
    ld p2 = 2 + D * D - 2 * cab + 2 * D * (sa - sb);
    if (p2 >= -1e-12L) {
      p2     = std::max(p2, 0.0L);
      ld tmp = std::atan2(cb - ca, D + sa - sb);
      if (p2 < 1e-16L) upd(mod2pi(b - a), 0);  // same circle: the direction of the (zero-length) tangent is undefined
      else upd(mod2pi(-a + tmp) + std::sqrt(p2) + mod2pi(b - tmp), 0);
    }
  }
  {  // RSR
    ld p2 = 2 + D * D - 2 * cab + 2 * D * (sb - sa);
    if (p2 >= -1e-12L) {
      p2     = std::max(p2, 0.0L);
      ld tmp = std::atan2(ca - cb, D - sa + sb);
      if (p2 < 1e-16L) upd(mod2pi(a - b), 3);
      else upd(mod2pi(a - tmp) + std::sqrt(p2) + mod2pi(-b + tmp), 3);
    }
  }
  {  // LSR
    ld p2 = -2 + D * D + 2 * cab + 2 * D * (sa + sb);
    if (p2 >= -1e-12L) {
      ld p   = std::sqrt(std::max(p2, 0.0L));
      ld tmp = std::atan2(-ca - cb, D + sa + sb) - std::atan2(-2.0L, p);
      upd(mod2pi(-a + tmp) + p + mod2pi(-mod2pi(b) + tmp), 1);
    }
  }
  {  // RSL
    ld p2 = D * D - 2 + 2 * cab - 2 * D * (sa + sb);
    if (p2 >= -1e-12L) {
      ld p   = std::sqrt(std::max(p2, 0.0L));
      ld tmp = std::atan2(ca + cb, D - sa - sb) - std::atan2(2.0L, p);
      upd(mod2pi(a - tmp) + p + mod2pi(b - tmp), 2);
    }
  }
  {  // RLR
    ld tmp = (6 - D * D + 2 * cab + 2 * D * (sa - sb)) / 8;
    if (std::abs(tmp) <= 1 + 1e-12L) {
      tmp  = std::clamp(tmp, -1.0L, 1.0L);
      ld p = mod2pi(2 * M_PIl - std::acos(tmp));
      ld t = mod2pi(a - std::atan2(ca - cb, D - sa + sb) + p / 2);
      upd(t + p + mod2pi(a - b - t + p), 4);
    }
  }
  {  // LRL
    ld tmp = (6 - D * D + 2 * cab + 2 * D * (sb - sa)) / 8;
    if (std::abs(tmp) <= 1 + 1e-12L) {
      tmp  = std::clamp(tmp, -1.0L, 1.0L);
      ld p = mod2pi(2 * M_PIl - std::acos(tmp));
      ld t = mod2pi(-a - std::atan2(ca - cb, D + sa - sb) + p / 2);
      upd(t + p + mod2pi(mod2pi(b) - a - t + mod2pi(p)), 5);
    }
  }
  return best * R;
}

static void cand_print(const std::array<double, 3> & c)
{
  if (std::isinf(c[0]) || std::isinf(c[1]) || std::isinf(c[2])) std::fprintf(out, " inf");
  else std::fprintf(out, " %a %a %a", c[0], c[1], c[2]);
}

template<int K>
static void dubins_case(int id, double x, double y, double th, double R, const char * stratum)
{
  using detail::DubinsSegment;
  const SE2d target(SO2d(th), Eigen::Vector2d(x, y));
  ++rep.evaluations;
  ++rep.strata[std::string("dubins/") + stratum + (K == 3 ? "" : "/K!=3")];
  auto failrec = [&](const char * check, double err, double tol) {
    char buf[500];
    std::snprintf(buf, sizeof buf,
      "{\"check\":\"%s\",\"K\":%d,\"case\":%d,\"x\":%.17g,\"y\":%.17g,\"theta\":%.17g,\"R\":%.17g,\"stratum\":\"%s\",\"err\":%s,\"tol\":%.3e}",
      check, K, id, x, y, th, R, stratum, num(err).c_str(), tol);
    rep.fail(buf, std::string(check) + (K == 3 ? "" : "/K!=3"), R);
  };
  if constexpr (K == 3) {
    // model correspondence input: candidates in code order LSL LSR RSL RSR RLR LRL
    std::fprintf(out, "DUB %d %a", id, R);
    cand_print(detail::dubins_csc(target, R, DubinsSegment::Left, DubinsSegment::Left));
    cand_print(detail::dubins_csc(target, R, DubinsSegment::Left, DubinsSegment::Right));
    cand_print(detail::dubins_csc(target, R, DubinsSegment::Right, DubinsSegment::Left));
    cand_print(detail::dubins_csc(target, R, DubinsSegment::Right, DubinsSegment::Right));
    cand_print(detail::dubins_ccc(target, R, DubinsSegment::Right, DubinsSegment::Left));
    cand_print(detail::dubins_ccc(target, R, DubinsSegment::Left, DubinsSegment::Right));
    std::fprintf(out, "\n");
    const auto desc = detail::dubins(target, R);
    std::fprintf(out, "DUBIMPL %d", id);
    double len = 0;
    for (int i = 0; i < 3; ++i) {
      const char * nm = desc[i].first == DubinsSegment::Left ? "L" : desc[i].first == DubinsSegment::Right ? "R" : "S";
      std::fprintf(out, " %s %a", nm, desc[i].second);
      const double l = desc[i].second;
      len += desc[i].first == DubinsSegment::Straight ? l : R * l;
      // segment lengths in range
      if (desc[i].first == DubinsSegment::Straight) {
        if (!(l >= -1e-9 * (1 + std::hypot(x, y)))) failrec("dubins_seg_range", l, 0);
      } else {
        if (!(l >= 0 && l < 2 * M_PI + 1e-12)) failrec("dubins_seg_range", l, 0);
      }
    }
    std::fprintf(out, "\n");
    (void)len;
  }
  const auto spl  = dubins_curve<K>(target, R);
  const double sc = 1 + std::hypot(x, y) + R;
  // end pose
  const double e_end = rminus(spl.end(), target).norm();
  rep.tally(K == 3 ? "dubins_end_pose" : "dubins_end_pose_Kne3", e_end / sc);
  if (!(e_end <= 1e-6 * sc)) failrec("dubins_end_pose", e_end / sc, 1e-6);
  // length vs independent oracle
  const ld L_or = dubins_oracle(x, y, th, R);
  const double e_len = std::abs((double)(spl.t_max() - L_or));
  rep.tally(K == 3 ? "dubins_length_vs_oracle" : "dubins_length_vs_oracle_Kne3", e_len / sc);
  if (!(e_len <= 1e-6 * sc)) failrec("dubins_min_length", e_len / sc, 1e-6);
  // unit speed and curvature at sampled times
  double worst_speed = 0, worst_curv = 0;
  const double T = spl.t_max();
  for (int k = 0; k <= 24; ++k) {
    const double t = T * (k + 0.37) / 25.0;
    Eigen::Vector3d vel;
    spl(t, vel);
    worst_speed = std::max({worst_speed, std::abs(vel(0) - 1), std::abs(vel(1))});
    worst_curv  = std::max(worst_curv, std::abs(vel(2)) - 1 / R);
  }
  if (T > 0) {
    rep.tally(K == 3 ? "dubins_unit_speed" : "dubins_unit_speed_Kne3", worst_speed);
    if (!(worst_speed <= 1e-9)) failrec("dubins_unit_speed", worst_speed, 1e-9);
    if (!(worst_curv <= 1e-9 / R)) failrec("dubins_curvature", worst_curv * R, 1e-9);
  }
  if (K == 3 && rep.samples.size() < 2) {
    char buf[300];
    std::snprintf(buf, sizeof buf, "{\"harness\":\"dubins\",\"x\":%.6g,\"y\":%.6g,\"theta\":%.6g,\"R\":%.6g,\"length\":%.9g,\"oracle\":%.9g}", x, y,
                  th, R, T, (double)L_or);
    rep.sample(buf);
  }
}

// ------------------------------------------------------------------------------------------------ reparameterize
template<class Spl>
static void reparam_case(int id, const Spl & spline, const Eigen::VectorXd & vmin, const Eigen::VectorXd & vmax, const Eigen::VectorXd & amin,
  const Eigen::VectorXd & amax, double start_vel, double end_vel, std::size_t N, const char * stratum)
{
  using G            = std::invoke_result_t<Spl, double>;
  constexpr int dof  = Dof<G>;
  constexpr double eps = 1e-8, inf = std::numeric_limits<double>::infinity();
  ++rep.evaluations;
  ++rep.strata[std::string("reparam/") + stratum];
  lp2d_spy::calls.clear();
  const auto s = reparameterize_spline(spline, vmin, vmax, amin, amax, start_vel, end_vel, N);

  auto failrec = [&](const char * check, double err, double tol, double where, const std::string & extra = "") {
    char buf[700];
    std::snprintf(buf, sizeof buf,
      "{\"check\":\"%s\",\"case\":%d,\"stratum\":\"%s\",\"N\":%zu,\"start_vel\":%.6g,\"end_vel\":%s,\"t_min\":%.6g,\"t_max\":%.6g,"
      "\"amax_min\":%.6g,\"vmax_min\":%.6g,\"at\":%.9g,\"err\":%s,\"tol\":%.3e%s}",
      check, id, stratum, N, start_vel, num(end_vel).c_str(), spline.t_min(), spline.t_max(), amax.minCoeff(), vmax.minCoeff(), where,
      num(err).c_str(), tol, extra.c_str());
    rep.fail(buf, check, amax.minCoeff());
  };

  // ---- the backward pass as the library executed it: one observed lp2d::solve call per grid point, i = N-1 .. 0
  const double s0 = spline.t_min(), sf = spline.t_max();
  const double ds = (sf - s0) / static_cast<double>(N);
  const double nan = std::numeric_limits<double>::quiet_NaN();
  std::vector<double> v2max(N + 1, nan);
  const auto & calls = lp2d_spy::calls;
  if (calls.size() != N) {
    char buf[300];
    std::snprintf(buf, sizeof buf, "{\"check\":\"reparam_lp_calls\",\"case\":%d,\"stratum\":\"%s\",\"N\":%zu,\"observed_calls\":%zu}", id, stratum, N,
                  calls.size());
    rep.fail(buf, "reparam_lp_calls", 0);
    return;
  }
  // v2max(N) (reparameterize_impl.hpp:47-65) is the right-hand side of row [1] of the first call; it is ALSO recomputed
  // here from the spline and the bounds (the only re-derivation left) and must agree
  {
    double ret = end_vel * end_vel;
    Tangent<G> vel, acc;
    spline(sf, vel, acc);
    for (int j = 0; j < dof; ++j) {
      if (vel(j) > eps) {
        ret = std::min<double>(ret, std::sqrt(vmax(j) / vel(j)));
        ret = std::min<double>(ret, amax(j) / vel(j));
      } else if (vel(j) < -eps) {
        ret = std::min<double>(ret, std::sqrt(vmin(j) / vel(j)));
        ret = std::min<double>(ret, amin(j) / vel(j));
      }
    }
    v2max[N] = ret;
  }
  bool lp_contract_ok = true, lp_tiny = false;
  std::vector<char> lp_bad(N + 1, 0);  // grid points whose LP call returned Optimal with a point violating its rows
  for (std::size_t c = 0; c < N; ++c) {
    const std::size_t ii = N - 1 - c;
    const auto & call    = calls[c];
    Tangent<G> vel, acc;
    spline(s0 + ds * ii, vel, acc);
    // LPR line: inputs of the model's bwd_rows + the rows the library really handed to lp2d + what lp2d returned.
    // ynext is v2max(i+1) as defined by the PREVIOUS observed call (:112-116), not row [1]'s own right-hand side, so
    // that the comparison also covers the assignment of v2max.
    std::fprintf(out, "LPR %d %zu %a %s %d", id, ii, ds, std::isinf(v2max[ii + 1]) ? "inf" : std::isnan(v2max[ii + 1]) ? "nan" : hexs(v2max[ii + 1]).c_str(), dof);
    for (int j = 0; j < dof; ++j) std::fprintf(out, " %a %a", vel(j), acc(j));
    for (int j = 0; j < dof; ++j) std::fprintf(out, " %a", vmin(j));
    for (int j = 0; j < dof; ++j) std::fprintf(out, " %a", vmax(j));
    for (int j = 0; j < dof; ++j) std::fprintf(out, " %a", amin(j));
    for (int j = 0; j < dof; ++j) std::fprintf(out, " %a", amax(j));
    std::fprintf(out, " ROWS %zu", call.rows.size());
    for (const auto & r : call.rows) {
      for (int k = 0; k < 3; ++k) {
        if (std::isinf(r[k])) std::fprintf(out, r[k] > 0 ? " inf" : " -inf");
        else std::fprintf(out, " %a", r[k]);
      }
    }
    std::fprintf(out, " OBJ %a %a SOL %d %a %a\n", call.cx, call.cy,
                 call.status == lp2d::Status::Optimal ? 0 : call.status == lp2d::Status::PrimaryInfeasible ? 1 : 2,
                 std::isfinite(call.x) ? call.x : 0.0, std::isfinite(call.y) ? call.y : 0.0);
    ++rep.strata["reparam/lp2d calls observed"];
    if (call.status == lp2d::Status::Optimal) {
      v2max[ii] = call.x;
      // run-time check of the external solver's contract on the library's own rows: optimal => feasible
      for (const auto & r : call.rows) {
        const double lhs = r[0] * call.x + r[1] * call.y;
        const double scl = std::abs(r[0] * call.x) + std::abs(r[1] * call.y) + std::abs(r[2]) + 1e-300;
        if (std::isfinite(r[2]) && !(lhs <= r[2] + 1e-7 * scl)) {
          lp_contract_ok = false;
          lp_bad[ii]     = 1;
          for (const auto & q : call.rows) {
            const double m = std::max(std::abs(q[0]), std::abs(q[1]));
            for (int c2 = 0; c2 < 2; ++c2)
              if (q[c2] != 0 && std::abs(q[c2]) < 1e-12 * m) lp_tiny = true;
          }
          if (std::getenv("C14_DEBUG")) {
            std::fprintf(stderr, "lp2d case %d i=%zu row (%g %g %g) y=%g a=%g lhs=%g ALLROWS", id, ii, r[0], r[1], r[2], call.x, call.y, lhs);
            for (const auto & q : call.rows) std::fprintf(stderr, " {%.17g,%.17g,%.17g},", q[0], q[1], q[2]);
            std::fprintf(stderr, "\n");
          }
        }
      }
    } else if (call.status == lp2d::Status::DualInfeasible) {
      v2max[ii] = inf;
    }  // PrimaryInfeasible: the library leaves v2max(i) unassigned (:112-116); recorded as NaN, the case gets no REP line
  }
  rep.tally("lp2d_optimal_is_feasible", lp_contract_ok ? 0 : 1);
  if (!lp_contract_ok) {
    char buf[400];
    std::snprintf(buf, sizeof buf,
      "{\"check\":\"lp2d_contract\",\"case\":%d,\"stratum\":\"%s\",\"N\":%zu,\"tiny_coeff\":%s,\"t_max\":%.6g,\"vmax_min\":%.6g,\"amax_min\":%.6g,"
      "\"lp2d_infeasible_optimum_observed\":true,\"grid_points_affected\":%d}", id,
      stratum, N, lp_tiny ? "true" : "false", spline.t_max(), vmax.minCoeff(), amax.minCoeff(), (int)std::count(lp_bad.begin(), lp_bad.end(), 1));
    rep.fail(buf, std::string("lp2d_contract/") + (lp_tiny ? "tiny_coeff" : "other"), amax.minCoeff());
  }

  // ---- REP line for the model: inputs of the forward pass + the segments of the returned spline
  bool finite_inputs = true;
  for (double v : v2max)
    if (std::isnan(v)) finite_inputs = false;
  if (finite_inputs) {
    std::fprintf(out, "REP %d %a %a %zu %a %a %d", id, s0, ds, N, start_vel, sf, dof);
    for (double v : v2max) {
      if (std::isinf(v)) std::fprintf(out, " inf");
      else std::fprintf(out, " %a", v);
    }
    for (int j = 0; j < dof; ++j) std::fprintf(out, " %a", amin(j));
    for (int j = 0; j < dof; ++j) std::fprintf(out, " %a", amax(j));
    for (std::size_t i = 0; i < N; ++i) {
      Tangent<G> vel, acc;
      spline(s0 + ds * i, vel, acc);
      for (int j = 0; j < dof; ++j) std::fprintf(out, " %a %a", vel(j), acc(j));
    }
    std::fprintf(out, "\nREPIMPL %d %zu", id, s.m_end_t.size());
    double tp = 0;
    for (std::size_t k = 0; k < s.m_end_t.size(); ++k) {
      const double g0 = k == 0 ? s.m_g0 : s.m_end_g[k - 1];
      std::fprintf(out, " %a %a %a %a", s.m_end_t[k] - tp, s.m_Vs[k](0, 0), s.m_Vs[k](0, 1), g0);
      tp = s.m_end_t[k];
    }
    std::fprintf(out, " end %a\n", s.m_end_g.empty() ? s.m_g0 : s.m_end_g.back());
  }

  if (const char * dbg = std::getenv("C14_DEBUG"); dbg && std::atoi(dbg) == id) {
    std::fprintf(stderr, "case %d ds=%g N=%zu\n", id, ds, N);
    double tp2 = 0;
    for (std::size_t k = 0; k < s.m_end_t.size(); ++k) {
      const double g0 = k == 0 ? s.m_g0 : s.m_end_g[k - 1];
      const double dtk = s.m_end_t[k] - tp2;
      const double v1 = s.m_Vs[k](0, 0), v2 = s.m_Vs[k](0, 1);
      const double vi = 2 * v1 / dtk, ve = 2 * v2 / dtk;
      std::fprintf(stderr, " seg %zu g0=%.9g dt=%.6g vi=%.6g vend=%.6g ai=%.6g end=%.9g (v2max[k]=%g)\n", k, g0, dtk, vi, ve, (ve - vi) / dtk, g0 + v1 + v2,
                   k < v2max.size() ? v2max[k] : -1.0);
      tp2 = s.m_end_t[k];
    }
  }
  // ---- the property itself on the returned map
  const double T   = s.t_max();
  const double rng = std::max(1e-300, sf - s0);
  if (!(T > 0) || !std::isfinite(T)) {
    failrec("reparam_duration", T, 0, 0);
    return;
  }
  Eigen::Matrix<double, 1, 1> d0v;
  const double sv0 = s(0., d0v);
  const double d0  = d0v(0);
  rep.tally("reparam_start_value", std::abs(sv0 - s0) / rng);
  if (!(std::abs(sv0 - s0) <= 1e-9 * (rng + std::abs(s0)))) failrec("reparam_onto_start", std::abs(sv0 - s0) / rng, 1e-9, 0);
  rep.tally("reparam_start_speed_excess", std::max(0.0, d0 - start_vel));
  if (!(d0 <= start_vel * (1 + 1e-9) + 1e-12)) failrec("reparam_start_speed", d0 - start_vel, 1e-9, 0);
  // end value: evaluated through the API at T (last segment at u=1) and the stored end
  const double svT = s(T);
  rep.tally("reparam_end_value", std::abs(svT - sf) / rng);
  if (!(std::abs(svT - sf) <= 1e-6 * (rng + std::abs(sf)))) failrec("reparam_onto_end", std::abs(svT - sf) / rng, 1e-6, T);
  // monotone: inside every segment (coefficients) and across knots (left limit <= right start), plus API sampling
  double worst_dec = 0, where = 0, worst_jump = 0, jwhere = 0;
  bool jump_clamped = false;
  long jump_grid    = -1;  // grid index i of the segment that ends at the worst jump (its g0 = s0 + ds * i)
  double tp = 0;
  for (std::size_t k = 0; k < s.m_end_t.size(); ++k) {
    const double g0 = k == 0 ? s.m_g0 : s.m_end_g[k - 1];
    const double v1 = s.m_Vs[k](0, 0), v2 = s.m_Vs[k](0, 1);
    if (!(s.m_end_t[k] - tp > 0)) {
      worst_dec = std::max(worst_dec, 1.0);
      where     = tp;
    }
    const double dec = std::max({0.0, -v1, -v2});
    if (dec > worst_dec) worst_dec = dec, where = tp;
    const double endv = g0 + v1 + v2;
    const double nxt  = k + 1 < s.m_end_t.size() ? s.m_end_g[k] : sf;
    if (endv - nxt > worst_dec) worst_dec = endv - nxt, where = s.m_end_t[k];
    if (std::abs(endv - nxt) > worst_jump) {
      worst_jump = std::abs(endv - nxt), jwhere = s.m_end_t[k];
      // end speed of the segment = 2 v2 / dt; the eps clamp of reparameterize_impl.hpp:153/:163 leaves it at sqrt(1e-8)
      const double vend = 2 * v2 / (s.m_end_t[k] - tp);
      jump_clamped      = std::abs(vend - 1e-4) < 1e-6;
      jump_grid         = std::lround((g0 - s0) / ds);
    }
    tp = s.m_end_t[k];
  }
  double prev = s(0.);
  for (int k = 1; k <= 400; ++k) {
    const double t = T * k / 400.0;
    const double v = s(t);
    if (prev - v > worst_dec) worst_dec = prev - v, where = t;
    prev = v;
  }
  rep.tally("reparam_max_decrease", worst_dec / rng);
  if (!(worst_dec <= 1e-7 * rng)) failrec("reparam_monotone", worst_dec / rng, 1e-7, where);
  rep.tally("reparam_max_knot_jump", worst_jump / rng);
  if (!(worst_jump <= 1e-6 * rng)) {
    // Theorem reparam_lp_row4_radicand_nonneg: a braking step can only be clamped from a NEGATIVE radicand when the point
    // lp2d returned for this very grid point violates the rows it was given (or row [4] is missing from the program).
    // Record whether that was observed, so that a gap with a contract-abiding solver is never attributed to lp2d.
    const bool lp_obs = jump_grid >= 0 && jump_grid < (long)N && lp_bad[(std::size_t)jump_grid];
    char ex[160];
    std::snprintf(ex, sizeof ex, ",\"grid_point\":%ld,\"lp2d_infeasible_optimum_observed\":%s", jump_grid, lp_obs ? "true" : "false");
    failrec(jump_clamped ? "reparam_continuity_eps_clamp" : "reparam_continuity", worst_jump / rng, 1e-6, jwhere, ex);
  }
  if (rep.samples.size() < 5) {
    char buf[300];
    std::snprintf(buf, sizeof buf, "{\"harness\":\"reparam\",\"stratum\":\"%s\",\"N\":%zu,\"t_min\":%.6g,\"t_max\":%.6g,\"start_vel\":%.6g,\"T\":%.6g}", stratum,
                  N, s0, sf, start_vel, T);
    rep.sample(buf);
  }
}

int main(int argc, char ** argv)
{
  if (argc < 2) return 2;
  out = std::fopen(argv[1], "w");
  if (!out) return 3;
  hv::Rng rng(hv::seed_from_env() * 15485863 + 141414);
  rep.property   = "C14-dubins-bspline-reparam";
  const bool big = hv::thorough();
  int id         = 0;

  // ------------------------------------------------------------------ Dubins: grid + boundaries + random
  {
    const double Rs[] = {1.0, 0.25, 3.0, 0.01, 40.0};
    const int ng      = big ? 9 : 5;
    for (double R : Rs) {
      for (int ix = 0; ix < ng; ++ix)
        for (int iy = 0; iy < ng; ++iy)
          for (int it = 0; it < 8; ++it) {
            if (!big && R != 1.0 && ((ix + iy + it) % 3)) continue;
            const double x = R * 6.0 * (2.0 * ix / (ng - 1) - 1), y = R * 6.0 * (2.0 * iy / (ng - 1) - 1);
            const double th = -M_PI + (it + 0.5) * (2 * M_PI / 8) * (it % 2 ? 1 : 0.999);
            dubins_case<3>(id++, x, y, th, R, "grid");
          }
      // boundaries: theta = pi  => d13(LSR/RSL) = |p| ; theta = 0 => d13(CCC) = |p|
      for (int k = 0; k < (big ? 60 : 16); ++k) {
        const double phi = 2 * M_PI * rng.uni();
        const double del = k % 4 == 0 ? 0.0 : (rng.below(2) ? 1 : -1) * rng.logu(1e-14, 1e-2);
        dubins_case<3>(id++, 2 * R * (1 + del) * std::cos(phi), 2 * R * (1 + del) * std::sin(phi), M_PI, R,
                       del == 0 ? "boundary d=2R exact (tangent circles)" : "boundary d=2R near");
        dubins_case<3>(id++, 4 * R * (1 + del) * std::cos(phi), 4 * R * (1 + del) * std::sin(phi), 0.0, R,
                       del == 0 ? "boundary d=4R exact" : "boundary d=4R near");
        // coincident circle centres (d13 < eps): pure rotation about the left / right centre
        const double a = 2 * M_PI * rng.uni() - M_PI;
        dubins_case<3>(id++, R * std::sin(a), R * (1 - std::cos(a)), a, R, "boundary d13=0 (same left circle)");
        dubins_case<3>(id++, R * std::sin(a), -R * (1 - std::cos(a)), -a, R, "boundary d13=0 (same right circle)");
      }
      for (int k = 0; k < (big ? 400 : 60); ++k) {
        const double r = R * rng.logu(1e-3, 30), phi = 2 * M_PI * rng.uni();
        dubins_case<3>(id++, r * std::cos(phi), r * std::sin(phi), M_PI * rng.sym(), R, "random");
      }
    }
    // identity target and straight-line targets
    dubins_case<3>(id++, 0, 0, 0, 1, "degenerate");
    dubins_case<3>(id++, 5, 0, 0, 1, "degenerate");
    dubins_case<3>(id++, -5, 0, 0, 1, "degenerate");
    // other spline degrees (Spline::ConstantVelocity must scale by T/K: C12's finding, fixed by 8514426; regression here)
    for (int k = 0; k < 6; ++k) {
      const double r = rng.logu(0.5, 10), phi = 2 * M_PI * rng.uni(), th = M_PI * rng.sym();
      dubins_case<2>(id++, r * std::cos(phi), r * std::sin(phi), th, 1.0, "random");
      dubins_case<4>(id++, r * std::cos(phi), r * std::sin(phi), th, 1.0, "random");
    }
  }

  // ------------------------------------------------------------------ fit_bspline span
  {
    const int nb = big ? 150 : 30;
    for (int c = 0; c < nb; ++c) {
      const int n     = 3 + rng.below(30);
      const double dt = rng.logu(1e-2, 1e1);
      std::vector<double> ts(n), gs(n);
      const int kind = rng.below(3);
      ts[0]          = kind == 0 ? 0.0 : 10 * rng.sym();
      for (int i = 1; i < n; ++i) ts[i] = ts[i - 1] + (kind == 2 ? dt * (1 + rng.below(3)) : dt * rng.logu(0.05, 3));  // kind 2: exact multiples of dt
      for (int i = 0; i < n; ++i) gs[i] = std::sin(0.3 * ts[i]) + 0.1 * rng.sym();
      ++rep.evaluations;
      {
        // NumPts (fit_impl.hpp:322, read from the library) and istar (:333, same expression in binary64): every data point
        // needs control points istar .. istar+K.  When they do not exist the library asserts (debug) or reads past
        // the control-point vector (NDEBUG); record the input instead of executing undefined behaviour.
        const double t0 = ts.front(), t1 = ts.back();
        // NumPts as the library itself computes it (public member of the objective fit_bspline builds, fit_impl.hpp:322)
        const long numpts = static_cast<long>(detail::fit_bspline_objective<3, std::vector<double> &, std::vector<double> &>(ts, gs, dt).NumPts);
        long worst        = -1;
        for (double t : ts) worst = std::max(worst, static_cast<long>((t - t0) / dt) + 3 + 1);
        if (worst > numpts) {
          char buf[300];
          std::snprintf(buf, sizeof buf,
            "{\"check\":\"bspline_ctrl_index\",\"case\":%d,\"t0\":%.17g,\"t1\":%.17g,\"dt\":%.17g,\"num_pts\":%ld,\"needed\":%ld,\"span_multiple_of_dt\":%s}", id,
            t0, t1, dt, numpts, worst, kind == 2 ? "true" : "false");
          rep.fail(buf, "bspline_ctrl_index", dt);
          ++rep.strata["bspline/index past NumPts (not executed)"];
          ++id;
          continue;
        }
      }
      const auto bs = fit_bspline<3>(ts, gs, dt);
      ++rep.strata[std::string("bspline/") + (kind == 2 ? "span multiple of dt" : "generic")];
      std::fprintf(out, "BSP %d 3 %a %a %a\n", id, ts.front(), ts.back(), dt);
      std::fprintf(out, "BSPIMPL %d %zu %a %a\n", id, bs.ctrl_pts().size(), bs.t_min(), bs.t_max());
      const double tol = 1e-12 * (std::abs(ts.back()) + std::abs(ts.front()) + dt);
      const double e   = std::max(bs.t_min() - ts.front(), ts.back() - bs.t_max());
      rep.tally("bspline_span_violation", std::max(0.0, e));
      if (!(e <= tol)) {
        char buf[300];
        std::snprintf(buf, sizeof buf, "{\"check\":\"bspline_span\",\"case\":%d,\"t0\":%.17g,\"t1\":%.17g,\"dt\":%.17g,\"t_min\":%.17g,\"t_max\":%.17g}", id,
                      ts.front(), ts.back(), dt, bs.t_min(), bs.t_max());
        rep.fail(buf, "bspline_span", dt);
      }
      ++id;
    }
  }

  // ------------------------------------------------------------------ fit_bspline: control-point index arithmetic only
  // Dense stream on the region where binary64 rounding decides (span an exact or near multiple of dt): NumPts as the
  // library computes it (fit_impl.hpp:322, read from the objective fit_bspline builds) against the library's istar
  // expression (:333) for every data time.  No optimisation is run, so thousands of cases are cheap.
  {
    const int na = big ? 40000 : 6000;
    static const double nice_dt[] = {0.1, 0.01, 0.05, 0.2, 0.3, 0.7, 1e-3, 1.0 / 3, 0.25, 1.1, 2.5, 0.15};
    for (int c = 0; c < na; ++c) {
      const int n     = 2 + rng.below(40);
      const double dt = rng.below(2) ? nice_dt[rng.below(12)] : rng.logu(1e-3, 1e1);
      const int kind  = rng.below(3);
      std::vector<double> ts(n), gs(n, 0.0);
      ts[0] = rng.below(2) ? 0.0 : (rng.below(2) ? 10 * rng.sym() : std::floor(100 * rng.sym()) * dt);
      int kacc = 0;
      for (int i = 1; i < n; ++i) {
        const int step = 1 + rng.below(3);
        kacc += step;
        if (kind == 0) ts[i] = ts[i - 1] + dt * step;          // accumulated sums of multiples of dt
        else if (kind == 1) ts[i] = ts[0] + kacc * dt;         // t0 + k*dt rounded once
        else ts[i] = ts[i - 1] + dt * step * (1 + (rng.below(2) ? 1 : -1) * rng.logu(1e-17, 1e-13));  // within ulps of a multiple
      }
      ++rep.evaluations;
      ++rep.strata["bspline/index arithmetic (span ~ multiple of dt)"];
      const double t0 = ts.front();
      const long numpts = static_cast<long>(detail::fit_bspline_objective<3, std::vector<double> &, std::vector<double> &>(ts, gs, dt).NumPts);
      long worst        = -1;
      double tw         = t0;
      for (double t : ts) {
        const long need = static_cast<long>((t - t0) / dt) + 3 + 1;
        if (need > worst) worst = need, tw = t;
      }
      rep.tally("bspline_ctrl_index_excess", std::max(0L, worst - numpts));
      if (worst > numpts) {
        char buf[400];
        std::snprintf(buf, sizeof buf,
          "{\"check\":\"bspline_ctrl_index\",\"case\":%d,\"stratum\":\"index arithmetic\",\"t0\":%.17g,\"t1\":%.17g,\"dt\":%.17g,\"t\":%.17g,\"num_pts\":%ld,"
          "\"needed\":%ld,\"span_multiple_of_dt\":true}",
          id, t0, ts.back(), dt, tw, numpts, worst);
        rep.fail(buf, "bspline_ctrl_index", dt);
      }
      ++id;
    }
  }

  // ------------------------------------------------------------------ reparameterize_spline
  {
    const int nr = big ? 120 : 24;
    for (int c = 0; c < nr; ++c) {
      const std::size_t N = c % 3 == 0 ? 100 : (c % 3 == 1 ? 20 : 57);
      const double start  = (c % 4 == 0) ? 1.0 : (c % 4 == 1 ? 0.3 : (c % 4 == 2 ? 2.5 : 0.05));
      const double endv   = (c % 5 == 0) ? 0.5 : std::numeric_limits<double>::infinity();
      const double lvl    = rng.below(3) == 0 ? rng.logu(1e-2, 1) : rng.logu(0.3, 30);
      if (c % 2 == 0) {
        // SE2 curve through random poses (cubic fit), total duration <= 100 so that ds <= 1
        const int n = 3 + rng.below(6);
        std::vector<double> ts(n);
        std::vector<SE2d> gs(n);
        ts[0] = 0;
        gs[0] = SE2d::Identity();
        for (int i = 1; i < n; ++i) {
          ts[i] = ts[i - 1] + rng.logu(0.3, 5);
          gs[i] = gs[i - 1] + Eigen::Vector3d(1.5 * rng.uni() + 0.2, 0.3 * rng.sym(), 1.2 * rng.sym());
        }
        const auto spl = fit_spline(ts, gs, spline_specs::FixedDerCubic<SE2d, 2, 2>{});
        Eigen::VectorXd vmax = Eigen::Vector3d(lvl * rng.logu(0.5, 2), lvl * rng.logu(0.5, 2), lvl * rng.logu(0.5, 2));
        Eigen::VectorXd amax = Eigen::Vector3d(lvl * rng.logu(0.2, 2), lvl * rng.logu(0.2, 2), lvl * rng.logu(0.2, 2));
        if (const char * dbg = std::getenv("C14_DEBUG"); dbg && std::atoi(dbg) == id) {
          std::fprintf(stderr, "INPUT case %d N=%zu start=%.17g endv=%g\n ts/gs:", id, N, start, endv);
          for (int i = 0; i < n; ++i)
            std::fprintf(stderr, " {%.17g, %.17g, %.17g, %.17g},", ts[i], gs[i].r2().x(), gs[i].r2().y(), gs[i].so2().angle());
          std::fprintf(stderr, "\n vmax %.17g %.17g %.17g amax %.17g %.17g %.17g\n", vmax(0), vmax(1), vmax(2), amax(0), amax(1), amax(2));
        }
        reparam_case(id++, spl, Eigen::VectorXd(-vmax), vmax, Eigen::VectorXd(-amax), amax, start, endv, N, "SE2 cubic fit");
      } else {
        // Dubins path (piecewise constant body velocity, curvature jumps at the junctions)
        const double r = rng.logu(1, 20), phi = 2 * M_PI * rng.uni();
        const auto spl       = dubins_curve<3>(SE2d(SO2d(M_PI * rng.sym()), Eigen::Vector2d(r * std::cos(phi), r * std::sin(phi))), 1.0);
        Eigen::VectorXd vmax = Eigen::Vector3d(lvl, lvl, lvl * rng.logu(0.3, 3));
        Eigen::VectorXd amax = Eigen::Vector3d(lvl * rng.logu(0.2, 2), lvl, lvl * rng.logu(0.2, 2));
        Eigen::VectorXd vmin = -vmax * rng.logu(0.5, 2), amin = -amax * rng.logu(0.5, 2);
        reparam_case(id++, spl, vmin, vmax, amin, amax, start, endv, N, "dubins path");
      }
    }
  }
  std::fclose(out);
  rep.print();
  return 0;
}
