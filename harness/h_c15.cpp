// C15 harness: operation histories on the REAL library (double) against an oracle that shares nothing with it:
// the documented matrices (written from the header comments), matrix product / Gauss-Jordan inverse /
// scaling-and-squaring Taylor exponential in long double (long linear programs, chains) or __float128 (operand-reusing
// programs, where the oracle's own error is amplified too).
//
// For every intermediate element of every program it checks the PROPERTY (finite, constraint within (n+1)*1e-14,
// q_w >= 0, within (n+1)*1e-13 relative of the oracle) and the hypotheses / predictions of the Coq model
// (Proofs/C15_History.v): per-operation perturbation of ln||q||^2 (D_store, D_comp, D_inv, D_exp with e = 1e-15) and
// the tree bound of norm_dev_tree.  It also writes the program shapes and its own bookkeeping (tree size, reuse depth,
// linearity) for the correspondence with the extracted Coq functions tsize_trace / rdepth_trace / linear.
//
// usage: h_c15 [--shapes <file>] [--trace <file>]          (VERIF_SEED, VERIF_TIER from the environment)
#include <quadmath.h>

#include <boost/numeric/odeint.hpp>

#include "hcommon.hpp"

#include <smooth/bundle.hpp>
#include <smooth/c1.hpp>
#include <smooth/compat/odeint.hpp>
#include <smooth/galilei.hpp>
#include <smooth/se2.hpp>
#include <smooth/se3.hpp>
#include <smooth/se_k_3.hpp>
#include <smooth/so2.hpp>
#include <smooth/so3.hpp>

#include <algorithm>
#include <fstream>
#include <functional>
#include <memory>

using namespace hv;
using f128 = __float128;

// ------------------------------------------------------------------------------------------ scalar abstraction
inline ld sqrtT(ld x) { return std::sqrt(x); }
inline ld fabsT(ld x) { return std::fabs(x); }
inline ld sinT(ld x) { return std::sin(x); }
inline ld cosT(ld x) { return std::cos(x); }
inline ld atan2T(ld y, ld x) { return std::atan2(y, x); }
inline f128 sqrtT(f128 x) { return sqrtq(x); }
inline f128 fabsT(f128 x) { return fabsq(x); }
inline f128 sinT(f128 x) { return sinq(x); }
inline f128 cosT(f128 x) { return cosq(x); }
inline f128 atan2T(f128 y, f128 x) { return atan2q(y, x); }

// ------------------------------------------------------------------------------------------ small dense matrices
template<typename T>
struct Mat
{
  int n = 0;
  std::vector<T> a;
  Mat() = default;
  explicit Mat(int n_) : n(n_), a(static_cast<size_t>(n_) * n_, T(0)) {}
  T & operator()(int i, int j) { return a[static_cast<size_t>(i) * n + j]; }
  const T & operator()(int i, int j) const { return a[static_cast<size_t>(i) * n + j]; }
  static Mat Id(int n)
  {
    Mat m(n);
    for (int i = 0; i < n; ++i) m(i, i) = T(1);
    return m;
  }
};
template<typename T>
Mat<T> mul(const Mat<T> & A, const Mat<T> & B)
{
  Mat<T> C(A.n);
  for (int i = 0; i < A.n; ++i)
    for (int k = 0; k < A.n; ++k) {
      const T aik = A(i, k);
      if (aik == T(0)) continue;
      for (int j = 0; j < A.n; ++j) C(i, j) += aik * B(k, j);
    }
  return C;
}
template<typename T>
T maxabs(const Mat<T> & A)
{
  T m = 0;
  for (auto & x : A.a) {
    T v = fabsT(x);
    if (!(v <= m)) m = v;  // propagates NaN
  }
  return m;
}
template<typename T>
T maxdiff(const Mat<T> & A, const Mat<T> & B)
{
  T m = 0;
  for (size_t i = 0; i < A.a.size(); ++i) {
    T v = fabsT(A.a[i] - B.a[i]);
    if (!(v <= m)) m = v;
  }
  return m;
}
// Gauss-Jordan with partial pivoting (independent of the library's structured inverses)
template<typename T>
Mat<T> inverse(const Mat<T> & A)
{
  const int n = A.n;
  Mat<T> M = A, I = Mat<T>::Id(n);
  for (int c = 0; c < n; ++c) {
    int p = c;
    for (int r = c + 1; r < n; ++r)
      if (fabsT(M(r, c)) > fabsT(M(p, c))) p = r;
    if (p != c)
      for (int j = 0; j < n; ++j) {
        std::swap(M(p, j), M(c, j));
        std::swap(I(p, j), I(c, j));
      }
    const T d = M(c, c);
    for (int j = 0; j < n; ++j) {
      M(c, j) /= d;
      I(c, j) /= d;
    }
    for (int r = 0; r < n; ++r) {
      if (r == c) continue;
      const T f = M(r, c);
      if (f == T(0)) continue;
      for (int j = 0; j < n; ++j) {
        M(r, j) -= f * M(c, j);
        I(r, j) -= f * I(c, j);
      }
    }
  }
  return I;
}
// matrix exponential: scaling and squaring with a Taylor series run to convergence
template<typename T>
Mat<T> expm(const Mat<T> & A)
{
  const int n = A.n;
  T nrm       = maxabs(A) * T(n);
  int s       = 0;
  while (nrm > T(0.25)) {
    nrm /= 2;
    ++s;
  }
  Mat<T> B = A;
  T sc     = 1;
  for (int i = 0; i < s; ++i) sc /= 2;
  for (auto & x : B.a) x *= sc;
  Mat<T> E = Mat<T>::Id(n), term = Mat<T>::Id(n);
  for (int k = 1; k <= 40; ++k) {
    term = mul(term, B);
    const T ik = T(1) / T(k);
    for (auto & x : term.a) x *= ik;
    for (size_t i = 0; i < E.a.size(); ++i) E.a[i] += term.a[i];
    if (maxabs(term) < T(1e-40)) break;
  }
  for (int i = 0; i < s; ++i) E = mul(E, E);
  return E;
}

// ------------------------------------------------------------------------------------------ layouts (documented forms)
enum class PK { SO2, SO3, SE2, SE3, C1, GAL, SEK, TN };
struct Part
{
  PK kind;
  int k;         // SEK: K; TN: N
  int rep, dof;  // offsets
  int nrep, ndof;
  int dim;       // documented matrix dimension
  int rot;       // number of angular tangent components (at the end of the part's tangent)
  int unit;      // number of coefficients in the constrained part (at the end of the part's coefficients): 0, 2, 4
};
inline Part mkpart(PK kind, int k = 0)
{
  switch (kind) {
  case PK::SO2: return {kind, 0, 0, 0, 2, 1, 2, 1, 2};
  case PK::SO3: return {kind, 0, 0, 0, 4, 3, 3, 3, 4};
  case PK::SE2: return {kind, 0, 0, 0, 4, 3, 3, 1, 2};
  case PK::SE3: return {kind, 0, 0, 0, 7, 6, 4, 3, 4};
  case PK::C1: return {kind, 0, 0, 0, 2, 2, 2, 1, 0};
  case PK::GAL: return {kind, 0, 0, 0, 11, 10, 5, 3, 4};
  case PK::SEK: return {kind, k, 0, 0, 3 * k + 4, 3 * k + 3, 3 + k, 3, 4};
  default: return {kind, k, 0, 0, k, k, k + 1, 0, 0};
  }
}
template<typename G>
struct Lay;
template<>
struct Lay<smooth::SO2d>
{
  static std::vector<Part> parts() { return {mkpart(PK::SO2)}; }
  static constexpr const char * name = "SO2";
};
template<>
struct Lay<smooth::SO3d>
{
  static std::vector<Part> parts() { return {mkpart(PK::SO3)}; }
  static constexpr const char * name = "SO3";
};
template<>
struct Lay<smooth::SE2d>
{
  static std::vector<Part> parts() { return {mkpart(PK::SE2)}; }
  static constexpr const char * name = "SE2";
};
template<>
struct Lay<smooth::SE3d>
{
  static std::vector<Part> parts() { return {mkpart(PK::SE3)}; }
  static constexpr const char * name = "SE3";
};
template<>
struct Lay<smooth::C1d>
{
  static std::vector<Part> parts() { return {mkpart(PK::C1)}; }
  static constexpr const char * name = "C1";
};
template<>
struct Lay<smooth::Galileid>
{
  static std::vector<Part> parts() { return {mkpart(PK::GAL)}; }
  static constexpr const char * name = "Galilei";
};
template<int K>
struct Lay<smooth::SE_K_3<double, K>>
{
  static std::vector<Part> parts() { return {mkpart(PK::SEK, K)}; }
  static constexpr const char * name = K == 1 ? "SE_K_3<1>" : K == 2 ? "SE_K_3<2>" : "SE_K_3<3>";
};
template<int N>
struct Lay<Eigen::Matrix<double, N, 1>>
{
  static std::vector<Part> parts() { return {mkpart(PK::TN, N)}; }
  static constexpr const char * name = "T";
};
using B1 = smooth::Bundle<smooth::SO3d, Eigen::Vector3d, smooth::SE2d>;
using B2 = smooth::Bundle<smooth::SE3d, smooth::SO2d, Eigen::Vector2d, smooth::SO3d>;
using B3 = smooth::Bundle<smooth::Galileid, smooth::C1d>;
template<typename... Gs>
struct Lay<smooth::Bundle<Gs...>>
{
  static std::vector<Part> parts()
  {
    std::vector<Part> out;
    (
      [&] {
        for (auto p : Lay<Gs>::parts()) out.push_back(p);
      }(),
      ...);
    return out;
  }
  static constexpr const char * name = sizeof...(Gs) == 3 ? "Bundle<SO3,T3,SE2>" : sizeof...(Gs) == 4 ? "Bundle<SE3,SO2,T2,SO3>" : "Bundle<Galilei,C1>";
};
inline std::vector<Part> finalize(std::vector<Part> ps)
{
  int r = 0, d = 0;
  for (auto & p : ps) {
    p.rep = r;
    p.dof = d;
    r += p.nrep;
    d += p.ndof;
  }
  return ps;
}

template<typename T>
void rotq(Mat<T> & M, int o, T x, T y, T z, T w)
{
  M(o + 0, o + 0) = 1 - 2 * (y * y + z * z);
  M(o + 0, o + 1) = 2 * (x * y - z * w);
  M(o + 0, o + 2) = 2 * (x * z + y * w);
  M(o + 1, o + 0) = 2 * (x * y + z * w);
  M(o + 1, o + 1) = 1 - 2 * (x * x + z * z);
  M(o + 1, o + 2) = 2 * (y * z - x * w);
  M(o + 2, o + 0) = 2 * (x * z - y * w);
  M(o + 2, o + 1) = 2 * (y * z + x * w);
  M(o + 2, o + 2) = 1 - 2 * (x * x + y * y);
}
template<typename T>
void skew3(Mat<T> & M, int o, T x, T y, T z)
{
  M(o + 0, o + 1) = -z;
  M(o + 0, o + 2) = y;
  M(o + 1, o + 0) = z;
  M(o + 1, o + 2) = -x;
  M(o + 2, o + 0) = -y;
  M(o + 2, o + 1) = x;
}
inline int total_dim(const std::vector<Part> & ps)
{
  int n = 0;
  for (auto & p : ps) n += p.dim;
  return n;
}
// documented group matrix (block diagonal over the parts)
template<typename T, typename V>
Mat<T> docmat(const std::vector<Part> & ps, const V & cf)
{
  Mat<T> M = Mat<T>::Id(total_dim(ps));
  int o    = 0;
  for (auto & p : ps) {
    auto c = [&](int i) { return static_cast<T>(cf(p.rep + i)); };
    switch (p.kind) {
    case PK::SO2:
      M(o, o) = c(1), M(o, o + 1) = -c(0), M(o + 1, o) = c(0), M(o + 1, o + 1) = c(1);
      break;
    case PK::C1:
      M(o, o) = c(1), M(o, o + 1) = -c(0), M(o + 1, o) = c(0), M(o + 1, o + 1) = c(1);
      break;
    case PK::SO3: rotq<T>(M, o, c(0), c(1), c(2), c(3)); break;
    case PK::SE2:
      M(o, o) = c(3), M(o, o + 1) = -c(2), M(o + 1, o) = c(2), M(o + 1, o + 1) = c(3);
      M(o, o + 2) = c(0), M(o + 1, o + 2) = c(1);
      break;
    case PK::SE3:
      rotq<T>(M, o, c(3), c(4), c(5), c(6));
      for (int i = 0; i < 3; ++i) M(o + i, o + 3) = c(i);
      break;
    case PK::SEK:
      rotq<T>(M, o, c(3 * p.k), c(3 * p.k + 1), c(3 * p.k + 2), c(3 * p.k + 3));
      for (int j = 0; j < p.k; ++j)
        for (int i = 0; i < 3; ++i) M(o + i, o + 3 + j) = c(3 * j + i);
      break;
    case PK::GAL:
      rotq<T>(M, o, c(7), c(8), c(9), c(10));
      for (int i = 0; i < 3; ++i) M(o + i, o + 3) = c(i), M(o + i, o + 4) = c(3 + i);
      M(o + 3, o + 4) = c(6);
      break;
    case PK::TN:
      for (int i = 0; i < p.k; ++i) M(o + i, o + p.k) = c(i);
      break;
    }
    o += p.dim;
  }
  return M;
}
// documented Lie algebra matrix
template<typename T, typename V>
Mat<T> hatmat(const std::vector<Part> & ps, const V & tv)
{
  Mat<T> M(total_dim(ps));
  int o = 0;
  for (auto & p : ps) {
    auto a = [&](int i) { return static_cast<T>(tv(p.dof + i)); };
    switch (p.kind) {
    case PK::SO2: M(o, o + 1) = -a(0), M(o + 1, o) = a(0); break;
    case PK::C1: M(o, o) = a(0), M(o, o + 1) = -a(1), M(o + 1, o) = a(1), M(o + 1, o + 1) = a(0); break;
    case PK::SO3: skew3<T>(M, o, a(0), a(1), a(2)); break;
    case PK::SE2: M(o, o + 1) = -a(2), M(o + 1, o) = a(2), M(o, o + 2) = a(0), M(o + 1, o + 2) = a(1); break;
    case PK::SE3:
      skew3<T>(M, o, a(3), a(4), a(5));
      for (int i = 0; i < 3; ++i) M(o + i, o + 3) = a(i);
      break;
    case PK::SEK:
      skew3<T>(M, o, a(3 * p.k), a(3 * p.k + 1), a(3 * p.k + 2));
      for (int j = 0; j < p.k; ++j)
        for (int i = 0; i < 3; ++i) M(o + i, o + 3 + j) = a(3 * j + i);
      break;
    case PK::GAL:
      skew3<T>(M, o, a(7), a(8), a(9));
      for (int i = 0; i < 3; ++i) M(o + i, o + 3) = a(i), M(o + i, o + 4) = a(3 + i);
      M(o + 3, o + 4) = a(6);
      break;
    case PK::TN:
      for (int i = 0; i < p.k; ++i) M(o + i, o + p.k) = a(i);
      break;
    }
    o += p.dim;
  }
  return M;
}

// squared norms of the constrained parts, in long double from the stored doubles; product over the parts of a bundle is
// NOT taken: each part is checked on its own, the log-deviations are summed for the model check
template<typename V>
std::vector<ld> unit_norms(const std::vector<Part> & ps, const V & cf)
{
  std::vector<ld> out;
  for (auto & p : ps) {
    if (!p.unit) continue;
    ld s = 0;
    for (int i = 0; i < p.unit; ++i) {
      ld v = static_cast<ld>(cf(p.rep + p.nrep - p.unit + i));
      s += v * v;
    }
    out.push_back(s);
  }
  return out;
}

// ------------------------------------------------------------------------------------------ generators
template<typename G>
typename G::Tangent gen_tangent_lay(const std::vector<Part> & ps, Rng & r, std::string * label, double maxmag, bool beyond_pi, double c1scale = 0.05)
{
  typename G::Tangent a;
  a.setZero();
  std::string lab;
  for (auto & p : ps) {
    auto st = strat_angle(r, beyond_pi);
    if (lab.empty()) lab = st.label;
    for (int i = 0; i < p.ndof - p.rot; ++i) a(p.dof + i) = strat_lin(r, maxmag);
    double ax[3];
    if (p.rot) {
      rand_axis(r, p.rot, ax);
      for (int i = 0; i < p.rot; ++i) a(p.dof + p.ndof - p.rot + i) = ax[i] * st.v;
    }
    if (p.kind == PK::C1) a(p.dof + 0) = r.sym() * c1scale;   // log-scaling: keep |x| within range over 1e5 operations
  }
  if (label) *label = lab;
  return a;
}

// the library's own constructors per group (besides exp and Identity)
template<typename G>
struct Ctors
{
  static bool make(Rng &, G &, std::string &) { return false; }
};
template<>
struct Ctors<smooth::SO3d>
{
  static bool make(Rng & r, smooth::SO3d & g, std::string & lab)
  {
    switch (r.below(3)) {
    case 0: {
      // unnormalised quaternion, either sign of w, magnitudes 1e-3 .. 1e3
      double k = r.logu(1e-3, 1e3);
      g        = smooth::SO3d(Eigen::Quaterniond(k * r.sym(), k * r.sym(), k * r.sym(), k * r.sym()));
      lab      = "ctor_quat";
      return true;
    }
    case 1: {
      double an = strat_angle(r, true).v * (r.below(2) ? 1 : -1);
      int ax    = r.below(3);
      g         = ax == 0 ? smooth::SO3d::rot_x(an) : ax == 1 ? smooth::SO3d::rot_y(an) : smooth::SO3d::rot_z(an);
      lab       = "ctor_rot";
      return true;
    }
    default: {
      // w tiny negative / zero: sign canonicalisation boundary
      double w = r.below(2) ? -r.logu(1e-300, 1e-10) : 0.0;
      g        = smooth::SO3d(Eigen::Quaterniond(w, r.sym(), r.sym(), r.sym()));
      lab      = "ctor_quat_w0";
      return true;
    }
    }
  }
};
template<>
struct Ctors<smooth::SO2d>
{
  static bool make(Rng & r, smooth::SO2d & g, std::string & lab)
  {
    if (r.below(2)) {
      g   = smooth::SO2d(strat_angle(r, true).v * (r.below(2) ? 1 : -1));
      lab = "ctor_angle";
    } else {
      double k = r.logu(1e-3, 1e3);
      g        = smooth::SO2d(k * r.sym(), k * r.sym());
      lab      = "ctor_coef";
    }
    return true;
  }
};
template<>
struct Ctors<smooth::SE2d>
{
  static bool make(Rng & r, smooth::SE2d & g, std::string & lab)
  {
    smooth::SO2d q;
    std::string l;
    Ctors<smooth::SO2d>::make(r, q, l);
    g   = smooth::SE2d(q, Eigen::Vector2d(strat_lin(r, 1e2), strat_lin(r, 1e2)));
    lab = "ctor_so2_r2";
    return true;
  }
};
template<>
struct Ctors<smooth::SE3d>
{
  static bool make(Rng & r, smooth::SE3d & g, std::string & lab)
  {
    smooth::SO3d q;
    std::string l;
    Ctors<smooth::SO3d>::make(r, q, l);
    g   = smooth::SE3d(q, Eigen::Vector3d(strat_lin(r, 1e2), strat_lin(r, 1e2), strat_lin(r, 1e2)));
    lab = "ctor_so3_r3";
    return true;
  }
};

// lift/project round trips (fresh elements of the same group type; the intermediate element of the other group is
// checked for its constraint too).  Returns false if the group has no conversion.
template<typename G>
struct Conv
{
  static constexpr bool has = false;
  template<typename T>
  static bool apply(const G &, G &, const Mat<T> &, Mat<T> &, double &, bool &)
  {
    return false;
  }
};
template<>
struct Conv<smooth::SO3d>
{
  static constexpr bool has = true;
  // x.project_so2().lift_so3(): rotation about z by yaw(x); yaw = atan2(R10, R00) (ZYX Euler yaw of R)
  template<typename T>
  static bool apply(const smooth::SO3d & x, smooth::SO3d & out, const Mat<T> & Mx, Mat<T> & Mo, double & mid_dev, bool & wellcond)
  {
    smooth::SO2d p = x.project_so2();
    mid_dev        = std::abs(static_cast<double>(static_cast<ld>(p.coeffs()(0)) * p.coeffs()(0) + static_cast<ld>(p.coeffs()(1)) * p.coeffs()(1) - 1));
    out            = p.lift_so3();
    T r            = sqrtT(Mx(0, 0) * Mx(0, 0) + Mx(1, 0) * Mx(1, 0));
    wellcond       = r > T(0.1);
    T c = Mx(0, 0) / r, s = Mx(1, 0) / r;
    Mo       = Mat<T>::Id(3);
    Mo(0, 0) = c, Mo(0, 1) = -s, Mo(1, 0) = s, Mo(1, 1) = c;
    return true;
  }
};
template<>
struct Conv<smooth::SO2d>
{
  static constexpr bool has = true;
  template<typename T>
  static bool apply(const smooth::SO2d & x, smooth::SO2d & out, const Mat<T> & Mx, Mat<T> & Mo, double & mid_dev, bool & wellcond)
  {
    smooth::SO3d l = x.lift_so3();
    mid_dev        = std::abs(static_cast<double>(static_cast<ld>(l.coeffs().cast<ld>().squaredNorm()) - 1));
    if (l.coeffs()(3) < 0) mid_dev = 1;  // canonical sign of the intermediate
    out      = l.project_so2();
    Mo       = Mx;  // lift then project is the identity map on SO2
    wellcond = true;
    return true;
  }
};
template<>
struct Conv<smooth::SE2d>
{
  static constexpr bool has = true;
  template<typename T>
  static bool apply(const smooth::SE2d & x, smooth::SE2d & out, const Mat<T> & Mx, Mat<T> & Mo, double & mid_dev, bool & wellcond)
  {
    smooth::SE3d l = x.lift_se3();
    mid_dev        = std::abs(static_cast<double>(static_cast<ld>(l.coeffs().tail<4>().cast<ld>().squaredNorm()) - 1));
    if (l.coeffs()(6) < 0) mid_dev = 1;
    out      = l.project_se2();
    Mo       = Mx;
    wellcond = true;
    return true;
  }
};
template<>
struct Conv<smooth::SE3d>
{
  static constexpr bool has = true;
  template<typename T>
  static bool apply(const smooth::SE3d & x, smooth::SE3d & out, const Mat<T> & Mx, Mat<T> & Mo, double & mid_dev, bool & wellcond)
  {
    smooth::SE2d p = x.project_se2();
    mid_dev        = std::abs(static_cast<double>(static_cast<ld>(p.coeffs()(2)) * p.coeffs()(2) + static_cast<ld>(p.coeffs()(3)) * p.coeffs()(3) - 1));
    out            = p.lift_se3();
    T r            = sqrtT(Mx(0, 0) * Mx(0, 0) + Mx(1, 0) * Mx(1, 0));
    wellcond       = r > T(0.1);
    T c = Mx(0, 0) / r, s = Mx(1, 0) / r;
    Mo       = Mat<T>::Id(4);
    Mo(0, 0) = c, Mo(0, 1) = -s, Mo(1, 0) = s, Mo(1, 1) = c;
    Mo(0, 3) = Mx(0, 3), Mo(1, 3) = Mx(1, 3);
    return true;
  }
};

// ------------------------------------------------------------------------------------------ bookkeeping (mirror of Model/C15_History.v)
constexpr int NREG = 6;                // registers 0..3 work, 4..5 fresh pool (linear programs)
// tree sizes are reported saturated at 2^61 (the Coq model uses unbounded Z; the OCaml driver saturates when printing)

struct Book
{
  long long ts[NREG];   // tree size (saturating)
  long long dp[NREG];   // reuse depth
  bool fresh[NREG];
  long long cnt[NREG];  // operations in the history of the register (with multiplicity)
  bool linear = true;
  Book()
  {
    for (int i = 0; i < NREG; ++i) ts[i] = 0, dp[i] = 0, fresh[i] = false, cnt[i] = 0;
  }
};
inline long long sat_add(long long a, long long b)
{
  const long long cap = 1LL << 61;
  return (a >= cap - b) ? cap : a + b;
}

enum class OK { CTOR, EXP, COMP, INV, RPLUS, MULA, PLUSA, CAST, CONVF, SSUM };

inline std::string jnum(double v)
{
  if (!std::isfinite(v)) return std::isnan(v) ? "\"nan\"" : (v > 0 ? "\"inf\"" : "\"-inf\"");
  std::ostringstream os;
  os.precision(6);
  os << v;
  return os.str();
}

struct Ctx
{
  Report & rep;
  std::ofstream * shapes;
  std::ofstream * trace;
  long prog_id = 0;
  // statistics for the evidence file
  double max_local_defect = 0;    // max |d ln N| of one stored result
  double max_dev_ratio    = 0;    // max dev / ((n+1)*1e-14) over linear programs
  double max_acc_ratio    = 0;    // max err / ((n+1)*1e-13) over linear programs
  double max_tree_ratio   = 0;    // max dev / model tree bound
  long reuse_constraint_exceed = 0, reuse_accuracy_exceed = 0;
  // failures are kept in two buckets so that the (many) expected operand-reuse exceedances can never crowd out another
  // violation: `reuse` = constraint/accuracy bound exceeded in a program with operand reuse, `other` = everything else
  std::vector<std::string> fails_reuse, fails_other, fails_explocal;
  long n_reuse = 0, n_other = 0, n_explocal = 0;
  void fail_explocal(const std::string & js)
  {
    ++n_explocal;
    if (fails_explocal.size() < 12) fails_explocal.push_back(js);
  }
  void fail(const std::string & js, bool reuse_class)
  {
    if (reuse_class) {
      ++n_reuse;
      if (fails_reuse.size() < 12) fails_reuse.push_back(js);
    } else {
      ++n_other;
      if (fails_other.size() < 40) fails_other.push_back(js);
    }
  }
};

static const double E_MODEL  = 1e-15;                                // relative error of a stored result assumed by the theorems
static const double ER_MODEL = 2 * E_MODEL + 8 * E_MODEL * E_MODEL;  // eR e
static const double ET_MODEL = 2e-18;                                // eT
static const double EPS_MODEL = ER_MODEL + ET_MODEL;

// ------------------------------------------------------------------------------------------ program runner
template<typename G, typename T>
struct Runner
{
  using Tangent = typename G::Tangent;
  Ctx & cx;
  Rng & rng;
  std::vector<Part> ps;
  std::string gname, kind;
  G regs[NREG];
  Mat<T> orc[NREG];
  T scale[NREG];
  Book bk;
  long nops = 0;
  bool reuse_prog;
  std::string last_label;
  double maxmag;
  double c1s;               // magnitude of the log-scaling component of C1 tangents (kept such that the exact result stays finite)
  bool dead = false;        // a non-finite element was reported: the rest of the program is not checked
  double last_theta = -1;   // rotation angle of the tangent used by the last exp-type operation (-1: none)

  double theta_of(const Tangent & a) const
  {
    double th = 0;
    for (auto & p : ps) {
      double s2 = 0;
      for (int i = 0; i < p.rot; ++i) s2 += a(p.dof + p.ndof - p.rot + i) * a(p.dof + p.ndof - p.rot + i);
      // only parts whose exp couples the rotation with a translation use the cancelling kernels
      if (p.kind == PK::SE2 || p.kind == PK::SE3 || p.kind == PK::GAL || p.kind == PK::SEK) th = std::max(th, std::sqrt(s2));
    }
    return th;
  }

  std::ofstream * shp = nullptr;
  std::ofstream * trc = nullptr;

  // planned_len: programs longer than 2000 operations are not written to the shapes file (the extracted model keeps the
  // register maps as closures, quadratic in the program length)
  Runner(Ctx & c, Rng & r, const std::string & kind_, bool reuse, double maxmag_ = 1e2, long planned_len = 0)
      : cx(c), rng(r), ps(finalize(Lay<G>::parts())), gname(Lay<G>::name), kind(kind_), reuse_prog(reuse), maxmag(maxmag_), c1s(reuse ? 0.0 : 0.05)
  {
    ++cx.prog_id;
    if (planned_len <= 2000) shp = cx.shapes, trc = cx.trace;
    if (shp) *shp << "prog " << cx.prog_id << " " << gname << " " << kind << "\n";
    if (trc) *trc << "prog " << cx.prog_id << "\n";
  }
  ~Runner()
  {
    if (cx.rep.samples.size() < 5 && nops > 20) cx.rep.samples.push_back(describe("sample-final-register", 0, 0, 0, OK::COMP));
    if (shp) *shp << "end\n";
    if (trc) *trc << "end " << (bk.linear ? 1 : 0) << "\n";
  }

  void emit(const char * tok, int d, int x = -1, int y = -1, int c = -1)
  {
    if (!shp) return;
    *shp << tok << " " << d;
    if (x >= 0) *shp << " " << x;
    if (y >= 0) *shp << " " << y;
    if (c >= 0) *shp << " " << c;
    *shp << "\n";
  }

  static std::string num(double v)
  {
    if (!std::isfinite(v)) return std::isnan(v) ? "\"nan\"" : (v > 0 ? "\"inf\"" : "\"-inf\"");
    std::ostringstream os;
    os.precision(17);
    os << v;
    return os.str();
  }
  template<typename V>
  static std::string jv(const V & v)
  {
    std::string o = "[";
    for (Eigen::Index i = 0; i < v.size(); ++i) o += (i ? "," : "") + num(v(i));
    return o + "]";
  }
  std::string describe(const char * check, int d, double err, double bound, OK op)
  {
    static const char * opn[] = {"ctor", "exp", "comp", "inv", "rplus", "mulassign", "plusassign", "cast", "conv", "scale_sum"};
    std::ostringstream os;
    os.precision(17);
    const double tpo = static_cast<double>(bk.ts[d]) / static_cast<double>(nops + 1);
    os << "{\"local\":false,\"check\":\"" << check << "\",\"group\":\"" << gname << "\",\"kind\":\"" << kind << "\",\"shape\":\""
       << (bk.linear ? "linear" : "operand-reuse") << "\",\"op\":\"" << opn[static_cast<int>(op)] << "\",\"n\":" << nops
       << ",\"err\":" << num(err) << ",\"bound\":" << num(bound) << ",\"tree_size\":" << bk.ts[d] << ",\"tree_per_op\":" << tpo
       << ",\"reuse_depth\":" << bk.dp[d] << ",\"theta\":" << num(last_theta) << ",\"stratum\":\"" << last_label << "\",\"seed\":" << seed_from_env()
       << ",\"program\":" << cx.prog_id << ",\"coeffs\":" << jv(regs[d].coeffs()) << "}";
    return os.str();
  }

  // all checks on the element now stored in register d (result of operation `op`);
  // ln_pred = sum over the operands of ln N (per unit part), for the per-operation model hypothesis
  void check(int d, OK op, const std::vector<ld> & ln_pred, bool have_pred, bool acc_ok = true)
  {
    if (dead) {
      if (trc) *trc << "t " << bk.ts[d] << " " << bk.dp[d] << "\n";
      return;
    }
    ++cx.rep.evaluations;
    if (trc) *trc << "t " << bk.ts[d] << " " << bk.dp[d] << "\n";
    const auto & cf = regs[d].coeffs();
    // n: operations behind this element.  linear programs: those in its own history; otherwise the program counter
    const long n = bk.linear ? std::min<long long>(bk.cnt[d], nops) : nops;
    // finite
    bool fin = true;
    for (Eigen::Index i = 0; i < cf.size(); ++i) fin = fin && std::isfinite(cf(i));
    if (!fin) {
      cx.fail(describe("finite", d, 0, 0, op), false);
      dead = true;
      return;
    }
    // constraint and sign
    auto norms = unit_norms(ps, cf);
    double dev = 0;
    for (auto s : norms) dev = std::max(dev, static_cast<double>(std::fabs(s - 1)));
    const double cb = (n + 1) * 1e-14;
    cx.rep.tally(gname + ".constraint/bound." + (bk.linear ? "linear" : "reuse"), dev / cb);
    if (!(dev <= cb)) {
      if (!bk.linear) ++cx.reuse_constraint_exceed;
      cx.fail(describe("constraint", d, dev, cb, op), !bk.linear);
    }
    if (bk.linear) cx.max_dev_ratio = std::max(cx.max_dev_ratio, dev / cb);
    for (auto & p : ps)
      if (p.unit == 4 && !(cf(p.rep + p.nrep - 1) >= 0)) cx.fail(describe("sign", d, cf(p.rep + p.nrep - 1), 0, op), false);
    // model: per-operation perturbation of ln N (hypotheses D_comp/D_inv/D_exp/D_store of Proofs/C15_History.v with e = 1e-15)
    if (have_pred) {
      double worst = 0;
      for (size_t i = 0; i < norms.size(); ++i) worst = std::max(worst, static_cast<double>(std::fabs(std::log(norms[i]) - ln_pred[i])));
      const double lb = (op == OK::RPLUS || op == OK::PLUSA || op == OK::SSUM) ? 2 * EPS_MODEL : (op == OK::EXP || op == OK::CTOR || op == OK::CONVF) ? EPS_MODEL : ER_MODEL;
      cx.max_local_defect = std::max(cx.max_local_defect, worst);
      cx.rep.tally(gname + ".model_store/eR", worst / lb);
      if (!(worst <= lb)) cx.fail(describe("model-store-hypothesis", d, worst, lb, op), false);
    }
    // model: norm_dev_tree  dev <= K (1 + 2K), K = tree_size * eps
    {
      const double K = static_cast<double>(bk.ts[d]) * EPS_MODEL;
      if (K <= 0.5) {
        const double tb = K * (1 + 2 * K);
        cx.max_tree_ratio = std::max(cx.max_tree_ratio, dev / tb);
        if (!(dev <= tb)) cx.fail(describe("model-tree-bound", d, dev, tb, op), false);
      }
    }
    // accuracy against the oracle
    if (acc_ok) {
      Mat<T> Ml = docmat<T>(ps, cf);
      T sc      = std::max<T>(scale[d], std::max<T>(maxabs(orc[d]), T(1)));
      scale[d]  = sc;
      double e  = static_cast<double>(maxdiff(Ml, orc[d]) / sc);
      const double ab = (n + 1) * 1e-13;
      cx.rep.tally(gname + ".accuracy/bound." + (bk.linear ? "linear" : "reuse"), e / ab);
      if (bk.linear) cx.max_acc_ratio = std::max(cx.max_acc_ratio, e / ab);
      if (!(e <= ab)) {
        if (!bk.linear) ++cx.reuse_accuracy_exceed;
        cx.fail(describe("accuracy", d, e, ab, op), !bk.linear);
      }
    }
  }

  std::vector<ld> lnN(int r)
  {
    auto v = unit_norms(ps, regs[r].coeffs());
    for (auto & x : v) x = std::log(x);
    return v;
  }
  std::vector<ld> zeros()
  {
    size_t k = 0;
    for (auto & p : ps) k += p.unit ? 1 : 0;
    return std::vector<ld>(k, ld(0));
  }
  bool planar_inv(size_t unit_index)
  {
    size_t k = 0;
    for (auto & p : ps)
      if (p.unit) {
        if (k == unit_index) return p.unit == 2;
        ++k;
      }
    return true;
  }

  // accuracy of the library's exp(a) on its own, against expm(hat a).  An exp that is already outside the budget of ONE
  // operation (1e-13) is reported where it happens (check "accuracy", local=true) and the oracle of the destination is
  // restarted from the stored result, so that one inaccurate exp does not produce a cascade of dependent failures.
  bool exp_is_inaccurate(const Tangent & a, const Mat<T> & EX, double & e_local)
  {
    G E       = G::exp(a);
    Mat<T> ME = docmat<T>(ps, E.coeffs());
    T sc      = std::max<T>(T(1), std::max<T>(maxabs(EX), maxabs(hatmat<T>(ps, a))));
    e_local   = static_cast<double>(maxdiff(ME, EX) / sc);
    return !(e_local <= 1e-13);
  }
  void report_local_exp(int d, OK op, double e_local)
  {
    std::string js = describe("accuracy", d, e_local, 1e-13, op);
    js.replace(js.find("\"local\":false"), 13, "\"local\":true");
    // the region where the closed-form kernels of the coupled exp cancel (u/theta^2 > 1e-13): see known_findings.d/C15.jsonl
    if (last_theta > 9.9e-5 && last_theta < 0.032)
      cx.fail_explocal(js);
    else
      cx.fail(js, false);
    orc[d] = docmat<T>(ps, regs[d].coeffs());
  }

  void set_fresh_book(int d)
  {
    bk.ts[d] = 1, bk.dp[d] = 0, bk.fresh[d] = true, bk.cnt[d] = 1;
  }

  // ---- operations
  void op_ctor(int d)
  {
    ++nops;
    std::string lab = "identity";
    G g;
    if (rng.below(4) == 0 || !Ctors<G>::make(rng, g, lab)) {
      if (rng.below(3) == 0) {
        g.setIdentity();
        lab = "identity";
      } else {
        // a constructor-produced element for groups without a dedicated constructor: exp of a random tangent, taken as a
        // leaf (its oracle value is the documented matrix of what was produced)
        g   = G::exp(gen_tangent_lay<G>(ps, rng, &lab, maxmag, true, c1s));
        lab = "leaf_exp_" + lab;
      }
    }
    last_label = lab;
    last_theta = -1;
    ++cx.rep.strata["ctor." + lab];
    regs[d]  = g;
    orc[d]   = docmat<T>(ps, g.coeffs());
    scale[d] = std::max<T>(T(1), maxabs(orc[d]));
    set_fresh_book(d);
    emit("K", d);
    check(d, OK::CTOR, zeros(), true);
  }
  void op_exp(int d)
  {
    ++nops;
    std::string lab;
    Tangent a  = gen_tangent_lay<G>(ps, rng, &lab, maxmag, true, c1s);
    last_label = lab;
    ++cx.rep.strata["exp." + lab];
    last_theta = theta_of(a);
    regs[d]  = G::exp(a);
    orc[d]   = expm(hatmat<T>(ps, a));
    scale[d] = std::max<T>(T(1), std::max<T>(maxabs(orc[d]), maxabs(hatmat<T>(ps, a))));
    set_fresh_book(d);
    emit("E", d);
    double el = 0;
    const bool bad = exp_is_inaccurate(a, orc[d], el);
    check(d, OK::EXP, zeros(), true, !bad);
    if (bad) report_local_exp(d, OK::EXP, el);
  }
  void book_comp(int d, int x, int y)
  {
    const bool lin = bk.fresh[x] || bk.fresh[y];
    bk.linear      = bk.linear && lin;
    long long ts   = sat_add(sat_add(bk.ts[x], bk.ts[y]), 1);
    long long dp   = std::max(bk.dp[x], bk.dp[y]) + (lin ? 0 : 1);
    long long cn   = sat_add(sat_add(bk.cnt[x], bk.cnt[y]), 1);
    bk.ts[d] = ts, bk.dp[d] = dp, bk.cnt[d] = cn, bk.fresh[d] = false;
  }
  void op_comp(int d, int x, int y, bool inplace)
  {
    ++nops;
    auto lp = lnN(x);
    auto ly = lnN(y);
    for (size_t i = 0; i < lp.size(); ++i) lp[i] += ly[i];
    Mat<T> M = mul(orc[x], orc[y]);
    T sc     = std::max(scale[x], scale[y]);
    if (inplace) {
      regs[x] *= regs[y];   // d == x
    } else {
      G r     = regs[x] * regs[y];
      regs[d] = r;
    }
    orc[d]   = M;
    scale[d] = sc;
    book_comp(d, x, y);
    if (inplace)
      emit("M", x, y);
    else
      emit("C", d, x, y);
    last_label = "";
    last_theta = -1;
    check(d, inplace ? OK::MULA : OK::COMP, lp, true);
  }
  void op_inv(int d, int x)
  {
    ++nops;
    auto lp = lnN(x);
    for (size_t i = 0; i < lp.size(); ++i)
      if (!planar_inv(i)) lp[i] = -lp[i];
    Mat<T> M = inverse(orc[x]);
    T sc     = std::max<T>(scale[x], maxabs(M));
    G r      = regs[x].inverse();
    regs[d]  = r;
    orc[d]   = M;
    scale[d] = sc;
    long long ts = sat_add(bk.ts[x], 1), dp = bk.dp[x], cn = sat_add(bk.cnt[x], 1);
    bk.ts[d] = ts, bk.dp[d] = dp, bk.cnt[d] = cn, bk.fresh[d] = false;
    emit("I", d, x);
    last_label = "";
    last_theta = -1;
    check(d, OK::INV, lp, true);
  }
  void op_rplus(int d, int x, bool inplace)
  {
    ++nops;
    std::string lab;
    Tangent a  = gen_tangent_lay<G>(ps, rng, &lab, maxmag, true, c1s);
    last_label = lab;
    ++cx.rep.strata["rplus." + lab];
    last_theta = theta_of(a);
    auto lp  = lnN(x);
    Mat<T> H = hatmat<T>(ps, a);
    Mat<T> EX = expm(H);
    Mat<T> M = mul(orc[x], EX);
    T sc     = std::max<T>(scale[x], maxabs(H));
    double el = 0;
    const bool bad = exp_is_inaccurate(a, EX, el);
    if (inplace) {
      regs[x] += a;
    } else {
      G r     = regs[x] + a;
      regs[d] = r;
    }
    orc[d]   = M;
    scale[d] = sc;
    long long ts = sat_add(bk.ts[x], 2), dp = bk.dp[x], cn = sat_add(bk.cnt[x], 1);
    bk.ts[d] = ts, bk.dp[d] = dp, bk.cnt[d] = cn, bk.fresh[d] = false;
    if (inplace)
      emit("A", x);
    else
      emit("P", d, x);
    check(d, inplace ? OK::PLUSA : OK::RPLUS, lp, true, !bad);
    if (bad) report_local_exp(d, inplace ? OK::PLUSA : OK::RPLUS, el);
  }
  void op_cast(int d, int x)
  {
    ++nops;
    auto lp  = lnN(x);
    G r      = regs[x].template cast<double>();
    Mat<T> M = orc[x];
    T sc     = scale[x];
    regs[d]  = r;
    orc[d]   = M;
    scale[d] = sc;
    long long ts = sat_add(bk.ts[x], 1), dp = bk.dp[x], cn = sat_add(bk.cnt[x], 1);
    bk.ts[d] = ts, bk.dp[d] = dp, bk.cnt[d] = cn, bk.fresh[d] = false;
    emit("V", d, x, -1, 0);
    last_label = "";
    last_theta = -1;
    check(d, OK::CAST, lp, true);
    // a same-scalar cast copies the coefficients
    if (!(regs[d].coeffs() == regs[x].coeffs()) && d != x) cx.fail(describe("cast-copy", d, 0, 0, OK::CAST), false);
  }
  bool op_conv(int d, int x)
  {
    if constexpr (!Conv<G>::has) {
      return false;
    } else {
      ++nops;
      G out;
      Mat<T> Mo;
      double mid_dev = 0;
      bool wc        = true;
      Conv<G>::template apply<T>(regs[x], out, orc[x], Mo, mid_dev, wc);
      T sc     = scale[x];
      regs[d]  = out;
      if (wc) {
        orc[d] = Mo;
      } else {
        orc[d] = docmat<T>(ps, out.coeffs());   // ill-conditioned projection (yaw undefined): restart the oracle from the result
      }
      scale[d] = std::max<T>(sc, maxabs(orc[d]));
      set_fresh_book(d);
      bk.cnt[d] = sat_add(bk.cnt[x], 1);
      emit("V", d, x, -1, 1);
      last_label = wc ? "conv" : "conv_illcond";
      last_theta = -1;
      ++cx.rep.strata[std::string("conv.") + last_label];
      if (!(mid_dev <= 2e-14)) cx.fail(describe("constraint-intermediate-conversion", d, mid_dev, 2e-14, OK::CONVF), false);
      check(d, OK::CONVF, zeros(), true, wc);
      return true;
    }
  }
  // odeint's scale_sum called directly:  y = x (+) sum_i alpha_{i+1} a_i  (compat/odeint.hpp)
  void op_ssum(int d, int x)
  {
    ++nops;
    const int m = 1 + rng.below(4);   // number of tangent arguments
    Tangent as[4];
    double al[5];
    al[0] = 1.0;
    std::string lab;
    Tangent sum;
    sum.setZero();
    Mat<T> H(total_dim(ps));
    for (int i = 0; i < m; ++i) {
      as[i]     = gen_tangent_lay<G>(ps, rng, &lab, maxmag, false, c1s);
      al[i + 1] = rng.sym();
      sum += al[i + 1] * as[i];
      Mat<T> Hi = hatmat<T>(ps, as[i]);
      for (size_t k = 0; k < H.a.size(); ++k) H.a[k] += T(al[i + 1]) * Hi.a[k];
    }
    last_label = "ssum" + std::to_string(m + 1);
    last_theta = theta_of(sum);
    ++cx.rep.strata["scale_sum.arity" + std::to_string(m + 1)];
    auto lp  = lnN(x);
    Mat<T> EX = expm(H);
    Mat<T> M = mul(orc[x], EX);
    T sc     = std::max<T>(scale[x], maxabs(H));
    double el = 0;
    const bool bad = exp_is_inaccurate(sum, EX, el);
    G y;
    using Ops = smooth::detail::BoostOdeintOps;
    switch (m) {
    case 1: Ops::scale_sum2<double>(al[0], al[1])(y, regs[x], as[0]); break;
    case 2: Ops::scale_sum3<double>(al[0], al[1], al[2])(y, regs[x], as[0], as[1]); break;
    case 3: Ops::scale_sum4<double>(al[0], al[1], al[2], al[3])(y, regs[x], as[0], as[1], as[2]); break;
    default: Ops::scale_sum5<double>(al[0], al[1], al[2], al[3], al[4])(y, regs[x], as[0], as[1], as[2], as[3]); break;
    }
    regs[d]  = y;
    orc[d]   = M;
    scale[d] = sc;
    long long ts = sat_add(bk.ts[x], 2), dp = bk.dp[x], cn = sat_add(bk.cnt[x], 1);
    bk.ts[d] = ts, bk.dp[d] = dp, bk.cnt[d] = cn, bk.fresh[d] = false;
    emit("S", d, x);
    check(d, OK::SSUM, lp, true, !bad);
    if (bad) report_local_exp(d, OK::SSUM, el);
  }
};

// ------------------------------------------------------------------------------------------ program families
// random register programs in which every composition has a fresh operand (registers 4,5 only ever hold fresh elements)
template<typename G>
void linear_program(Ctx & cx, Rng & rng, long len)
{
  Runner<G, ld> R(cx, rng, "linear", false, 1e2, len);
  for (int r = 0; r < NREG; ++r) {
    if (r & 1)
      R.op_exp(r);
    else
      R.op_ctor(r);
  }
  for (long i = 0; i < len; ++i) {
    const int d = rng.below(4), x = rng.below(4), f = 4 + rng.below(2);
    switch (rng.below(14)) {
    case 0: R.op_ctor(4 + rng.below(2)); break;
    case 1: R.op_exp(4 + rng.below(2)); break;
    case 2: R.op_comp(d, x, f, false); break;
    case 3: R.op_comp(d, f, x, false); break;
    case 4: R.op_comp(x, x, f, true); break;
    case 5: R.op_inv(d, x); break;
    case 6: R.op_rplus(d, x, false); break;
    case 7: R.op_rplus(x, x, true); break;
    case 8: R.op_cast(d, x); break;
    case 9:
      if (!R.op_conv(d, x)) R.op_inv(d, x);
      break;
    case 10: R.op_ssum(d, x); break;
    case 11: R.op_comp(d, x, f, false); break;
    case 12: R.op_rplus(x, x, true); break;
    default: R.op_ctor(rng.below(4)); break;   // a work register is restarted from a constructor now and then
    }
  }
}

// long homogeneous chains
template<typename G>
void chain_program(Ctx & cx, Rng & rng, long len, int variant)
{
  static const char * names[] = {"chain_mulassign", "chain_plusassign", "chain_left", "chain_inverse", "chain_taylor", "chain_halfturn"};
  Runner<G, ld> R(cx, rng, names[variant], false, variant == 4 ? 1e-3 : 1e1, len);
  R.c1s = std::min(0.05, 300.0 / static_cast<double>(len + 1));   // |x| <= e^300 after len operations
  R.op_ctor(0);
  R.op_exp(4);
  using Tangent = typename G::Tangent;
  for (long i = 0; i < len; ++i) {
    switch (variant) {
    case 0: R.op_comp(0, 0, 4, true); break;
    case 1: R.op_rplus(0, 0, true); break;
    case 2: R.op_comp(0, 4, 0, false); break;
    case 3:
      if (i & 1)
        R.op_comp(0, 0, 4, true);
      else
        R.op_inv(0, 0);
      break;
    default: R.op_rplus(0, 0, true); break;
    }
  }
  (void)sizeof(Tangent);
}

// x := x * x
template<typename G>
void squaring_program(Ctx & cx, Rng & rng, int len)
{
  Runner<G, f128> R(cx, rng, "squaring", true, 1e-2);
  if (rng.below(2))
    R.op_ctor(0);
  else
    R.op_exp(0);
  for (int i = 0; i < len; ++i) R.op_comp(0, 0, 0, rng.below(2));
}

// random programs with arbitrary operand reuse
template<typename G>
void tree_program(Ctx & cx, Rng & rng, int len)
{
  Runner<G, f128> R(cx, rng, "tree", true, 1e-1);
  for (int r = 0; r < 4; ++r) {
    if (r & 1)
      R.op_exp(r);
    else
      R.op_ctor(r);
  }
  for (int i = 0; i < len; ++i) {
    const int d = rng.below(4), x = rng.below(4), y = rng.below(4);
    switch (rng.below(8)) {
    case 0: R.op_inv(d, x); break;
    case 1: R.op_rplus(d, x, false); break;
    case 2: R.op_cast(d, x); break;
    case 3: R.op_comp(x, x, y, true); break;
    default: R.op_comp(d, x, y, false); break;
    }
  }
}

template<typename G>
void run_group(Ctx & cx, Rng & rng, bool thorough_)
{
  const long L = thorough_ ? 100000 : 1000;
  // random linear programs: lengths spread up to L
  for (long len : {10L, 100L, L}) {
    const int reps = len == L ? 1 : (thorough_ ? 20 : 6);
    for (int k = 0; k < reps; ++k) linear_program<G>(cx, rng, len);
  }
  for (int v = 0; v < 6; ++v) chain_program<G>(cx, rng, v < 4 ? L : L / 10, v);
  for (int k = 0; k < (thorough_ ? 12 : 4); ++k) squaring_program<G>(cx, rng, 40);
  for (int k = 0; k < (thorough_ ? 60 : 12); ++k) tree_program<G>(cx, rng, 10 + rng.below(50));
}

#ifndef C15_NO_MAIN
int main(int argc, char ** argv)
{
  Report rep;
  rep.property = "C15";
  Rng seeder(seed_from_env());   // the state of splitmix64 advances by a constant: mix the seed first, or seeds k and k+1 give shifted copies of one stream
  seeder.next();
  Rng rng(seeder.next() ^ 0xC15C15C15C15ULL);
  std::unique_ptr<std::ofstream> shapes, trace;
  for (int i = 1; i + 1 < argc; ++i) {
    if (std::string(argv[i]) == "--shapes") shapes = std::make_unique<std::ofstream>(argv[i + 1]);
    if (std::string(argv[i]) == "--trace") trace = std::make_unique<std::ofstream>(argv[i + 1]);
  }
  Ctx cx{rep, shapes.get(), trace.get()};
  const bool th = thorough();
  run_group<smooth::SO2d>(cx, rng, th);
  run_group<smooth::SO3d>(cx, rng, th);
  run_group<smooth::SE2d>(cx, rng, th);
  run_group<smooth::SE3d>(cx, rng, th);
  run_group<smooth::C1d>(cx, rng, th);
  run_group<smooth::Galileid>(cx, rng, th);
  run_group<smooth::SE_K_3<double, 1>>(cx, rng, th);
  run_group<smooth::SE_K_3<double, 2>>(cx, rng, th);
  run_group<smooth::SE_K_3<double, 3>>(cx, rng, th);
  run_group<B1>(cx, rng, th);
  run_group<B2>(cx, rng, th);
  run_group<B3>(cx, rng, th);

  {
    std::ostringstream os;
    os.precision(6);
    os << "{\"stat\":\"summary\",\"programs\":" << cx.prog_id << ",\"max_local_defect_lnN\":" << jnum(cx.max_local_defect)
       << ",\"model_eR\":" << ER_MODEL << ",\"max_dev_over_property_bound_linear\":" << jnum(cx.max_dev_ratio)
       << ",\"max_err_over_property_bound_linear\":" << jnum(cx.max_acc_ratio) << ",\"max_dev_over_model_tree_bound\":" << jnum(cx.max_tree_ratio)
       << ",\"reuse_constraint_exceed\":" << cx.reuse_constraint_exceed << ",\"reuse_accuracy_exceed\":" << cx.reuse_accuracy_exceed << ",\"inaccurate_exp\":" << cx.n_explocal << ",\"other_failures\":" << cx.n_other << "}";
    rep.samples.insert(rep.samples.begin(), os.str());
  }
  for (auto & f : cx.fails_other) rep.failures.push_back(f);
  for (auto & f : cx.fails_explocal) rep.failures.push_back(f);
  for (auto & f : cx.fails_reuse) rep.failures.push_back(f);
  rep.nfail = cx.n_other + cx.n_reuse + cx.n_explocal;
  rep.print();
  return 0;
}
#endif
