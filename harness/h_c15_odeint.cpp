// C15 harness, part 2: fixed-step integration of a CONSTANT body velocity through boost::odeint with the library's
// adaptor (compat/odeint.hpp), steppers euler, runge_kutta4, runge_kutta_cash_karp54, runge_kutta_dopri5,
// runge_kutta_fehlberg78.  Every state after every step is checked (finite, constraint, sign) and compared with
// x0 * expm(t hat v) computed directly by the long-double oracle; the final state of integrate_n_steps is compared too.
// Also: scale_sum of every arity 2..14 called directly, against  x (+) sum_i alpha_{i+1} a_i.
#define C15_NO_MAIN
#include "h_c15.cpp"

namespace od = boost::numeric::odeint;

struct OCtx
{
  Report & rep;
  std::vector<std::string> fails;
  long nfail = 0;
  double max_acc_ratio = 0, max_dev_ratio = 0;
  void fail(const std::string & js)
  {
    ++nfail;
    if (fails.size() < 40) fails.push_back(js);
  }
};

inline std::string jn17(double v)
{
  if (!std::isfinite(v)) return "\"nonfinite\"";
  std::ostringstream os;
  os.precision(17);
  os << v;
  return os.str();
}
template<typename V>
std::string jv2(const V & v)
{
  std::ostringstream os;
  os.precision(17);
  os << "[";
  for (Eigen::Index i = 0; i < v.size(); ++i) {
    if (i) os << ",";
    if (std::isfinite(v(i)))
      os << v(i);
    else
      os << "\"nonfinite\"";
  }
  os << "]";
  return os.str();
}

template<typename G>
typename G::Tangent gen_velocity(const std::vector<Part> & ps, Rng & r, double dt)
{
  typename G::Tangent v;
  v.setZero();
  for (auto & p : ps) {
    for (int i = 0; i < p.ndof - p.rot; ++i) v(p.dof + i) = r.sym() * 5;
    if (p.rot) {
      double ax[3];
      rand_axis(r, p.rot, ax);
      // per-step angle in [0.05, 3] (outside the region where the closed-form exp kernels cancel), or no rotation at all
      const double th = r.below(6) == 0 ? 0.0 : (0.05 + 2.95 * r.uni()) / dt;
      for (int i = 0; i < p.rot; ++i) v(p.dof + p.ndof - p.rot + i) = ax[i] * th;
    }
    if (p.kind == PK::C1) v(p.dof + 0) = r.sym() * 0.01 / dt;
  }
  return v;
}

template<typename G, typename Stepper>
void odeint_run(OCtx & cx, Rng & rng, const char * sname, long N)
{
  using Tangent = typename G::Tangent;
  const auto ps = finalize(Lay<G>::parts());
  const std::string gname = Lay<G>::name;
  const double dt = std::ldexp(1.0, -rng.below(7));   // power of two: t = i*dt exactly
  Tangent v       = gen_velocity<G>(ps, rng, dt);
  std::string lab;
  G x0 = rng.below(3) ? G::exp(gen_tangent_lay<G>(ps, rng, &lab, 10, false)) : G::Identity();
  auto sys = [&](const G &, Tangent & d, double) { d = v; };
  ++cx.rep.strata[std::string("odeint.") + sname];

  Mat<ld> M0 = docmat<ld>(ps, x0.coeffs());
  Mat<ld> H  = hatmat<ld>(ps, v);
  auto describe = [&](const char * check, long i, double err, double bound, const G & x) {
    std::ostringstream os;
    os.precision(17);
    os << "{\"check\":\"" << check << "\",\"group\":\"" << gname << "\",\"kind\":\"odeint\",\"shape\":\"linear\",\"stepper\":\"" << sname
       << "\",\"steps\":" << N << ",\"step\":" << i << ",\"dt\":" << dt << ",\"err\":" << jn17(err) << ",\"bound\":" << jn17(bound)
       << ",\"v\":" << jv2(v) << ",\"x0\":" << jv2(x0.coeffs()) << ",\"x\":" << jv2(x.coeffs()) << ",\"seed\":" << seed_from_env() << "}";
    return os.str();
  };
  auto check_state = [&](const G & x, long i, const char * tag) {
    ++cx.rep.evaluations;
    const auto & cf = x.coeffs();
    bool fin        = true;
    for (Eigen::Index k = 0; k < cf.size(); ++k) fin = fin && std::isfinite(cf(k));
    if (!fin) {
      cx.fail(describe((std::string(tag) + "finite").c_str(), i, 0, 0, x));
      return false;
    }
    const long n = 2 * i;   // one exp and one composition per step
    double dev   = 0;
    for (auto s : unit_norms(ps, cf)) dev = std::max(dev, static_cast<double>(std::fabs(s - 1)));
    const double cb = (n + 1) * 1e-14;
    cx.max_dev_ratio = std::max(cx.max_dev_ratio, dev / cb);
    if (!(dev <= cb)) cx.fail(describe((std::string(tag) + "constraint").c_str(), i, dev, cb, x));
    for (auto & p : ps)
      if (p.unit == 4 && !(cf(p.rep + p.nrep - 1) >= 0)) cx.fail(describe((std::string(tag) + "sign").c_str(), i, cf(p.rep + p.nrep - 1), 0, x));
    // x0 * exp(t v), t = i*dt
    Mat<ld> Ht = H;
    for (auto & e : Ht.a) e *= static_cast<ld>(i) * static_cast<ld>(dt);
    Mat<ld> Mx = mul(M0, expm(Ht));
    ld sc      = std::max<ld>(1, std::max<ld>(maxabs(Mx), std::max<ld>(maxabs(M0), maxabs(Ht))));
    double e   = static_cast<double>(maxdiff(docmat<ld>(ps, cf), Mx) / sc);
    const double ab = (n + 1) * 1e-13;
    cx.max_acc_ratio = std::max(cx.max_acc_ratio, e / ab);
    cx.rep.tally(gname + ".odeint." + sname + ".accuracy/bound", e / ab);
    if (!(e <= ab)) {
      cx.fail(describe((std::string(tag) + "accuracy").c_str(), i, e, ab, x));
      return false;
    }
    return true;
  };

  Stepper stepper;
  G x = x0;
  double t = 0;
  for (long i = 1; i <= N; ++i) {
    stepper.do_step(sys, x, t, dt);
    t += dt;
    if (!check_state(x, i, "")) break;   // report the first bad state of a trajectory only
  }
  // the same through integrate_n_steps
  Stepper stepper2;
  G y = x0;
  od::integrate_n_steps(stepper2, sys, y, 0.0, dt, static_cast<size_t>(N));
  check_state(y, N, "integrate_n_steps.");
  if (cx.rep.samples.size() < 4 && N >= 10) cx.rep.samples.push_back(describe("sample-odeint-final", N, 0, 0, y));
}

template<typename G>
void odeint_group(OCtx & cx, Rng & rng, bool th)
{
  using T = typename G::Tangent;
  using A = od::vector_space_algebra;
  for (long N : {1L, 10L, th ? 2000L : 100L}) {
    const int reps = N == 1 ? 6 : 2;
    for (int k = 0; k < reps; ++k) {
      odeint_run<G, od::euler<G, double, T, double, A>>(cx, rng, "euler", N);
      odeint_run<G, od::runge_kutta4<G, double, T, double, A>>(cx, rng, "runge_kutta4", N);
      odeint_run<G, od::runge_kutta_cash_karp54<G, double, T, double, A>>(cx, rng, "runge_kutta_cash_karp54", N);
      odeint_run<G, od::runge_kutta_dopri5<G, double, T, double, A>>(cx, rng, "runge_kutta_dopri5", N);
      odeint_run<G, od::runge_kutta_fehlberg78<G, double, T, double, A>>(cx, rng, "runge_kutta_fehlberg78", N);
    }
  }
}

// scale_sum<Fac...>(alpha_1 .. alpha_{M+1})(y, x, a_1 .. a_M)  for every arity the adaptor declares
template<typename G, size_t... Is>
void ssum_direct(OCtx & cx, Rng & rng, std::index_sequence<Is...>)
{
  using Tangent      = typename G::Tangent;
  constexpr size_t M = sizeof...(Is);
  const auto ps      = finalize(Lay<G>::parts());
  std::array<double, M + 1> al;
  std::array<Tangent, M> as;
  al[0] = 1.0;
  std::string lab;
  Mat<ld> H(total_dim(ps));
  for (size_t i = 0; i < M; ++i) {
    al[i + 1] = 0.1 + rng.uni();          // all different from 1 and from each other: an index shift changes the result
    as[i]     = gen_tangent_lay<G>(ps, rng, &lab, 3, false);
    for (auto & p : ps)
      for (int k = 0; k < p.rot; ++k) as[i](p.dof + p.ndof - p.rot + k) = rng.sym();   // O(1) angles
    Mat<ld> Hi = hatmat<ld>(ps, as[i]);
    for (size_t k = 0; k < H.a.size(); ++k) H.a[k] += static_cast<ld>(al[i + 1]) * Hi.a[k];
  }
  G x = G::exp(gen_tangent_lay<G>(ps, rng, &lab, 3, false));
  G y;
  using SS = typename smooth::detail::BoostOdeintOps::template scale_sum<double, decltype((void)Is, double())...>;
  SS ss(al[0], al[Is + 1]...);
  ss(y, x, as[Is]...);
  ++cx.rep.evaluations;
  ++cx.rep.strata["scale_sum_direct.arity" + std::to_string(M + 1)];
  Mat<ld> Mx = mul(docmat<ld>(ps, x.coeffs()), expm(H));
  ld sc      = std::max<ld>(1, std::max<ld>(maxabs(Mx), maxabs(H)));
  double e   = static_cast<double>(maxdiff(docmat<ld>(ps, y.coeffs()), Mx) / sc);
  cx.rep.tally(std::string(Lay<G>::name) + ".scale_sum_direct", e / 3e-13);
  if (!(e <= 3e-13)) {
    std::ostringstream os;
    os.precision(17);
    os << "{\"check\":\"scale_sum\",\"group\":\"" << Lay<G>::name << "\",\"kind\":\"scale_sum_direct\",\"shape\":\"linear\",\"arity\":" << (M + 1)
       << ",\"err\":" << jn17(e) << ",\"bound\":3e-13,\"x\":" << jv2(x.coeffs()) << ",\"y\":" << jv2(y.coeffs()) << ",\"seed\":" << seed_from_env() << "}";
    cx.fail(os.str());
  }
}
template<typename G, size_t... Ms>
void ssum_all(OCtx & cx, Rng & rng, std::index_sequence<Ms...>)
{
  (ssum_direct<G>(cx, rng, std::make_index_sequence<Ms + 1>()), ...);   // M = 1..13 tangents: arity 2..14
}

int main()
{
  Report rep;
  rep.property = "C15-odeint";
  Rng seeder(seed_from_env());
  seeder.next();
  seeder.next();
  Rng rng(seeder.next() ^ 0x0DE1A7ULL);
  OCtx cx{rep};
  const bool th = thorough();
  odeint_group<smooth::SO2d>(cx, rng, th);
  odeint_group<smooth::SO3d>(cx, rng, th);
  odeint_group<smooth::SE2d>(cx, rng, th);
  odeint_group<smooth::SE3d>(cx, rng, th);
  odeint_group<smooth::Galileid>(cx, rng, th);
  odeint_group<smooth::SE_K_3<double, 2>>(cx, rng, th);
  odeint_group<B1>(cx, rng, th);
  for (int k = 0; k < (th ? 20 : 4); ++k) {
    ssum_all<smooth::SO3d>(cx, rng, std::make_index_sequence<13>());
    ssum_all<smooth::SE3d>(cx, rng, std::make_index_sequence<13>());
    ssum_all<smooth::SE2d>(cx, rng, std::make_index_sequence<13>());
    ssum_all<B1>(cx, rng, std::make_index_sequence<13>());
  }
  {
    std::ostringstream os;
    os.precision(6);
    os << "{\"stat\":\"odeint-summary\",\"max_err_over_bound\":" << jnum(cx.max_acc_ratio) << ",\"max_dev_over_bound\":" << jnum(cx.max_dev_ratio) << "}";
    rep.samples.insert(rep.samples.begin(), os.str());
  }
  for (auto & f : cx.fails) rep.failures.push_back(f);
  rep.nfail = cx.nfail;
  rep.print();
  return 0;
}
