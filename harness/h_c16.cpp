// C16 harness: real Map<G> / Map<const G> / value objects of /repo on one caller-owned buffer with guard zones.
//
// Two jobs:
//  (1) property check + failing-input search against an oracle that does not use the library's view classes:
//      a shadow array updated with memmove semantics at the DOCUMENTED offsets (header comments), value-object
//      results for computed operations (4 ulp), sentinel guards on both sides of the buffer, a read-only
//      (mprotect) page for const views;
//  (2) it writes the operation trace (argv[1]) that the OCaml program extracted from coq/Model/C16_Layout.v
//      replays (extract/C16/driver.ml): model memory must equal the real memory after every call.
//
// Built twice (-DC16_SCALAR=double / float) and, in the thorough tier, also with ASan+UBSan.
#include <signal.h>
#include <sys/mman.h>
#include <unistd.h>

#include <cinttypes>
#include <cstring>
#include <type_traits>
#include <utility>

#include "hcommon.hpp"

#include "smooth/bundle.hpp"
#include "smooth/c1.hpp"
#include "smooth/galilei.hpp"
#include "smooth/se2.hpp"
#include "smooth/se3.hpp"
#include "smooth/se_k_3.hpp"
#include "smooth/so2.hpp"
#include "smooth/so3.hpp"

#ifndef C16_SCALAR
#define C16_SCALAR double
#endif

using namespace smooth;
using namespace hv;
using S = C16_SCALAR;
using U = std::conditional_t<sizeof(S) == 8, uint64_t, uint32_t>;
using O = std::conditional_t<sizeof(S) == 8, float, double>;  // the other scalar (cast target)
using UO = std::conditional_t<sizeof(O) == 8, uint64_t, uint32_t>;
static const char * SCALAR = sizeof(S) == 8 ? "double" : "float";

static U bits(S x)
{
  U u;
  std::memcpy(&u, &x, sizeof u);
  return u;
}
static UO bitso(O x)
{
  UO u;
  std::memcpy(&u, &x, sizeof u);
  return u;
}
static long long okey(U b)
{
  const U sign = U(1) << (8 * sizeof(U) - 1);
  return (b & sign) ? -static_cast<long long>(b & ~sign) : static_cast<long long>(b);
}
static unsigned long long ulpdist(S a, S b)
{
  if (std::isnan(a) && std::isnan(b)) return 0;
  if (std::isnan(a) || std::isnan(b)) return ~0ULL;
  long long ka = okey(bits(a)), kb = okey(bits(b));
  return ka > kb ? static_cast<unsigned long long>(ka) - static_cast<unsigned long long>(kb)
                 : static_cast<unsigned long long>(kb) - static_cast<unsigned long long>(ka);
}
static std::string hex(U u)
{
  char b[32];
  std::snprintf(b, sizeof b, sizeof(U) == 8 ? "%016" PRIx64 : "%08" PRIx64, static_cast<uint64_t>(u));
  return b;
}
static std::string hexo(UO u)
{
  char b[32];
  std::snprintf(b, sizeof b, sizeof(UO) == 8 ? "%016" PRIx64 : "%08" PRIx64, static_cast<uint64_t>(u));
  return b;
}

// ------------------------------------------------------------------------------------------------ names
template<class G>
struct GName;
template<class T> struct GName<SO2<T>> { static std::string get() { return "SO2"; } };
template<class T> struct GName<SO3<T>> { static std::string get() { return "SO3"; } };
template<class T> struct GName<SE2<T>> { static std::string get() { return "SE2"; } };
template<class T> struct GName<SE3<T>> { static std::string get() { return "SE3"; } };
template<class T> struct GName<C1<T>> { static std::string get() { return "C1"; } };
template<class T> struct GName<Galilei<T>> { static std::string get() { return "Galilei"; } };
template<class T, int K> struct GName<SE_K_3<T, K>> { static std::string get() { return "SEK3_" + std::to_string(K); } };
template<class T, int N> struct GName<Eigen::Matrix<T, N, 1>> { static std::string get() { return "E" + std::to_string(N); } };
template<class... Gs>
struct GName<Bundle<Gs...>>
{
  static std::string get()
  {
    std::string r = "B(";
    bool first    = true;
    ((r += (first ? "" : ",") + GName<Gs>::get(), first = false), ...);
    return r + ")";
  }
};

template<class T>
struct smooth_map_of : std::false_type
{};
template<class H>
struct smooth_map_of<Map<H>> : std::true_type
{
  using group = std::remove_const_t<H>;
};
template<class X>
struct group_of
{
  using type = X;
};
template<class H>
struct group_of<Map<H>>
{
  using type = std::remove_const_t<H>;
};
template<class T>
struct is_quat_map : std::false_type
{};
template<class Q, int Opt>
struct is_quat_map<Eigen::Map<Q, Opt>> : std::bool_constant<std::is_base_of_v<Eigen::QuaternionBase<Eigen::Map<Q, Opt>>, Eigen::Map<Q, Opt>>>
{};

// ------------------------------------------------------------------------------------------------ documented layout
// Hand transcription of the "Memory layout" paragraphs of the headers (the oracle of this harness; the library's
// own offsets are never consulted): visit(obj, f) calls f(name, documented offset, documented length, accessor()).
template<class G>
struct DocAcc
{
  template<class X, class F>
  static void visit(X &&, F &&)
  {}
};
template<class T>
struct DocAcc<SO3<T>>  // so3.hpp: [qx qy qz qw]
{
  template<class X, class F>
  static void visit(X && o, F && f)
  {
    f("quat", 0, 4, o.quat());
  }
};
template<class T>
struct DocAcc<SE2<T>>  // se2.hpp:33  [x, y, q_z, q_w]
{
  template<class X, class F>
  static void visit(X && o, F && f)
  {
    f("r2", 0, 2, o.r2());
    f("so2", 2, 2, o.so2());
  }
};
template<class T>
struct DocAcc<SE3<T>>  // se3.hpp:26  [x, y, z, q_x, q_y, q_z, q_w]
{
  template<class X, class F>
  static void visit(X && o, F && f)
  {
    f("r3", 0, 3, o.r3());
    f("so3", 3, 4, o.so3());
  }
};
template<class T>
struct DocAcc<Galilei<T>>  // galilei.hpp:24  [vx vy vz px py pz t qx qy qz qw]
{
  template<class X, class F>
  static void visit(X && o, F && f)
  {
    f("r3_v", 0, 3, o.r3_v());
    f("r3_p", 3, 3, o.r3_p());
    f("r1_t", 6, 1, o.r1_t());
    f("so3", 7, 4, o.so3());
  }
};
template<class T, int K>
struct DocAcc<SE_K_3<T, K>>  // se_k_3.hpp:24  [p1, ..., pk, q_x, q_y, q_z, q_w]
{
  template<class X, class F>
  static void visit(X && o, F && f)
  {
    [&]<int... I>(std::integer_sequence<int, I...>) {
      (f(("r3<" + std::to_string(I) + ">").c_str(), 3 * I, 3, o.template r3<I>()), ...);
      (f(("r3(" + std::to_string(I) + ")").c_str(), 3 * I, 3, o.r3(I)), ...);
    }(std::make_integer_sequence<int, K>{});
    f("so3", 3 * K, 4, o.so3());
  }
};
template<class... Gs>
struct DocAcc<Bundle<Gs...>>  // bundle.hpp: parts one after the other
{
  template<class X, class F>
  static void visit(X && o, F && f)
  {
    constexpr int sizes[] = {liebase_info<Gs>::Impl::RepSize...};
    [&]<std::size_t... I>(std::index_sequence<I...>) {
      auto start = [&](std::size_t i) {
        int s = 0;
        for (std::size_t k = 0; k < i; ++k) s += sizes[k];
        return s;
      };
      (f(("part<" + std::to_string(I) + ">").c_str(), start(I), sizes[I], o.template part<I>()), ...);
    }(std::make_index_sequence<sizeof...(Gs)>{});
  }
};

// all (nested) sub-parts of obj, depth first: leaf(path, documented offset from the outermost object, length, accessor)
template<class X, class F>
void for_each_sub(X & obj, int base, const std::string & prefix, F && leaf)
{
  using G = typename group_of<std::remove_const_t<X>>::type;
  DocAcc<G>::visit(obj, [&](const char * nm, int off, int len, auto acc) {
    const std::string path = prefix.empty() ? std::string(nm) : prefix + "." + nm;
    leaf(path, base + off, len, acc);
    if constexpr (smooth_map_of<decltype(acc)>::value) {
      if constexpr (std::is_const_v<X>) {
        for_each_sub(std::as_const(acc), base + off, path, leaf);
      } else {
        for_each_sub(acc, base + off, path, leaf);
      }
    }
  });
}

// ------------------------------------------------------------------------------------------------ globals
static Report rep;
static FILE * trace = nullptr;
static uint64_t g_seed = 1;
static std::string g_ctx_group, g_ctx_what;

static S rand_cell(Rng & r)
{
  if (r.below(10) == 0) {
    static const double sp[] = {0.0, 1.0, -1.0, 0.5, 1e-8, 1e8, -0.0, 3.0};
    return static_cast<S>(sp[r.below(8)]);
  }
  return static_cast<S>(2 * r.sym());
}
template<class G>
G rand_elem(Rng & r)
{
  typename G::Tangent t;
  for (int i = 0; i < t.size(); ++i) t(i) = static_cast<S>(1.5 * r.sym());
  return G::exp(t);
}

template<class V>
std::string hexvec(const V & v, int n)
{
  std::string s;
  for (int i = 0; i < n; ++i) {
    if (i) s += ' ';
    s += hex(bits(v[i]));
  }
  return s;
}

static void on_segv(int)
{
  // a const view wrote to (or anything read beyond) protected memory
  char b[600];
  int n = std::snprintf(b, sizeof b,
    "{\"property\":\"C16\",\"evaluations\":%ld,\"nfail\":1,\"strata\":{},\"failures\":[{\"check\":\"fault_on_protected_memory\","
    "\"group\":\"%s\",\"scalar\":\"%s\",\"op\":\"%s\",\"seed\":%llu}],\"samples\":[]}\n",
    rep.evaluations, g_ctx_group.c_str(), SCALAR, g_ctx_what.c_str(), static_cast<unsigned long long>(g_seed));
  if (n > 0) { [[maybe_unused]] auto r = write(1, b, static_cast<size_t>(n)); }
  _exit(3);
}

// ------------------------------------------------------------------------------------------------ scenario
struct Handle
{
  int kind;  // 0 value object, 1 Map<G>, 2 Map<const G>
  int off;   // cell offset in the model memory (buffer cells first, then the value objects)
};
static const char * KIND[] = {"val", "map", "cmap"};

template<class G>
struct Scen
{
  static constexpr int N     = G::RepSize;
  static constexpr int GUARD = 8;
  static constexpr int NV    = 2;
  int bufN;
  std::vector<unsigned char> raw;
  S * base = nullptr;  // guards + buffer
  S * buf  = nullptr;
  G vals[NV];
  std::vector<S> shadow;  // expected model memory
  std::vector<U> guard;   // sentinel patterns (2*GUARD)
  std::string gname = GName<G>::get();
  int scen_id = 0, opi = 0, mis = 0;
  bool dead = false;

  int total() const { return bufN + NV * N; }
  const S * valp(int j) const { return reinterpret_cast<const S *>(&vals[j]); }  // raw object bytes, not the library's data()
  S cell(int i) const { return i < bufN ? buf[i] : valp((i - bufN) / N)[(i - bufN) % N]; }
  std::vector<S> mem() const
  {
    std::vector<S> m(total());
    for (int i = 0; i < total(); ++i) m[i] = cell(i);
    return m;
  }
  G from_shadow(int off) const
  {
    G g;
    std::memcpy(g.data(), shadow.data() + off, N * sizeof(S));
    return g;
  }

  void init(Rng & rng, int id)
  {
    static_assert(sizeof(G) >= N * sizeof(S));
    scen_id = id;
    bufN    = 3 * N + 5;
    mis     = rng.below(4);  // 0: 32-byte aligned, 1..3: only scalar-aligned ("unaligned" for Eigen's packets)
    raw.assign((bufN + 2 * GUARD + 16) * sizeof(S) + 64, 0);
    auto p = reinterpret_cast<uintptr_t>(raw.data());
    p      = (p + 31) & ~uintptr_t(31);
    base   = reinterpret_cast<S *>(p) + mis;
    buf    = base + GUARD;
    guard.resize(2 * GUARD);
    for (int i = 0; i < 2 * GUARD; ++i) {
      guard[i] = static_cast<U>(0xA5C3F00DDEADBEEFULL ^ rng.next());
      S * g    = i < GUARD ? base + i : buf + bufN + (i - GUARD);
      std::memcpy(g, &guard[i], sizeof(U));
    }
    for (int i = 0; i < bufN; ++i) buf[i] = rand_cell(rng);
    for (int j = 0; j < NV; ++j) vals[j] = rand_elem<G>(rng);
    // a valid element somewhere in the buffer so that not every view sees garbage
    {
      G g = rand_elem<G>(rng);
      std::memcpy(buf + rng.below(bufN - N + 1), g.data(), N * sizeof(S));
    }
    shadow = mem();
    std::fprintf(trace, "S %d %s %s %d %d %d %d\n", id, gname.c_str(), SCALAR, total(), bufN, N, mis);
    std::fprintf(trace, "M %s\n", hexvec(shadow, total()).c_str());
  }

  void failure(const char * check, const std::string & op, const std::string & extra)
  {
    std::ostringstream os;
    os << "{\"check\":\"" << check << "\",\"group\":\"" << gname << "\",\"scalar\":\"" << SCALAR << "\",\"op\":\"" << op
       << "\"," << extra << "\"scenario\":" << scen_id << ",\"opindex\":" << opi << ",\"misalign_cells\":" << mis
       << ",\"seed\":" << g_seed << "}";
    rep.fail(os.str());
    dead = true;
  }

  // compare the real memory and the guards with the shadow.  [lo,hi) = cells the op is allowed to write
  // (model memory offsets), tol = ulps allowed inside [lo,hi)
  void verify(const std::string & op, int lo, int hi, unsigned tol, const std::string & extra)
  {
    ++rep.evaluations;
    for (int i = 0; i < 2 * GUARD; ++i) {
      const S * g = i < GUARD ? base + i : buf + bufN + (i - GUARD);
      U u;
      std::memcpy(&u, g, sizeof u);
      if (u != guard[i]) {
        failure("guard_corrupted", op, extra + "\"guard_cell\":" + std::to_string(i < GUARD ? i - GUARD : bufN + i - GUARD) + ",");
        return;
      }
    }
    double worst = 0;
    for (int i = 0; i < total(); ++i) {
      const S got = cell(i), want = shadow[i];
      const bool inside = lo <= i && i < hi;
      if (!inside) {
        if (bits(got) != bits(want)) {
          failure("write_outside_view", op,
            extra + "\"cell\":" + std::to_string(i) + ",\"view\":[" + std::to_string(lo) + "," + std::to_string(hi)
              + "],\"got\":\"" + hex(bits(got)) + "\",\"want\":\"" + hex(bits(want)) + "\",");
          return;
        }
      } else {
        auto d = ulpdist(got, want);
        if (d > tol) {
          failure("wrong_content_in_view", op,
            extra + "\"cell\":" + std::to_string(i) + ",\"coeff\":" + std::to_string(i - lo) + ",\"ulps\":"
              + std::to_string(static_cast<double>(d)) + ",\"got\":\"" + hex(bits(got)) + "\",\"want\":\"" + hex(bits(want)) + "\",");
          return;
        }
        worst = std::max(worst, static_cast<double>(d));
      }
    }
    rep.tally(gname + "." + op.substr(0, op.find(':')), worst);
    // continue from the real bits (ulp-level differences must not accumulate into the next comparison)
    for (int i = lo; i < hi; ++i) shadow[i] = cell(i);
    std::fprintf(trace, "B %s\n", hexvec(mem(), total()).c_str());
  }

  template<class F>
  void with_dst(Handle h, F && f)
  {
    if (h.kind == 0) {
      f(vals[(h.off - bufN) / N]);
    } else {
      Map<G> m(buf + h.off);
      f(m);
    }
  }
  template<class F>
  void with_src(Handle h, F && f)
  {
    if (h.kind == 0) {
      f(std::as_const(vals[(h.off - bufN) / N]));
    } else if (h.kind == 1) {
      Map<G> m(buf + h.off);
      f(std::as_const(m));
    } else {
      Map<const G> m(buf + h.off);
      f(std::as_const(m));
    }
  }
};

// a sub-part write performed through the accessor `acc`; returns what was written / what is expected
struct SubWrite
{
  std::string path, what;
  int off = 0, len = 0;
  bool computed = false;
  std::vector<S> inputs, data;
};

template<class A>
void do_sub_write(A acc, Rng & rng, const S * sh, SubWrite & w)
{
  if constexpr (smooth_map_of<A>::value) {
    using H = typename smooth_map_of<A>::group;
    H val   = rand_elem<H>(rng);
    switch (rng.below(4)) {
    case 0: {
      acc    = val;
      w.what = "assign";
      w.data.assign(val.data(), val.data() + H::RepSize);
      break;
    }
    case 1: {
      acc.setIdentity();
      H id;
      id.setIdentity();
      w.what = "setIdentity";
      w.data.assign(id.data(), id.data() + H::RepSize);
      break;
    }
    case 2: {
      H cur;
      std::memcpy(cur.data(), sh, H::RepSize * sizeof(S));
      H r = cur * val;
      acc *= val;
      w.what     = "muleq";
      w.computed = true;
      w.inputs.assign(cur.data(), cur.data() + H::RepSize);
      w.data.assign(r.data(), r.data() + H::RepSize);
      break;
    }
    default: {
      H cur;
      std::memcpy(cur.data(), sh, H::RepSize * sizeof(S));
      typename H::Tangent t;
      for (int i = 0; i < t.size(); ++i) t(i) = static_cast<S>(0.7 * rng.sym());
      H r = cur + t;
      acc += t;
      w.what     = "pluseq";
      w.computed = true;
      w.inputs.assign(cur.data(), cur.data() + H::RepSize);
      w.data.assign(r.data(), r.data() + H::RepSize);
      break;
    }
    }
  } else if constexpr (is_quat_map<A>::value) {
    Eigen::Quaternion<S> q(static_cast<S>(rng.sym()), static_cast<S>(rng.sym()), static_cast<S>(rng.sym()), static_cast<S>(rng.sym()));
    acc    = q;
    w.what = "quat_assign";
    w.data.assign(q.coeffs().data(), q.coeffs().data() + 4);
  } else {
    using V = Eigen::Matrix<S, A::RowsAtCompileTime, 1>;
    V v;
    for (int i = 0; i < v.size(); ++i) v(i) = rand_cell(rng);
    if (rng.below(3) == 0) {
      acc.setZero();
      v.setZero();
      w.what = "vec_setZero";
    } else {
      acc    = v;
      w.what = "vec_assign";
    }
    w.data.assign(v.data(), v.data() + v.size());
  }
}

// ------------------------------------------------------------------------------------------------ one scenario
enum OpKind { ASSIGN, CONSTRUCT, MULEQ, PLUSEQ, SETID, SETRND, SUBPART, COEFFW, READ, CAST, NOPS };
static const char * OPNAME[] = {"assign", "construct", "muleq", "pluseq", "setIdentity", "setRandom", "subpart", "coeff_write", "read", "cast"};

template<class G>
void run_scenario(Rng & rng, int id, int nops, bool copyhist)
{
  constexpr int N = G::RepSize;
  Scen<G> sc;
  sc.init(rng, id);
  ++rep.strata[std::string("align:") + (sc.mis == 0 ? "aligned32" : "scalar_aligned_only")];
  // anchors: views of the one buffer that overlap in every way
  int anchors[5];
  anchors[0] = rng.below(sc.bufN - N + 1);
  anchors[1] = std::min(sc.bufN - N, anchors[0] + 1 + rng.below(std::max(1, N - 1)));  // partial overlap above anchor 0
  anchors[2] = anchors[0];                                                               // identical view
  anchors[3] = rng.below(sc.bufN - N + 1);
  anchors[4] = std::max(0, anchors[0] - 1 - rng.below(std::max(1, N - 1)));             // partial overlap below
  auto pick_dst = [&]() -> Handle {
    if (rng.below(5) == 0) return {0, sc.bufN + N * rng.below(Scen<G>::NV)};
    return {1, anchors[rng.below(5)]};
  };
  auto pick_src = [&]() -> Handle {
    int k = rng.below(7);
    if (k == 0) return {0, sc.bufN + N * rng.below(Scen<G>::NV)};
    return {k <= 3 ? 1 : 2, anchors[rng.below(5)]};
  };
  int ncompute = 0;
  for (sc.opi = 0; sc.opi < nops && !sc.dead; ++sc.opi) {
    int kind = rng.below(NOPS);
    if (copyhist) {
      // histories dominated by stores and copies (the driver evaluates the last-writer-wins function on them)
      static const int ks[] = {ASSIGN, ASSIGN, ASSIGN, CONSTRUCT, SUBPART, COEFFW, SETID, MULEQ, READ};
      kind = ks[rng.below(9)];
      if ((kind == MULEQ) && ncompute >= 2) kind = ASSIGN;
    }
    Handle d = pick_dst(), s = pick_src();
    const std::string pair = std::string(KIND[s.kind]) + "->" + KIND[d.kind];
    std::string extra = "\"dst_kind\":\"" + std::string(KIND[d.kind]) + "\",\"src_kind\":\"" + KIND[s.kind] + "\",\"dst_off\":"
                        + std::to_string(d.off) + ",\"src_off\":" + std::to_string(s.off) + ",";
    g_ctx_group = sc.gname;
    g_ctx_what  = OPNAME[kind];
    switch (kind) {
    case ASSIGN: {
      const bool backward = s.off < d.off && d.off < s.off + N;  // source partially overlapped from below
      const char * cls    = s.off == d.off ? "same_view" : (std::abs(s.off - d.off) >= N ? "disjoint" : (backward ? "alias_backward" : "overlap_forward"));
      ++rep.strata[std::string("assign:") + pair];
      ++rep.strata[std::string("assign_overlap:") + cls];
      sc.with_dst(d, [&](auto & D) { sc.with_src(s, [&](const auto & X) { D = X; }); });
      if (backward) {
        // Eigen's aliasing contract is violated by the caller: only the frame is checked (content unspecified)
        for (int i = 0; i < N; ++i) sc.shadow[d.off + i] = sc.cell(d.off + i);
        std::fprintf(trace, "X %d %d\n", d.off, N);
      } else {
        std::memmove(sc.shadow.data() + d.off, sc.shadow.data() + s.off, N * sizeof(S));
        std::fprintf(trace, "C %d %d %d\n", d.off, s.off, N);
      }
      sc.verify(std::string("assign:") + pair, d.off, d.off + N, 0, extra);
      break;
    }
    case CONSTRUCT: {
      // copy construction from another storage kind (detail/macro.hpp:36-41), stored in a value slot
      int j = rng.below(Scen<G>::NV);
      ++rep.strata[std::string("construct:") + KIND[s.kind]];
      sc.with_src(s, [&](const auto & X) {
        G tmp(X);
        sc.vals[j] = tmp;
      });
      int doff = sc.bufN + j * N;
      std::memmove(sc.shadow.data() + doff, sc.shadow.data() + s.off, N * sizeof(S));
      std::fprintf(trace, "C %d %d %d\n", doff, s.off, N);
      sc.verify(std::string("construct:") + KIND[s.kind], doff, doff + N, 0, extra);
      break;
    }
    case MULEQ: {
      ++ncompute;
      ++rep.strata[std::string("muleq:") + pair];
      G a = sc.from_shadow(d.off), b = sc.from_shadow(s.off);
      G r = a * b;  // value objects holding the same coefficients
      sc.with_dst(d, [&](auto & D) { sc.with_src(s, [&](const auto & X) { D *= X; }); });
      std::fprintf(trace, "K %d %d 2 %d %d %d %d | %s %s | %s\n", d.off, N, d.off, N, s.off, N, hexvec(a.data(), N).c_str(),
        hexvec(b.data(), N).c_str(), hexvec(r.data(), N).c_str());
      std::memcpy(sc.shadow.data() + d.off, r.data(), N * sizeof(S));
      sc.verify(std::string("muleq:") + pair, d.off, d.off + N, 4, extra);
      break;
    }
    case PLUSEQ: {
      ++ncompute;
      ++rep.strata[std::string("pluseq:") + KIND[d.kind]];
      typename G::Tangent t;
      for (int i = 0; i < t.size(); ++i) t(i) = static_cast<S>(0.7 * rng.sym());
      G a = sc.from_shadow(d.off);
      G r = a + t;
      sc.with_dst(d, [&](auto & D) { D += t; });
      std::fprintf(trace, "K %d %d 1 %d %d | %s | %s\n", d.off, N, d.off, N, hexvec(a.data(), N).c_str(), hexvec(r.data(), N).c_str());
      std::memcpy(sc.shadow.data() + d.off, r.data(), N * sizeof(S));
      sc.verify(std::string("pluseq:") + KIND[d.kind], d.off, d.off + N, 4, extra);
      break;
    }
    case SETID:
    case SETRND: {
      ++ncompute;
      ++rep.strata[std::string(OPNAME[kind]) + ":" + KIND[d.kind]];
      G r;
      unsigned sr = static_cast<unsigned>(rng.next());
      if (kind == SETID) {
        r.setIdentity();
        sc.with_dst(d, [&](auto & D) { D.setIdentity(); });
      } else {
        std::srand(sr);
        r.setRandom();
        std::srand(sr);
        sc.with_dst(d, [&](auto & D) { D.setRandom(); });
      }
      std::fprintf(trace, "K %d %d 0 | | %s\n", d.off, N, hexvec(r.data(), N).c_str());
      std::memcpy(sc.shadow.data() + d.off, r.data(), N * sizeof(S));
      sc.verify(std::string(OPNAME[kind]) + ":" + KIND[d.kind], d.off, d.off + N, kind == SETID ? 0 : 4, extra);
      break;
    }
    case SUBPART: {
      // count the (nested) sub-parts, then write through one of them
      int count = 0;
      sc.with_dst(d, [&](auto & D) { for_each_sub(D, 0, "", [&](const std::string &, int, int, auto) { ++count; }); });
      if (count == 0) {
        --sc.opi;  // group without sub-parts (SO2, C1): draw another op
        if (rng.below(64) == 0) ++sc.opi;
        continue;
      }
      int which = rng.below(count), idx = 0;
      SubWrite w;
      sc.with_dst(d, [&](auto & D) {
        for_each_sub(D, 0, "", [&](const std::string & path, int off, int len, auto acc) {
          if (idx++ != which) return;
          w.path = path, w.off = off, w.len = len;
          do_sub_write(acc, rng, sc.shadow.data() + d.off + off, w);
        });
      });
      ++rep.strata["subpart:" + w.what + ":" + KIND[d.kind]];
      ++rep.strata["subpart_accessor:" + sc.gname + "." + w.path];
      if (static_cast<int>(w.data.size()) != w.len) {
        sc.failure("accessor_size", "subpart:" + w.path, extra + "\"accessor\":\"" + w.path + "\",\"size\":" + std::to_string(w.data.size()) + ",");
        break;
      }
      if (w.computed) {
        ++ncompute;
        std::fprintf(trace, "Q %d %s %s | %s | %s\n", d.off, sc.gname.c_str(), w.path.c_str(), hexvec(w.inputs, w.len).c_str(), hexvec(w.data, w.len).c_str());
      } else {
        std::fprintf(trace, "P %d %s %s | %s\n", d.off, sc.gname.c_str(), w.path.c_str(), hexvec(w.data, w.len).c_str());
      }
      std::memcpy(sc.shadow.data() + d.off + w.off, w.data.data(), w.len * sizeof(S));
      sc.verify("subpart:" + w.what, d.off + w.off, d.off + w.off + w.len, w.computed ? 4 : 0,
        extra + "\"accessor\":\"" + w.path + "\",\"documented_range\":[" + std::to_string(w.off) + "," + std::to_string(w.off + w.len) + "],");
      break;
    }
    case COEFFW: {
      int k = rng.below(N);
      S x   = rand_cell(rng);
      ++rep.strata[std::string("coeff_write:") + KIND[d.kind]];
      bool viadata = rng.below(2) == 0;
      sc.with_dst(d, [&](auto & D) {
        if (viadata) {
          D.data()[k] = x;
        } else {
          D.coeffs()(k) = x;
        }
      });
      sc.shadow[d.off + k] = x;
      std::fprintf(trace, "W %d 1 %s\n", d.off + k, hex(bits(x)).c_str());
      sc.verify("coeff_write", d.off + k, d.off + k + 1, 0, extra);
      break;
    }
    case READ: {
      // non-mutating API through any storage kind: same results as a value object with the same coefficients,
      // every (nested) const accessor sees the documented cells, nothing is written
      ++rep.strata[std::string("read:") + KIND[s.kind]];
      G a = sc.from_shadow(s.off);
      G o = rand_elem<G>(rng);
      std::vector<S> seen(N);
      double worst = 0;
      bool bad     = false;
      std::string badwhat;
      auto cmp = [&](const char * what, const auto & got, const auto & want) {
        for (Eigen::Index i = 0; i < got.size(); ++i) {
          auto dd = ulpdist(got.data()[i], want.data()[i]);
          worst   = std::max(worst, static_cast<double>(dd));
          if (dd > 4 && !bad) bad = true, badwhat = std::string(what) + "[" + std::to_string(i) + "]";
        }
      };
      std::vector<std::pair<std::pair<int, int>, std::vector<S>>> subs;
      sc.with_src(s, [&](const auto & X) {
        for (int i = 0; i < N; ++i) seen[i] = X.coeffs()(i);
        cmp("inverse", X.inverse().coeffs(), a.inverse().coeffs());
        cmp("compose", (X * o).coeffs(), (a * o).coeffs());
        cmp("compose_left", (o * X).coeffs(), (o * a).coeffs());
        cmp("log", X.log(), a.log());
        cmp("matrix", X.matrix(), a.matrix());
        cmp("Ad", X.Ad(), a.Ad());
        cmp("rminus", X - o, a - o);
        for_each_sub(X, 0, "", [&](const std::string & path, int off, int len, auto acc) {
          std::vector<S> v(len);
          const S * p;
          if constexpr (requires { acc.coeffs().data(); }) {
            p = acc.coeffs().data();
          } else {
            p = acc.data();
          }
          for (int i = 0; i < len; ++i) v[i] = p[i];
          for (int i = 0; i < len; ++i)
            if (bits(v[i]) != bits(sc.shadow[s.off + off + i]) && !bad) bad = true, badwhat = "const_accessor:" + path + "[" + std::to_string(i) + "]";
          subs.push_back({{s.off + off, len}, v});
        });
      });
      for (int i = 0; i < N; ++i)
        if (bits(seen[i]) != bits(sc.shadow[s.off + i]) && !bad) bad = true, badwhat = "coeffs[" + std::to_string(i) + "]";
      if (bad) {
        sc.failure("read_mismatch", std::string("read:") + KIND[s.kind], extra + "\"what\":\"" + badwhat + "\",");
        break;
      }
      rep.tally(sc.gname + ".read_ulps", worst);
      std::fprintf(trace, "L %d %d | %s\n", s.off, N, hexvec(seen, N).c_str());
      for (auto & sb : subs) std::fprintf(trace, "L %d %d | %s\n", sb.first.first, sb.first.second, hexvec(sb.second, sb.first.second).c_str());
      sc.verify(std::string("read:") + KIND[s.kind], 0, 0, 0, extra);
      break;
    }
    case CAST: {
      ++rep.strata[std::string("cast:") + KIND[s.kind]];
      std::vector<UO> got(N);
      sc.with_src(s, [&](const auto & X) {
        auto c = X.template cast<O>();
        static_assert(std::is_same_v<typename decltype(c)::Scalar, O>);
        for (int i = 0; i < N; ++i) got[i] = bitso(c.coeffs()(i));
        // casting to the own scalar type is the identity on the coefficients
        auto c2 = X.template cast<S>();
        for (int i = 0; i < N; ++i)
          if (bits(c2.coeffs()(i)) != bits(sc.shadow[s.off + i])) got[i] = ~got[i];
      });
      bool bad = false;
      int badi = 0;
      for (int i = 0; i < N; ++i)
        if (got[i] != bitso(static_cast<O>(sc.shadow[s.off + i])) && !bad) bad = true, badi = i;
      if (bad) {
        sc.failure("cast_mismatch", std::string("cast:") + KIND[s.kind], extra + "\"coeff\":" + std::to_string(badi) + ",");
        break;
      }
      std::string hs;
      for (int i = 0; i < N; ++i) hs += (i ? " " : "") + hexo(got[i]);
      std::fprintf(trace, "T %d %d | %s\n", s.off, N, hs.c_str());
      sc.verify(std::string("cast:") + KIND[s.kind], 0, 0, 0, extra);
      break;
    }
    default: break;
    }
  }
  std::fprintf(trace, "E %d %d\n", id, copyhist ? 1 : 0);
  if (id % 97 == 0) {
    std::ostringstream os;
    os << "{\"scenario\":" << id << ",\"group\":\"" << sc.gname << "\",\"scalar\":\"" << SCALAR << "\",\"ops\":" << nops
       << ",\"buffer_cells\":" << sc.bufN << ",\"view_offsets\":[" << anchors[0] << "," << anchors[1] << "," << anchors[2] << ","
       << anchors[3] << "," << anchors[4] << "],\"misalign_cells\":" << sc.mis << ",\"copyhist\":" << (copyhist ? "true" : "false") << "}";
    rep.sample(os.str());
  }
}

// ------------------------------------------------------------------------------------------------ const views on read-only memory
// The coefficients live at the very end of a PROT_READ page that is followed by a PROT_NONE page: any write
// through a Map<const G> (or through a const accessor of it) and any read beyond the viewed range faults.
template<class G>
void const_test(Rng & rng, int reps)
{
  constexpr int N   = G::RepSize;
  const long pagesz = sysconf(_SC_PAGESIZE);
  g_ctx_group       = GName<G>::get();
  for (int c = 0; c < reps; ++c) {
    unsigned char * pg = static_cast<unsigned char *>(mmap(nullptr, 2 * pagesz, PROT_READ | PROT_WRITE, MAP_PRIVATE | MAP_ANONYMOUS, -1, 0));
    if (pg == MAP_FAILED) return;
    S * p  = reinterpret_cast<S *>(pg + pagesz) - N;  // last N scalars of the first page
    G a    = rand_elem<G>(rng);
    std::memcpy(p, a.data(), N * sizeof(S));
    G keep = a;
    mprotect(pg, pagesz, PROT_READ);
    mprotect(pg + pagesz, pagesz, PROT_NONE);
    ++rep.evaluations;
    ++rep.strata["const_view_on_readonly_page"];
    G o = rand_elem<G>(rng);
    double worst = 0;
    bool bad     = false;
    std::string badwhat;
    auto cmp = [&](const char * what, const auto & got, const auto & want) {
      for (Eigen::Index i = 0; i < got.size(); ++i) {
        auto dd = ulpdist(got.data()[i], want.data()[i]);
        worst   = std::max(worst, static_cast<double>(dd));
        if (dd > 4 && !bad) bad = true, badwhat = what;
      }
    };
    {
      g_ctx_what = "const_map_ops";
      Map<const G> X(p);
      cmp("inverse", X.inverse().coeffs(), a.inverse().coeffs());
      cmp("compose", (X * o).coeffs(), (a * o).coeffs());
      cmp("log", X.log(), a.log());
      cmp("matrix", X.matrix(), a.matrix());
      cmp("Ad", X.Ad(), a.Ad());
      cmp("plus", (X + a.log()).coeffs(), (a + a.log()).coeffs());
      G v(X);  // construction from const map
      G v2;
      v2 = X;  // assignment from const map
      G v3 = o;
      v3 *= X;
      cmp("ctor", v.coeffs(), a.coeffs());
      cmp("assign", v2.coeffs(), a.coeffs());
      cmp("muleq_src", v3.coeffs(), (o * a).coeffs());
      auto cf = X.template cast<O>();
      for (int i = 0; i < N; ++i)
        if (bitso(cf.coeffs()(i)) != bitso(static_cast<O>(a.coeffs()(i)))) bad = true, badwhat = "cast";
      g_ctx_what = "const_accessors";
      for_each_sub(std::as_const(X), 0, "", [&](const std::string & path, int off, int len, auto acc) {
        const S * q;
        if constexpr (requires { acc.coeffs().data(); }) {
          q = acc.coeffs().data();
        } else {
          q = acc.data();
        }
        for (int i = 0; i < len; ++i)
          if (bits(q[i]) != bits(a.data()[off + i])) bad = true, badwhat = "const_accessor:" + path;
        if constexpr (smooth_map_of<decltype(acc)>::value) {
          using H = typename smooth_map_of<decltype(acc)>::group;
          H h;
          std::memcpy(h.data(), a.data() + off, H::RepSize * sizeof(S));
          cmp("sub.inverse", acc.inverse().coeffs(), h.inverse().coeffs());
          cmp("sub.log", acc.log(), h.log());
        }
      });
    }
    if (std::memcmp(p, keep.data(), N * sizeof(S)) != 0) bad = true, badwhat = "memory_changed";
    rep.tally(GName<G>::get() + ".const_view_ulps", worst);
    if (bad) {
      std::ostringstream os;
      os << "{\"check\":\"const_view_mismatch\",\"group\":\"" << GName<G>::get() << "\",\"scalar\":\"" << SCALAR << "\",\"op\":\"" << badwhat
         << "\",\"seed\":" << g_seed << "}";
      rep.fail(os.str());
    }
    munmap(pg, 2 * pagesz);
  }
}

template<class G>
void run_group(Rng & rng, int & id, int nscen, int nops)
{
  for (int c = 0; c < nscen; ++c) run_scenario<G>(rng, id++, nops, false);
  for (int c = 0; c < std::max(2, nscen / 4); ++c) run_scenario<G>(rng, id++, nops, true);
  const_test<G>(rng, std::max(2, nscen / 4));
}

int main(int argc, char ** argv)
{
  g_seed = seed_from_env();
  Rng rng(g_seed * 0x9E3779B97F4A7C15ULL + (sizeof(S) == 8 ? 16 : 1600));
  rep.property = "C16";
  trace        = std::fopen(argc > 1 ? argv[1] : "/dev/null", "w");
  if (!trace) return 2;
  struct sigaction sa;
  std::memset(&sa, 0, sizeof sa);
  sa.sa_handler = on_segv;
  sigaction(SIGSEGV, &sa, nullptr);
  sigaction(SIGBUS, &sa, nullptr);

  const int nscen = argc > 2 ? std::atoi(argv[2]) : (thorough() ? 240 : 24);
  const int nops  = argc > 3 ? std::atoi(argv[3]) : 30;
  using V1 = Eigen::Matrix<S, 1, 1>;
  using V2 = Eigen::Matrix<S, 2, 1>;
  using V3 = Eigen::Matrix<S, 3, 1>;
  using V4 = Eigen::Matrix<S, 4, 1>;
  int id = 0;
  run_group<SO2<S>>(rng, id, nscen, nops);
  run_group<SO3<S>>(rng, id, nscen, nops);
  run_group<SE2<S>>(rng, id, nscen, nops);
  run_group<SE3<S>>(rng, id, nscen, nops);
  run_group<C1<S>>(rng, id, nscen, nops);
  run_group<Galilei<S>>(rng, id, nscen, nops);
  run_group<SE_K_3<S, 1>>(rng, id, nscen, nops);
  run_group<SE_K_3<S, 2>>(rng, id, nscen, nops);
  run_group<SE_K_3<S, 3>>(rng, id, nscen, nops);
  run_group<Bundle<SO3<S>, V3, SE2<S>>>(rng, id, nscen, nops);
  run_group<Bundle<SE3<S>, Bundle<SO2<S>, V2>, Galilei<S>>>(rng, id, nscen, nops);
  run_group<Bundle<V1, C1<S>, SE_K_3<S, 2>, V4, SO2<S>>>(rng, id, nscen, nops);
  std::fclose(trace);
  rep.print();
  return 0;
}
