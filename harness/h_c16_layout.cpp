// C16 layout dumper ("translator" of property C16).
//
// For every group and Bundle of the pool, for both scalar types, and for every way the accessor overloads
// can be reached (value object / Map<G> / Map<const G>, through a mutable or a const reference), it MEASURES on
// the real classes of /repo
//     accessor().data() - data()        and the number of scalars of the accessor's result
// for every sub-part accessor (part<i>, so2, so3, r2, r3, r3_v, r3_p, r1_t, r3<k>, quat), recursively
// (accessors of accessors; offsets are relative to the outermost data()).  It also measures, with
// requires-expressions, which mutating members exist for each storage kind (the "op alphabet").
// Output: one JSON object per line on stdout; scripts/props_C16.py turns it into coq/Gen/LayoutC16.v.
// Nothing in this file knows an offset: every number printed is computed by the library's own code.
#include <cstdio>
#include <string>
#include <type_traits>
#include <utility>
#include <vector>

#include <Eigen/Core>

#include "smooth/bundle.hpp"
#include "smooth/c1.hpp"
#include "smooth/galilei.hpp"
#include "smooth/se2.hpp"
#include "smooth/se3.hpp"
#include "smooth/se_k_3.hpp"
#include "smooth/so2.hpp"
#include "smooth/so3.hpp"

using namespace smooth;

// ---------------------------------------------------------------- type classification
template<class T>
struct smooth_map_of : std::false_type
{};
template<class H>
struct smooth_map_of<Map<H>> : std::true_type
{
  using group                    = std::remove_const_t<H>;
  static constexpr bool writable = !std::is_const_v<H>;
};

template<class T>
struct eigen_map_of : std::false_type
{};
template<class P, int O, class St>
struct eigen_map_of<Eigen::Map<P, O, St>> : std::true_type
{
  static constexpr bool writable = !std::is_const_v<P>;
};

template<class A>
const void * acc_ptr(const A & a)
{
  if constexpr (requires { a.coeffs().data(); }) {
    return static_cast<const void *>(a.coeffs().data());  // smooth::Map, Eigen::Map<Quaternion>
  } else {
    return static_cast<const void *>(a.data());
  }
}
template<class A>
int acc_size(const A & a)
{
  if constexpr (requires { a.coeffs().size(); }) {
    return static_cast<int>(a.coeffs().size());
  } else {
    return static_cast<int>(a.size());
  }
}

// ---------------------------------------------------------------- accessor enumeration per group
// visit(obj, f): calls f(name, obj.accessor()) for every sub-part accessor of the group; `obj` is passed with
// the value category under test, so overload resolution picks the mutable or the const overload exactly as it
// does in user code.
template<class G>
struct Acc
{
  template<class O, class F>
  static void visit(O &&, F &&)
  {}
  static const char * name() { return "?"; }
};
#define ACC1(f, o, n) f(n, (o).n())

template<class S>
struct Acc<SO2<S>>
{
  template<class O, class F>
  static void visit(O &&, F &&)
  {}
};
template<class S>
struct Acc<C1<S>>
{
  template<class O, class F>
  static void visit(O &&, F &&)
  {}
};
template<class S>
struct Acc<SO3<S>>
{
  template<class O, class F>
  static void visit(O && o, F && f)
  {
    f("quat", o.quat());
  }
};
template<class S>
struct Acc<SE2<S>>
{
  template<class O, class F>
  static void visit(O && o, F && f)
  {
    f("r2", o.r2());
    f("so2", o.so2());
  }
};
template<class S>
struct Acc<SE3<S>>
{
  template<class O, class F>
  static void visit(O && o, F && f)
  {
    f("r3", o.r3());
    f("so3", o.so3());
  }
};
template<class S>
struct Acc<Galilei<S>>
{
  template<class O, class F>
  static void visit(O && o, F && f)
  {
    f("r3_v", o.r3_v());
    f("r3_p", o.r3_p());
    f("r1_t", o.r1_t());
    f("so3", o.so3());
  }
};
template<class S, int K>
struct Acc<SE_K_3<S, K>>
{
  template<class O, class F>
  static void visit(O && o, F && f)
  {
    [&]<int... I>(std::integer_sequence<int, I...>) {
      (f(("r3<" + std::to_string(I) + ">").c_str(), o.template r3<I>()), ...);
      // the run-time-indexed overload r3(int) is a separate line of code: measured under its own name
      (f(("r3(" + std::to_string(I) + ")").c_str(), o.r3(I)), ...);
    }(std::make_integer_sequence<int, K>{});
    f("so3", o.so3());
  }
};
template<class... Gs>
struct Acc<Bundle<Gs...>>
{
  template<class O, class F>
  static void visit(O && o, F && f)
  {
    [&]<std::size_t... I>(std::index_sequence<I...>) {
      (f(("part<" + std::to_string(I) + ">").c_str(), o.template part<I>()), ...);
    }(std::make_index_sequence<sizeof...(Gs)>{});
  }
};

// canonical names of group types (keys of the generated table)
template<class G>
struct GName;
template<class S> struct GName<SO2<S>> { static std::string get() { return "SO2"; } };
template<class S> struct GName<SO3<S>> { static std::string get() { return "SO3"; } };
template<class S> struct GName<SE2<S>> { static std::string get() { return "SE2"; } };
template<class S> struct GName<SE3<S>> { static std::string get() { return "SE3"; } };
template<class S> struct GName<C1<S>> { static std::string get() { return "C1"; } };
template<class S> struct GName<Galilei<S>> { static std::string get() { return "Galilei"; } };
template<class S, int K> struct GName<SE_K_3<S, K>> { static std::string get() { return "SEK3_" + std::to_string(K); } };
template<class S, int N> struct GName<Eigen::Matrix<S, N, 1>> { static std::string get() { return "E" + std::to_string(N); } };
template<class... Gs>
struct GName<Bundle<Gs...>>
{
  static std::string get()
  {
    std::string r = "B(";
    bool first    = true;
    ((r += (first ? "" : ",") + GName<Gs>::get(), first = false), ...);
    return r + ")";
  }
};

// RepSize of a Bundle part, taken from the part's OWN group implementation (not from BundleImpl's arrays)
template<class B>
struct PartSizes
{
  static std::vector<int> get() { return {}; }
};
template<class... Gs>
struct PartSizes<Bundle<Gs...>>
{
  static std::vector<int> get() { return {liebase_info<Gs>::Impl::RepSize...}; }
};

// ---------------------------------------------------------------- recursive measurement
template<class S>
struct Ctx
{
  const char * group;
  const char * scalar;
  const char * kind;
  const S * base;
  bool cst;  // access nested results through const references as well
};

template<class G, class S, class O>
void measure(const Ctx<S> & c, const std::string & prefix, O && obj)
{
  Acc<G>::visit(std::forward<O>(obj), [&](const char * nm, auto acc) {
    using A                 = decltype(acc);
    const std::string path  = prefix.empty() ? std::string(nm) : prefix + "." + nm;
    const S * p             = static_cast<const S *>(acc_ptr(acc));
    const long off          = static_cast<long>(p - c.base);
    const int size          = acc_size(acc);
    bool writable           = false;
    const char * res        = "?";
    if constexpr (smooth_map_of<A>::value) {
      writable = smooth_map_of<A>::writable;
      res      = "smooth";
    } else if constexpr (eigen_map_of<A>::value) {
      writable = eigen_map_of<A>::writable;
      res      = "eigen";
    }
    std::printf(
      "{\"t\":\"acc\",\"group\":\"%s\",\"scalar\":\"%s\",\"kind\":\"%s\",\"path\":\"%s\",\"parent\":\"%s\",\"name\":\"%s\","
      "\"off\":%ld,\"size\":%d,\"writable\":%s,\"result\":\"%s\"",
      c.group, c.scalar, c.kind, path.c_str(), prefix.c_str(), nm, off, size, writable ? "true" : "false", res);
    if constexpr (smooth_map_of<A>::value) {
      using H = typename smooth_map_of<A>::group;
      std::printf(",\"sub\":\"%s\",\"subsize\":%d}\n", GName<H>::get().c_str(), static_cast<int>(H::RepSize));
      if (c.cst) {
        measure<H, S>(c, path, std::as_const(acc));
      } else {
        measure<H, S>(c, path, acc);
      }
    } else {
      std::printf(",\"sub\":\"\",\"subsize\":%d}\n", size);
    }
  });
}

template<class G>
void dump_group(const char * gtype)
{
  const std::string gname_s = GName<G>::get();
  const char * gname        = gname_s.c_str();
  using S             = typename G::Scalar;
  const char * scalar = sizeof(S) == 4 ? "float" : "double";
  constexpr int N     = G::RepSize;
  std::printf("{\"t\":\"group\",\"group\":\"%s\",\"type\":\"%s\",\"scalar\":\"%s\",\"repsize\":%d,\"dof\":%d,\"parts\":[", gname,
    gtype, scalar, N, static_cast<int>(G::Dof));
  {
    auto ps = PartSizes<G>::get();
    for (size_t i = 0; i < ps.size(); ++i) std::printf("%s%d", i ? "," : "", ps[i]);
  }
  std::printf("]}\n");

  alignas(32) S raw[N + 8];
  for (int i = 0; i < N + 8; ++i) raw[i] = S(0);
  S * buf = raw + 3;  // a Map over caller memory that is not 16/32-byte aligned

  G g;
  g.setIdentity();
  Map<G> m(buf);
  m.setIdentity();
  Map<const G> cm(buf);

  measure<G, S>(Ctx<S>{gname, scalar, "val_mut", g.data(), false}, "", g);
  measure<G, S>(Ctx<S>{gname, scalar, "val_const", std::as_const(g).data(), true}, "", std::as_const(g));
  measure<G, S>(Ctx<S>{gname, scalar, "map_mut", m.data(), false}, "", m);
  measure<G, S>(Ctx<S>{gname, scalar, "map_const", std::as_const(m).data(), true}, "", std::as_const(m));
  measure<G, S>(Ctx<S>{gname, scalar, "cmap", cm.data(), true}, "", std::as_const(cm));
  measure<G, S>(Ctx<S>{gname, scalar, "cmap_lv", cm.data(), false}, "", cm);  // non-const lvalue of a const map

  // data() of a view is the pointer it was given (offset 0 of the view is the first viewed scalar)
  std::printf("{\"t\":\"base\",\"group\":\"%s\",\"scalar\":\"%s\",\"map_data_minus_ptr\":%ld,\"cmap_data_minus_ptr\":%ld,"
              "\"map_coeffs_size\":%d,\"cmap_coeffs_size\":%d,\"val_coeffs_size\":%d}\n",
    gname, scalar, static_cast<long>(m.data() - buf), static_cast<long>(cm.data() - buf), static_cast<int>(m.coeffs().size()),
    static_cast<int>(cm.coeffs().size()), static_cast<int>(g.coeffs().size()));

  // op alphabet per storage kind, measured by overload resolution / constraints on the real classes
  using T   = typename G::Tangent;
  auto caps = [&]<class X>(const char * kind, std::type_identity<X>) {
    const bool asg_val  = requires(X & x, const G & o) { x = o; };
    const bool asg_map  = requires(X & x, const Map<G> & o) { x = o; };
    const bool asg_cmap = requires(X & x, const Map<const G> & o) { x = o; };
    const bool muleq    = requires(X & x, const G & o) { x *= o; };
    const bool pluseq   = requires(X & x, const T & t) { x += t; };
    const bool coeffs_w = requires(X & x) { x.coeffs().coeffRef(0) = S(0); };
    const bool data_w   = requires(X & x) { *x.data() = S(0); };
    // read-side API is the same for every kind
    const bool rd = requires(const X & x, const G & o) {
      x.coeffs();
      x.data();
      x.inverse();
      x.log();
      x * o;
      x.matrix();
      x.template cast<float>();
      x.template cast<double>();
      G(x);
    };
    std::printf("{\"t\":\"caps\",\"group\":\"%s\",\"scalar\":\"%s\",\"kind\":\"%s\",\"assign_from_val\":%d,\"assign_from_map\":%d,"
                "\"assign_from_cmap\":%d,\"muleq\":%d,\"pluseq\":%d,\"coeffs_write\":%d,\"data_write\":%d,\"read_api\":%d}\n",
      gname, scalar, kind, asg_val, asg_map, asg_cmap, muleq, pluseq, coeffs_w, data_w, rd);
  };
  caps("val", std::type_identity<G>{});
  caps("map", std::type_identity<Map<G>>{});
  caps("cmap", std::type_identity<Map<const G>>{});
}

template<class S>
void dump_all()
{
  using V1 = Eigen::Matrix<S, 1, 1>;
  using V2 = Eigen::Matrix<S, 2, 1>;
  using V3 = Eigen::Matrix<S, 3, 1>;
  using V4 = Eigen::Matrix<S, 4, 1>;
  dump_group<SO2<S>>("SO2");
  dump_group<SO3<S>>("SO3");
  dump_group<SE2<S>>("SE2");
  dump_group<SE3<S>>("SE3");
  dump_group<C1<S>>("C1");
  dump_group<Galilei<S>>("Galilei");
  dump_group<SE_K_3<S, 1>>("SE_K_3");
  dump_group<SE_K_3<S, 2>>("SE_K_3");
  dump_group<SE_K_3<S, 3>>("SE_K_3");
  dump_group<SE_K_3<S, 5>>("SE_K_3");
  // Bundle pool (incl. Eigen vectors, nesting up to depth 3, a singleton); inner bundles are measured on
  // their own as well so that nested offsets can be related to them
  dump_group<Bundle<SO3<S>, V3, SE2<S>>>("Bundle");
  dump_group<Bundle<SO2<S>, V2>>("Bundle");
  dump_group<Bundle<SE3<S>, Bundle<SO2<S>, V2>, Galilei<S>>>("Bundle");
  dump_group<Bundle<V1, C1<S>, SE_K_3<S, 2>, V4, SO2<S>>>("Bundle");
  dump_group<Bundle<SE2<S>>>("Bundle");
  dump_group<Bundle<SO3<S>, V2>>("Bundle");
  dump_group<Bundle<Bundle<SO3<S>, V2>, SE2<S>>>("Bundle");
  dump_group<Bundle<Bundle<Bundle<SO3<S>, V2>, SE2<S>>, V3>>("Bundle");
  dump_group<Bundle<V2, V3>>("Bundle");
}

int main()
{
  dump_all<double>();
  dump_all<float>();
  std::printf("{\"t\":\"end\"}\n");
  return 0;
}
