// C16 compile probes: statements whose ill-formedness on a Map<const G> is a HARD error inside a member body
// (setIdentity / setRandom are unconstrained templates-members of LieGroupBase; the implicit copy assignment of
// Map<const G> is declared but cannot be instantiated), so a requires-expression cannot see it.
// scripts/props_C16.py compiles this file with -fsyntax-only once per (GROUP, STORAGE, PROBE) and records whether
// it compiled.  STORAGE: 0 = Map<G> (positive control, must compile), 1 = Map<const G> (must NOT compile).
#include <Eigen/Core>

#include "smooth/bundle.hpp"
#include "smooth/c1.hpp"
#include "smooth/galilei.hpp"
#include "smooth/se2.hpp"
#include "smooth/se3.hpp"
#include "smooth/se_k_3.hpp"
#include "smooth/so2.hpp"
#include "smooth/so3.hpp"

using namespace smooth;
using S  = double;
using V2 = Eigen::Matrix<S, 2, 1>;
using V3 = Eigen::Matrix<S, 3, 1>;

#if STORAGE == 0
template<class G>
using View = Map<G>;
using Ptr  = S *;
#else
template<class G>
using View = Map<const G>;
using Ptr  = const S *;
#endif

template<class G>
void probe(Ptr p, Ptr q)
{
  View<G> x(p);
  View<G> y(q);
#if PROBE == 0
  x.setIdentity();
#elif PROBE == 1
  x.setRandom();
#elif PROBE == 2
  x = y;
#elif PROBE == 3
  (void)x.inverse();  // control: reading always compiles
  (void)(x * y);
  (void)x.log();
  G v(x);
  (void)v;
#endif
}

int main()
{
  S a[64] = {}, b[64] = {};
  probe<GROUP>(a, b);
  return 0;
}
