#define HV_EIGEN_ASSERT_THROWS
// C17 numeric harness on the real library: subgroup relations, lifts / projections, C1 factorisation, axis rotations,
// conversions (quaternion, complex, isometry, Euler), SO2 angle ranges incl. the branch cuts and signed zeros.
#include "docmat.hpp"
#include <complex>
using namespace hv;
static Report * REP;

template<typename A, typename B>
void near(const std::string & key, const A & a, const B & b, double tol, const std::string & ctx)
{
  double e = 0;
  if (a.rows() != b.rows() || a.cols() != b.cols())
    e = 1e300;
  else if (a.size())
    e = (a.template cast<double>() - b.template cast<double>()).cwiseAbs().maxCoeff();
  if (!std::isfinite(e)) e = 1e300;
  REP->tally(key, e);
  if (!(e <= tol)) {
    std::ostringstream os;
    os.precision(17);
    os << "{\"check\":\"" << key << "\",\"err\":" << e << ",\"tol\":" << tol << ",\"ctx\":" << ctx << "}";
    REP->fail(os.str(), key, e);
  }
}
void truth(const std::string & key, bool ok, double val, const std::string & ctx)
{
  REP->tally(key, ok ? 0 : 1);
  if (!ok) {
    std::ostringstream os;
    os.precision(17);
    os << "{\"check\":\"" << key << "\",\"value\":" << val << ",\"ctx\":" << ctx << "}";
    REP->fail(os.str(), key, val);
  }
}

template<typename S>
void angles(Rng & rng, int n)
{
  using namespace smooth;
  const std::string sfx = sizeof(S) == 4 ? "f" : "d";
  const S pi = static_cast<S>(M_PI);
  auto one = [&](S qz, S qw, const char * lab) {
    SO2<S> g;
    g.coeffs() << qz, qw;
    ++REP->evaluations;
    ++REP->strata[std::string("angle:") + lab];
    std::ostringstream c;
    c.precision(17);
    c << "{\"qz\":" << static_cast<double>(qz) << ",\"qw\":" << static_cast<double>(qw) << ",\"neg_zero_qz\":" << (std::signbit(qz) && qz == 0)
      << ",\"stratum\":\"" << lab << "\"}";
    const S a = g.angle(), cw = g.angle_cw(), ccw = g.angle_ccw();
    truth("angle_range" + sfx, a >= -pi && a <= pi, a, c.str());
    truth("angle_cw_range" + sfx, cw >= -2 * pi && cw <= 0, cw, c.str());
    truth("angle_ccw_range" + sfx, ccw >= 0 && ccw <= 2 * pi, ccw, c.str());
    auto cong = [&](S x, S y) {
      long double d = (static_cast<long double>(x) - static_cast<long double>(y)) / (2 * M_PIl);
      return std::fabs(static_cast<double>(d - std::round(d))) < (sizeof(S) == 4 ? 1e-6 : 1e-14);
    };
    truth("angle_cw_congruent" + sfx, cong(cw, a), cw - a, c.str());
    truth("angle_ccw_congruent" + sfx, cong(ccw, a), ccw - a, c.str());
    // the angles reproduce the element
    SO2<S> b1(a), b2(cw), b3(ccw);
    const double tol = sizeof(S) == 4 ? 1e-6 : 1e-15;
    near("angle_roundtrip" + sfx, b1.coeffs(), g.coeffs(), tol, c.str());
    near("angle_cw_roundtrip" + sfx, b2.coeffs(), g.coeffs(), tol, c.str());
    near("angle_ccw_roundtrip" + sfx, b3.coeffs(), g.coeffs(), tol, c.str());
  };
  // branch cuts, signed zeros and their neighbours
  const S z = 0, nz = -z;
  for (S qw : {S(1), S(-1)})
    for (S qz : {z, nz, std::numeric_limits<S>::denorm_min(), -std::numeric_limits<S>::denorm_min(),
                 std::numeric_limits<S>::epsilon(), -std::numeric_limits<S>::epsilon()})
      one(qz, qw, "cut");
  for (S qz : {S(1), S(-1)})
    for (S qw : {z, nz, std::numeric_limits<S>::epsilon(), -std::numeric_limits<S>::epsilon()}) one(qz, qw, "quarter");
  for (int i = 0; i < n; ++i) {
    double t = rng.below(4) == 0 ? (rng.below(2) ? M_PI : -M_PI) + rng.sym() * rng.logu(1e-17, 1e-3) : rng.sym() * 7;
    one(static_cast<S>(std::sin(t)), static_cast<S>(std::cos(t)), "random");
  }
}

void relations(Rng & rng, int n)
{
  using namespace smooth;
  using SK1 = SE_K_3<double, 1>;
  using SK2 = SE_K_3<double, 2>;
  for (int c = 0; c < n; ++c) {
    ++REP->evaluations;
    ++REP->strata["relations"];
    std::string l;
    // ---- SE_K_3<1> coincides with SE3
    SE3d a = gen_elem<SE3d>(rng, &l), b = gen_elem<SE3d>(rng);
    SK1 a1, b1;
    a1.coeffs() = a.coeffs();
    b1.coeffs() = b.coeffs();
    Eigen::Matrix<double, 6, 1> v = gen_tangent<SE3d>(rng), w = gen_tangent<SE3d>(rng);
    std::ostringstream cs;
    cs.precision(17);
    cs << "{\"a\":" << jvec(a.coeffs()) << ",\"b\":" << jvec(b.coeffs()) << ",\"v\":" << jvec(v) << "}";
    const std::string ctx = cs.str();
    near("sek1.comp", (a1 * b1).coeffs(), (a * b).coeffs(), 0, ctx);
    near("sek1.inv", a1.inverse().coeffs(), a.inverse().coeffs(), 0, ctx);
    near("sek1.log", a1.log(), a.log(), 1e-15 * (1 + a.log().cwiseAbs().maxCoeff()), ctx);
    near("sek1.exp", SK1::exp(v).coeffs(), SE3d::exp(v).coeffs(), 1e-15 * (1 + v.cwiseAbs().maxCoeff()), ctx);
    near("sek1.Ad", a1.Ad(), a.Ad(), 0, ctx);
    near("sek1.ad", SK1::ad(v), SE3d::ad(v), 0, ctx);
    near("sek1.dr_exp", SK1::dr_exp(v), SE3d::dr_exp(v), 0, ctx);
    near("sek1.dr_expinv", SK1::dr_expinv(v), SE3d::dr_expinv(v), 1e-13 * (1 + SE3d::dr_expinv(v).cwiseAbs().maxCoeff()), ctx);
    near("sek1.matrix", a1.matrix(), a.matrix(), 0, ctx);
    near("sek1.hat", SK1::hat(v), SE3d::hat(v), 0, ctx);
    // ---- SE_K_3<2> is the zero-time subgroup of Galilei
    SK2 x = gen_elem<SK2>(rng), y = gen_elem<SK2>(rng);
    auto iota = [](const SK2 & s) {
      Galileid g;
      g.coeffs().template head<6>()  = s.coeffs().template head<6>();
      g.coeffs()(6)                  = 0;
      g.coeffs().template tail<4>()  = s.coeffs().template tail<4>();
      return g;
    };
    auto iota_t = [](const Eigen::Matrix<double, 9, 1> & t) {
      Eigen::Matrix<double, 10, 1> r;
      r.template head<6>() = t.template head<6>();
      r(6)                 = 0;
      r.template tail<3>() = t.template tail<3>();
      return r;
    };
    Eigen::Matrix<double, 9, 1> t9 = gen_tangent<SK2>(rng, nullptr, false, 10);
    const double tl = 1e-12;
    near("sek2.comp", iota(x * y).coeffs(), (iota(x) * iota(y)).coeffs(), 1e-12 * (1 + (x * y).coeffs().cwiseAbs().maxCoeff()), ctx);
    near("sek2.inv", iota(x.inverse()).coeffs(), iota(x).inverse().coeffs(), 1e-12 * (1 + x.coeffs().cwiseAbs().maxCoeff()), ctx);
    {
      // exp / log: the C02 tolerance (different formulas in the two groups)
      auto e1 = iota(SK2::exp(t9)).coeffs(), e2 = Galileid::exp(iota_t(t9)).coeffs();
      double rn = t9.template tail<3>().norm();
      std::ostringstream c2;
      c2.precision(17);
      c2 << "{\"t\":" << jvec(t9) << ",\"rotnorm\":" << rn << "}";
      double e = (e1 - e2).cwiseAbs().maxCoeff() / (1 + e1.cwiseAbs().maxCoeff());
      REP->tally("sek2.exp", e);
      if (!(e <= 1e-9)) {
        std::ostringstream os;
        os.precision(17);
        os << "{\"check\":\"sek2.exp\",\"err\":" << e << ",\"rotnorm\":" << rn << ",\"t\":" << jvec(t9) << "}";
        REP->fail(os.str(), "sek2.exp", rn);
      }
      near("sek2.log", iota_t(x.log()), iota(x).log(), 1e-9 * (1 + x.log().cwiseAbs().maxCoeff()), ctx);
    }
    near("sek2.Ad", iota_t(x.Ad() * t9), iota(x).Ad() * iota_t(t9), tl * (1 + (x.Ad() * t9).cwiseAbs().maxCoeff()), ctx);
    near("sek2.ad", iota_t(SK2::ad(t9) * y.log()), Galileid::ad(iota_t(t9)) * iota_t(y.log()), tl * (1 + (SK2::ad(t9) * y.log()).cwiseAbs().maxCoeff()), ctx);
    near("sek2.dr_exp", iota_t(SK2::dr_exp(t9) * y.log()), Galileid::dr_exp(iota_t(t9)) * iota_t(y.log()), 1e-9 * (1 + (SK2::dr_exp(t9) * y.log()).cwiseAbs().maxCoeff()), ctx);
    if (t9.template tail<3>().norm() < M_PI - 1e-3)
      near("sek2.dr_expinv", iota_t(SK2::dr_expinv(t9) * y.log()), Galileid::dr_expinv(iota_t(t9)) * iota_t(y.log()), 1e-8 * (1 + (SK2::dr_expinv(t9) * y.log()).cwiseAbs().maxCoeff()), ctx);
    (void)w;
    // ---- lifts are injective homomorphisms inverted by the projections
    SO2d s1 = gen_elem<SO2d>(rng), s2 = gen_elem<SO2d>(rng);
    near("lift_so3.hom", (s1 * s2).lift_so3().matrix(), (s1.lift_so3() * s2.lift_so3()).matrix(), 1e-14, ctx);
    near("lift_so3.project", s1.lift_so3().project_so2().coeffs(), s1.coeffs(), 1e-15, ctx);
    {
      Eigen::Matrix3d want = Eigen::Matrix3d::Identity();
      want.topLeftCorner<2, 2>() = s1.matrix();
      near("lift_so3.matrix", s1.lift_so3().matrix(), want, 1e-15, ctx);
    }
    SE2d p1 = gen_elem<SE2d>(rng), p2 = gen_elem<SE2d>(rng);
    near("lift_se3.hom", (p1 * p2).lift_se3().matrix(), (p1.lift_se3() * p2.lift_se3()).matrix(), 1e-12 * (1 + (p1 * p2).coeffs().cwiseAbs().maxCoeff()), ctx);
    near("lift_se3.project", p1.lift_se3().project_se2().coeffs(), p1.coeffs(), 1e-15 * (1 + p1.coeffs().cwiseAbs().maxCoeff()), ctx);
    // ---- C1 = scaling * so2
    C1d cc = gen_elem<C1d>(rng);
    near("c1.factor", cc.matrix(), cc.scaling() * cc.so2().matrix(), 1e-15 * (1 + cc.scaling()), ctx);
    near("c1.complex", C1d(cc.c1()).coeffs(), cc.coeffs(), 0, ctx);
    // ---- axis rotations = exp(t e_i)
    {
      double t = strat_angle(rng, true).v * (rng.below(2) ? 1 : -1);
      near("rot_x", SO3d::rot_x(t).matrix(), SO3d::exp(t * Eigen::Vector3d::UnitX()).matrix(), 1e-14, ctx);
      near("rot_y", SO3d::rot_y(t).matrix(), SO3d::exp(t * Eigen::Vector3d::UnitY()).matrix(), 1e-14, ctx);
      near("rot_z", SO3d::rot_z(t).matrix(), SO3d::exp(t * Eigen::Vector3d::UnitZ()).matrix(), 1e-14, ctx);
      if (std::fabs(t) <= M_PI - 1e-9) {
        near("rot_x_coeffs", SO3d::rot_x(t).coeffs(), SO3d::exp(t * Eigen::Vector3d::UnitX()).coeffs(), 1e-15, ctx);
      }
      truth("rot_canonical", SO3d::rot_x(t).coeffs()(3) >= 0 && SO3d::rot_y(t).coeffs()(3) >= 0 && SO3d::rot_z(t).coeffs()(3) >= 0, t, ctx);
    }
    // ---- conversions
    {
      Eigen::Quaterniond q(rng.sym(), rng.sym(), rng.sym(), rng.sym());
      q.coeffs() *= rng.logu(1e-3, 1e3);
      if (q.norm() > 0) {
        SO3d g(q);
        truth("quat.unit", std::fabs(g.coeffs().squaredNorm() - 1) < 2e-15, g.coeffs().squaredNorm() - 1, ctx);
        truth("quat.canonical", g.coeffs()(3) >= 0, g.coeffs()(3), ctx);
        near("quat.rotation", g.matrix(), q.normalized().toRotationMatrix(), 1e-15, ctx);
        near("quat.roundtrip", SO3d(g.quat()).coeffs(), g.coeffs(), 1e-15, ctx);
      }
      std::complex<double> z(rng.sym() * rng.logu(1e-3, 1e3), rng.sym());
      if (std::abs(z) > 0) {
        SO2d g(z);
        truth("u1.unit", std::fabs(g.coeffs().squaredNorm() - 1) < 2e-15, g.coeffs().squaredNorm() - 1, ctx);
        near("u1.roundtrip", SO2d(g.u1()).coeffs(), g.coeffs(), 1e-15, ctx);
      }
      near("se2.isometry", SE2d(p1.isometry()).coeffs(), p1.coeffs(), 1e-15 * (1 + p1.coeffs().cwiseAbs().maxCoeff()), ctx);
      near("se2.isometry_matrix", p1.isometry().matrix(), p1.matrix(), 1e-15 * (1 + p1.coeffs().cwiseAbs().maxCoeff()), ctx);
      near("se3.isometry", SE3d(a.isometry()).matrix(), a.matrix(), 1e-14 * (1 + a.coeffs().cwiseAbs().maxCoeff()), ctx);
      near("se3.isometry_matrix", a.isometry().matrix(), a.matrix(), 1e-15 * (1 + a.coeffs().cwiseAbs().maxCoeff()), ctx);
      // Euler angles (ZYX), away from gimbal lock
      SO3d r = gen_elem<SO3d>(rng);
      Eigen::Vector3d eu = r.eulerAngles();
      if (std::fabs(std::fabs(eu(1)) - M_PI / 2) > 1e-3) {
        SO3d back = SO3d::rot_z(eu(0)) * SO3d::rot_y(eu(1)) * SO3d::rot_x(eu(2));
        near("euler.roundtrip", back.matrix(), r.matrix(), 1e-12, ctx);
      }
    }
    if (c == 0) REP->sample(ctx);
  }
}

static int hv_main();
int main() { return hv::guard(hv_main); }
static int hv_main()
{
  Report rep;
  rep.property = "C17";
  REP          = &rep;
  Rng rng(seed_from_env());
  const int n = thorough() ? 20000 : 2000;
  angles<double>(rng, n);
  angles<float>(rng, n);
  relations(rng, n);
  rep.print();
  return 0;
}
