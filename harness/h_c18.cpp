// C18 harness - footprints of the "const operation" alphabet, measured on the real library.
//
// Two programs are built from this file:
//
//  (default)      FOOTPRINT mode, one thread, deterministic.  Every object the threads of the property share
//                 (group elements, SubManifold, AnyManifold, Spline, BSpline, data handed to dr/minimize/fit, a
//                 MinimizeOptions) is built inside a page-aligned arena: malloc/calloc/realloc/memalign of the
//                 whole process are interposed and served from the arena while it is "on" (from process start,
//                 so the heap blocks of the library's inline statics - sparse patterns, generators - are in it
//                 too).  Then the arena AND the executable's own .data/.bss (inline / function-local statics and
//                 their guard variables) are mprotect(PROT_READ)-ed and every operation of the alphabet is
//                 executed on thread-private arguments/outputs.  A store into shared state raises SIGSEGV; the
//                 handler records operation + address, makes that one page writable and returns (the store is
//                 re-executed), pages are re-protected after the call.
//                   pass A "cold":  first call of every operation under protection.  Stores performed between
//                                   __cxa_guard_acquire/release (C++11 thread-safe initialisation of function-local
//                                   statics; interposed to track the nesting) are legal first-use initialisation;
//                                   every other store is a shared write (this also catches unguarded lazy init).
//                   pass B:         unprotected sequential reference results for inputs k = 0..K-1.
//                   pass C "warm":  every operation, every k, under protection; results compared with pass B.
//  -DC18_TSAN     SCHEDULE mode (built with -fsanitize=thread): the same alphabet on 2..16 threads sharing one
//                 const World, first use of all statics included (threads start cold), per-thread results compared
//                 bit-for-bit with a sequential reference computed afterwards.  ThreadSanitizer's reports go to
//                 stderr and are parsed by scripts/props_C18.py; RANGE lines printed here let it attribute a
//                 racing address to an object member.  `--ops i,j,..` selects operations: the runner executes all
//                 operations the footprint run found free of shared stores in ONE process (any report there is a
//                 violation) and every flagged operation in a process of its own (a real race can corrupt the heap).
//
// Output: one JSON line (FOOTPRINT: the table op -> faults; TSAN: mismatches + ranges).

#include <algorithm>
#include <array>
#include <atomic>
#include <cassert>
#include <chrono>
#include <cmath>
#include <csetjmp>
#include <csignal>
#include <cstdint>
#include <cstdio>
#include <cstdlib>
#include <cstring>
#include <functional>
#include <iostream>
#include <map>
#include <memory>
#include <numeric>
#include <optional>
#include <random>
#include <ranges>
#include <set>
#include <sstream>
#include <string>
#include <thread>
#include <tuple>
#include <utility>
#include <variant>
#include <vector>

#include <dlfcn.h>
#include <malloc.h>
#include <sys/mman.h>
#include <unistd.h>

#include <Eigen/Cholesky>
#include <Eigen/Core>
#include <Eigen/Geometry>
#include <Eigen/LU>
#include <Eigen/QR>
#include <Eigen/Sparse>
#include <Eigen/SparseCholesky>
#include <Eigen/SparseLU>
#include <Eigen/SparseQR>
#include <unsupported/Eigen/MatrixFunctions>

#include "hcommon.hpp"

// read-only access to private members (only used to NAME the member a fault address belongs to); all standard and
// Eigen headers are already included above, so only smooth's own classes are affected.  No source change in /repo.
#define private public
#include "smooth/bundle.hpp"
#include "smooth/c1.hpp"
#include "smooth/diff.hpp"
#include "smooth/galilei.hpp"
#include "smooth/lie_sparse.hpp"
#include "smooth/manifolds.hpp"
#include "smooth/manifolds/any.hpp"
#include "smooth/manifolds/submanifold.hpp"
#include "smooth/manifolds/vector.hpp"
#include "smooth/optim.hpp"
#include "smooth/se2.hpp"
#include "smooth/se3.hpp"
#include "smooth/se_k_3.hpp"
#include "smooth/so2.hpp"
#include "smooth/so3.hpp"
#include "smooth/spline/bspline.hpp"
#include "smooth/spline/fit.hpp"
#include "smooth/spline/spline.hpp"
#undef private

using namespace smooth;

// =====================================================================================================
// harness state that must stay writable while everything else is read-only: lives in its own mmap block
// =====================================================================================================
struct Range
{
  char object[48];
  char member[48];
  uintptr_t lo, hi;
};
struct Fault
{
  int op;
  int k;
  int pass;  // 0 = cold, 2 = warm
  int guarded;
  uintptr_t addr;
};
struct HState
{
  bool arena_on;
  bool window;  // protection active
  int guard_depth;
  int cur_op, cur_k, cur_pass;
  size_t nfault;
  Fault faults[4096];
  size_t nfault_total;
  size_t ndirty;
  uintptr_t dirty[4096];
  size_t nrange;
  Range ranges[512];
  long guarded_inits;
  bool saved_arena[64];
};
static HState * H = nullptr;

#ifndef C18_TSAN
// =====================================================================================================
// arena + malloc interposition
// =====================================================================================================
extern "C" {
void * __libc_malloc(size_t);
void __libc_free(void *);
void * __libc_realloc(void *, size_t);
void * __libc_calloc(size_t, size_t);
void * __libc_memalign(size_t, size_t);
extern char __data_start, _end, __executable_start;
}

static char * g_arena      = nullptr;
static size_t g_arena_used = 0;
static const size_t kArenaCap = size_t(3) << 30;
static const size_t kPage     = 4096;

struct BlkHdr
{
  size_t size;
  size_t magic;
};

static void arena_boot()
{
  g_arena = static_cast<char *>(
    mmap(nullptr, kArenaCap, PROT_READ | PROT_WRITE, MAP_PRIVATE | MAP_ANONYMOUS | MAP_NORESERVE, -1, 0));
  if (g_arena == MAP_FAILED) { _exit(97); }
  H = static_cast<HState *>(mmap(nullptr, sizeof(HState), PROT_READ | PROT_WRITE, MAP_PRIVATE | MAP_ANONYMOUS, -1, 0));
  if (H == MAP_FAILED) { _exit(98); }
  H->arena_on = true;  // everything allocated before main (static initialisers of the library) is shared state
}
static inline bool in_arena(const void * p)
{
  return g_arena && static_cast<const char *>(p) >= g_arena && static_cast<const char *>(p) < g_arena + kArenaCap;
}
static void * arena_alloc(size_t n, size_t align)
{
  if (align < 16) align = 16;
  uintptr_t p = reinterpret_cast<uintptr_t>(g_arena) + g_arena_used + sizeof(BlkHdr);
  p           = (p + align - 1) & ~(uintptr_t(align) - 1);
  auto * h    = reinterpret_cast<BlkHdr *>(p - sizeof(BlkHdr));
  if (p + n > reinterpret_cast<uintptr_t>(g_arena) + kArenaCap) { _exit(96); }
  h->size      = n;
  h->magic     = 0xC18C18C18C18ULL;
  g_arena_used = p + n - reinterpret_cast<uintptr_t>(g_arena);
  return reinterpret_cast<void *>(p);
}
static inline bool use_arena()
{
  if (!g_arena) arena_boot();
  return H->arena_on;
}
static inline size_t blk_size(void * p)
{
  return in_arena(p) ? reinterpret_cast<BlkHdr *>(static_cast<char *>(p) - sizeof(BlkHdr))->size : malloc_usable_size(p);
}

extern "C" {
void * malloc(size_t n) { return use_arena() ? arena_alloc(n, 16) : __libc_malloc(n); }
void free(void * p)
{
  if (!p || in_arena(p)) return;  // arena blocks are never reused (shared state stays where it is)
  __libc_free(p);
}
void * calloc(size_t a, size_t b)
{
  if (use_arena()) return arena_alloc(a * b, 16);  // fresh anonymous pages are zero and never reused
  return __libc_calloc(a, b);
}
void * realloc(void * p, size_t n)
{
  if (!p) return malloc(n);
  if (!in_arena(p) && !use_arena()) return __libc_realloc(p, n);
  void * q        = malloc(n);
  const size_t os = blk_size(p);
  std::memcpy(q, p, os < n ? os : n);
  free(p);
  return q;
}
void * memalign(size_t al, size_t n) { return use_arena() ? arena_alloc(n, al) : __libc_memalign(al, n); }
void * aligned_alloc(size_t al, size_t n) { return memalign(al, n); }
int posix_memalign(void ** out, size_t al, size_t n)
{
  *out = memalign(al, n);
  return *out ? 0 : 12;
}
}

// =====================================================================================================
// tracking of C++11 guarded static initialisation (function-local statics)
// =====================================================================================================
using guard_t    = long long;
using guard_fn_i = int (*)(guard_t *);
using guard_fn_v = void (*)(guard_t *);
static guard_fn_i real_guard_acquire = nullptr;
static guard_fn_v real_guard_release = nullptr;
static guard_fn_v real_guard_abort   = nullptr;
static void resolve_guards()
{
  if (real_guard_acquire) return;
  real_guard_acquire = reinterpret_cast<guard_fn_i>(dlsym(RTLD_NEXT, "__cxa_guard_acquire"));
  real_guard_release = reinterpret_cast<guard_fn_v>(dlsym(RTLD_NEXT, "__cxa_guard_release"));
  real_guard_abort   = reinterpret_cast<guard_fn_v>(dlsym(RTLD_NEXT, "__cxa_guard_abort"));
  if (!real_guard_acquire || !real_guard_release || !real_guard_abort) { _exit(95); }
}
extern "C" {
int __cxa_guard_acquire(guard_t * g)
{
  resolve_guards();
  // the guard byte itself lives in .bss: count its store as part of the guarded initialisation
  if (H) ++H->guard_depth;
  const int r = real_guard_acquire(g);
  if (!r) {
    if (H) --H->guard_depth;
    return 0;
  }
  if (H) {
    ++H->guarded_inits;
    // heap blocks of a function-local static are shared state as well: serve them from the arena
    // (the arena is writable here only through the fault handler, like every other protected page)
    if (H->guard_depth < 64) { H->saved_arena[H->guard_depth] = H->arena_on; }
    H->arena_on = true;
  }
  return r;
}
void __cxa_guard_release(guard_t * g) noexcept
{
  real_guard_release(g);
  if (H) {
    if (H->guard_depth < 64) H->arena_on = H->saved_arena[H->guard_depth];
    --H->guard_depth;
  }
}
void __cxa_guard_abort(guard_t * g) noexcept
{
  real_guard_abort(g);
  if (H) {
    if (H->guard_depth < 64) H->arena_on = H->saved_arena[H->guard_depth];
    --H->guard_depth;
  }
}
}

// =====================================================================================================
// protection windows + fault handler
// =====================================================================================================
static uintptr_t g_data_lo, g_data_hi;  // executable's .data/.bss, page aligned (written before the first window)
static uintptr_t g_arena_hi_prot;

static inline bool in_protected(uintptr_t a)
{
  return (a >= g_data_lo && a < g_data_hi) ||
         (a >= reinterpret_cast<uintptr_t>(g_arena) && a < g_arena_hi_prot);
}

static void on_segv(int, siginfo_t * si, void *)
{
  const uintptr_t a = reinterpret_cast<uintptr_t>(si->si_addr);
  if (!H || !H->window || !in_protected(a)) {
    // a genuine crash: report and die
    const char msg[] = "h_c18: unexpected SIGSEGV outside protected shared state\n";
    (void)!write(2, msg, sizeof(msg) - 1);
    signal(SIGSEGV, SIG_DFL);
    return;
  }
  ++H->nfault_total;
  if (H->nfault < 4096) {
    H->faults[H->nfault++] = Fault{H->cur_op, H->cur_k, H->cur_pass, H->guard_depth > 0 ? 1 : 0, a};
  }
  const uintptr_t pg = a & ~(uintptr_t(kPage) - 1);
  mprotect(reinterpret_cast<void *>(pg), kPage, PROT_READ | PROT_WRITE);
  if (H->ndirty < 4096) { H->dirty[H->ndirty++] = pg; }
}

static void window_open()
{
  g_arena_hi_prot =
    (reinterpret_cast<uintptr_t>(g_arena) + g_arena_used + kPage - 1) & ~(uintptr_t(kPage) - 1);
  mprotect(g_arena, g_arena_hi_prot - reinterpret_cast<uintptr_t>(g_arena), PROT_READ);
  mprotect(reinterpret_cast<void *>(g_data_lo), g_data_hi - g_data_lo, PROT_READ);
  H->ndirty = 0;
  H->window = true;
}
static void window_reprotect()
{
  for (size_t i = 0; i < H->ndirty; ++i) mprotect(reinterpret_cast<void *>(H->dirty[i]), kPage, PROT_READ);
  H->ndirty = 0;
  // blocks allocated from the arena during guarded initialisation extend the protected part
  const uintptr_t hi =
    (reinterpret_cast<uintptr_t>(g_arena) + g_arena_used + kPage - 1) & ~(uintptr_t(kPage) - 1);
  if (hi > g_arena_hi_prot) {
    mprotect(reinterpret_cast<void *>(g_arena_hi_prot), hi - g_arena_hi_prot, PROT_READ);
    g_arena_hi_prot = hi;
  }
}
static void window_close()
{
  H->window = false;
  mprotect(g_arena, g_arena_hi_prot - reinterpret_cast<uintptr_t>(g_arena), PROT_READ | PROT_WRITE);
  mprotect(reinterpret_cast<void *>(g_data_lo), g_data_hi - g_data_lo, PROT_READ | PROT_WRITE);
}
#else
static void tsan_boot()
{
  H = static_cast<HState *>(mmap(nullptr, sizeof(HState), PROT_READ | PROT_WRITE, MAP_PRIVATE | MAP_ANONYMOUS, -1, 0));
}
#endif

static void reg_range(const char * object, const char * member, const void * p, size_t n)
{
  if (!H || H->nrange >= 512 || n == 0) return;
  Range & r = H->ranges[H->nrange++];
  std::snprintf(r.object, sizeof(r.object), "%s", object);
  std::snprintf(r.member, sizeof(r.member), "%s", member);
  r.lo = reinterpret_cast<uintptr_t>(p);
  r.hi = r.lo + n;
}

// =====================================================================================================
// the shared world
// =====================================================================================================
using Out = std::vector<double>;

template<typename Dv>
static void put(Out & o, const Eigen::DenseBase<Dv> & m)
{
  for (Eigen::Index c = 0; c < m.cols(); ++c)
    for (Eigen::Index r = 0; r < m.rows(); ++r) o.push_back(static_cast<double>(m(r, c)));
}
static void put(Out & o, double x) { o.push_back(x); }
template<typename S>
static void put_sp(Out & o, const Eigen::SparseMatrix<S> & sp)
{
  o.push_back(static_cast<double>(sp.nonZeros()));
  o.push_back(sp.isCompressed() ? 1 : 0);
  const Eigen::Matrix<S, -1, -1> d = sp;
  put(o, d);
}

template<typename V>
static V rnd_vec(hv::Rng & r, Eigen::Index n, double scale = 1.0)
{
  V v(n);
  for (Eigen::Index i = 0; i < n; ++i) v(i) = scale * r.sym();
  return v;
}
template<LieGroup G>
static Tangent<G> rnd_tan(hv::Rng & r, double scale = 1.0)
{
  Tangent<G> a;
  for (Eigen::Index i = 0; i < a.size(); ++i) a(i) = scale * r.sym();
  return a;
}
template<LieGroup G>
static G rnd_grp(hv::Rng & r)
{
  return G::exp(rnd_tan<G>(r));
}

using BundleT = Bundle<SO3d, Eigen::Vector3d, SE2d>;
using SEK2    = SE_K_3<double, 2>;

template<LieGroup G>
struct GShared
{
  G g1, g2;
  Tangent<G> a1;
  explicit GShared(hv::Rng & r) : g1(rnd_grp<G>(r)), g2(rnd_grp<G>(r)), a1(rnd_tan<G>(r)) {}
};

struct World
{
  hv::Rng rng;
  GShared<SO2d> so2;
  GShared<SO3d> so3;
  GShared<SE2d> se2;
  GShared<SE3d> se3;
  GShared<C1d> c1;
  GShared<Galileid> gal;
  GShared<SEK2> sek;
  GShared<BundleT> bun;

  Eigen::VectorXd v1, v2;
  std::vector<SE3d> vec1, vec2;

  SubManifold<SE3d> sub_se3, sub_se3_b;
  SubManifold<Eigen::VectorXd> sub_vec, sub_vec_b;

  AnyManifold any_se3, any_se3_b, any_vec, any_vec_b, any_sub, any_sub_b;

  Spline<3, SE3d> spl3, spl3c;
  Spline<5, SO3d> spl5;
  Spline<1, SE2d> spl1;
  BSpline<3, SE3d> bs3;
  BSpline<5, SO3d> bs5;

  std::vector<double> fit_ts;
  std::vector<SO3d> fit_gs;
  std::vector<double> fit_dt, fit_dx;

  MinimizeOptions shared_opts;

  static SubManifold<SE3d> mk_sub(const SE3d & m0, const SE3d & m)
  {
    Eigen::VectorXi fd(2);
    fd << 4, 1;
    return SubManifold<SE3d>(m0, m, fd);
  }
  static SubManifold<Eigen::VectorXd> mk_subv(const Eigen::VectorXd & m0, const Eigen::VectorXd & m)
  {
    Eigen::VectorXi fd(2);
    fd << 0, 3;
    return SubManifold<Eigen::VectorXd>(m0, m, fd);
  }
  static SubManifold<SO3d> mk_subso3(const SO3d & m0, const SO3d & m)
  {
    Eigen::VectorXi fd(1);
    fd << 1;
    return SubManifold<SO3d>(m0, m, fd);
  }
  static Spline<3, SE3d> mk_spl3(hv::Rng & r)
  {
    Spline<3, SE3d> s = Spline<3, SE3d>::ConstantVelocity(rnd_tan<SE3d>(r), 1.0, rnd_grp<SE3d>(r));
    s += Spline<3, SE3d>::FixedCubic(rnd_grp<SE3d>(r), rnd_tan<SE3d>(r), rnd_tan<SE3d>(r), 0.75);
    s += Spline<3, SE3d>::ConstantVelocityGoal(rnd_grp<SE3d>(r), 1.5);
    s += Spline<3, SE3d>::FixedCubic(rnd_grp<SE3d>(r), rnd_tan<SE3d>(r), rnd_tan<SE3d>(r), 0.5);
    return s;
  }
  static Spline<5, SO3d> mk_spl5(hv::Rng & r)
  {
    Spline<5, SO3d> s;
    for (int i = 0; i < 3; ++i) {
      Eigen::Matrix<double, 3, 5> V;
      for (int c = 0; c < 5; ++c) V.col(c) = 0.3 * rnd_tan<SO3d>(r);
      s += Spline<5, SO3d>(0.5 + r.uni(), V, i == 0 ? rnd_grp<SO3d>(r) : SO3d::Identity());
    }
    return s;
  }
  static Spline<1, SE2d> mk_spl1(hv::Rng & r)
  {
    Spline<1, SE2d> s;
    for (int i = 0; i < 4; ++i) { s += Spline<1, SE2d>::ConstantVelocityGoal(rnd_grp<SE2d>(r), 0.25 + r.uni()); }
    return s;
  }
  template<int K, LieGroup G>
  static BSpline<K, G> mk_bs(hv::Rng & r, int n)
  {
    std::vector<G> pts;
    G g = rnd_grp<G>(r);
    for (int i = 0; i < n; ++i) {
      pts.push_back(g);
      g = g + 0.4 * rnd_tan<G>(r);
    }
    return BSpline<K, G>(0.5, 0.25, pts);
  }

  explicit World(uint64_t seed)
      : rng(seed), so2(rng), so3(rng), se2(rng), se3(rng), c1(rng), gal(rng), sek(rng), bun(rng),
        v1(rnd_vec<Eigen::VectorXd>(rng, 5)), v2(rnd_vec<Eigen::VectorXd>(rng, 5)),
        vec1{rnd_grp<SE3d>(rng), rnd_grp<SE3d>(rng), rnd_grp<SE3d>(rng)},
        vec2{rnd_grp<SE3d>(rng), rnd_grp<SE3d>(rng), rnd_grp<SE3d>(rng)},
        sub_se3(mk_sub(se3.g1, se3.g1)), sub_se3_b(mk_sub(se3.g1, se3.g2)), sub_vec(mk_subv(v1, v1)),
        sub_vec_b(mk_subv(v1, v2)), any_se3(se3.g1), any_se3_b(se3.g2), any_vec(v1), any_vec_b(v2),
        any_sub(mk_subso3(so3.g1, so3.g1)), any_sub_b(mk_subso3(so3.g1, so3.g2)), spl3(mk_spl3(rng)),
        spl3c(spl3.crop(0.4, 3.1)), spl5(mk_spl5(rng)), spl1(mk_spl1(rng)), bs3(mk_bs<3, SE3d>(rng, 10)),
        bs5(mk_bs<5, SO3d>(rng, 12))
  {
    SO3d g = rnd_grp<SO3d>(rng);
    double t = 0;
    for (int i = 0; i < 8; ++i) {
      fit_ts.push_back(t);
      fit_gs.push_back(g);
      t += 0.3 + 0.5 * rng.uni();
      g = g + 0.5 * rnd_tan<SO3d>(rng);
    }
    for (int i = 0; i < 5; ++i) {
      fit_dt.push_back(0.5 + rng.uni());
      fit_dx.push_back(rng.sym());
    }
  }

  template<typename S>
  void reg_sub(const char * name, const S & s) const
  {
    reg_range(name, "", &s, sizeof(S));
    if constexpr (requires { s.m_calc; }) {
      reg_range(name, "m_calc", &s.m_calc, sizeof(s.m_calc));
      if constexpr (requires { s.m_calc.data(); }) {
        if (reinterpret_cast<const char *>(s.m_calc.data()) < reinterpret_cast<const char *>(&s) ||
            reinterpret_cast<const char *>(s.m_calc.data()) >= reinterpret_cast<const char *>(&s) + sizeof(S)) {
          reg_range(name, "m_calc", s.m_calc.data(), sizeof(double) * static_cast<size_t>(s.m_calc.size()));
        }
      }
    }
    if constexpr (requires { s.m_m; }) { reg_range(name, "m_m", &s.m_m, sizeof(s.m_m)); }
    if constexpr (requires { s.m_m0; }) { reg_range(name, "m_m0", &s.m_m0, sizeof(s.m_m0)); }
    if constexpr (requires { s.m_fixed_dims; }) { reg_range(name, "m_fixed_dims", &s.m_fixed_dims, sizeof(s.m_fixed_dims)); }
  }

  void register_ranges() const
  {
    reg_range("World", "", this, sizeof(World));
    reg_sub("sub_se3", sub_se3);
    reg_sub("sub_se3_b", sub_se3_b);
    reg_sub("sub_vec", sub_vec);
    reg_sub("sub_vec_b", sub_vec_b);
    reg_range("any_se3", "", &any_se3, sizeof(any_se3));
    reg_range("any_vec", "", &any_vec, sizeof(any_vec));
    reg_range("any_sub", "", &any_sub, sizeof(any_sub));
    reg_sub("any_sub.value", any_sub.get<SubManifold<SO3d>>());
    reg_sub("any_sub_b.value", any_sub_b.get<SubManifold<SO3d>>());
    reg_range("any_se3.value", "", &any_se3.get<SE3d>(), sizeof(SE3d));
    reg_range("spl3", "", &spl3, sizeof(spl3));
    reg_range("spl3c", "", &spl3c, sizeof(spl3c));
    reg_range("spl5", "", &spl5, sizeof(spl5));
    reg_range("spl1", "", &spl1, sizeof(spl1));
    reg_range("bs3", "", &bs3, sizeof(bs3));
    reg_range("bs5", "", &bs5, sizeof(bs5));
    if constexpr (requires { spl3.m_end_g; }) {
      reg_range("spl3", "m_end_g[heap]", spl3.m_end_g.data(), sizeof(SE3d) * spl3.m_end_g.size());
      reg_range("spl3", "m_Vs[heap]", spl3.m_Vs.data(), sizeof(spl3.m_Vs[0]) * spl3.m_Vs.size());
      reg_range("spl3", "m_end_t[heap]", spl3.m_end_t.data(), sizeof(double) * spl3.m_end_t.size());
    }
    if constexpr (requires { bs3.m_ctrl_pts; }) {
      reg_range("bs3", "m_ctrl_pts[heap]", bs3.m_ctrl_pts.data(), sizeof(SE3d) * bs3.m_ctrl_pts.size());
      reg_range("bs5", "m_ctrl_pts[heap]", bs5.m_ctrl_pts.data(), sizeof(SO3d) * bs5.m_ctrl_pts.size());
    }
    reg_range("shared_opts", "", &shared_opts, sizeof(shared_opts));
    reg_range("shared_opts", "strat[heap]", shared_opts.strat.get(), sizeof(CeresStrategy));
    reg_range("fit_gs", "[heap]", fit_gs.data(), sizeof(SO3d) * fit_gs.size());
    reg_range("fit_ts", "[heap]", fit_ts.data(), sizeof(double) * fit_ts.size());
  }
};

// =====================================================================================================
// the operation alphabet.  Every operation takes the shared World by const reference and an input index k;
// its private arguments are derived from (VERIF_SEED, op, k) on the caller's stack; it returns its results.
// =====================================================================================================
struct Op
{
  std::string name, cls;
  bool in_alphabet;  // false: executed and reported, but outside the property's alphabet (see notes)
  std::function<Out(const World &, hv::Rng &)> fn;
};

static uint64_t g_seed = 1;
static uint64_t op_seed(size_t op, int k) { return g_seed * 0x9e3779b97f4a7c15ULL + op * 1000003ULL + static_cast<uint64_t>(k) * 7919ULL + 17; }

template<LieGroup G, bool second_order>
static void add_group_ops(std::vector<Op> & ops, const char * gname, GShared<G> World::*mp)
{
  ops.push_back({std::string(gname) + "::group-ops", "group", true, [mp](const World & W, hv::Rng & r) {
                   const GShared<G> & S = W.*mp;
                   Out o;
                   const G h          = rnd_grp<G>(r);
                   const Tangent<G> b = rnd_tan<G>(r);
                   put(o, (S.g1 * S.g2 * h).coeffs());
                   put(o, S.g1.inverse().coeffs());
                   put(o, S.g2.log());
                   put(o, S.g1.Ad());
                   put(o, S.g1.matrix());
                   put(o, (S.g1 + b).coeffs());
                   put(o, (h - S.g2));
                   put(o, composition(S.g1, h, S.g2).coeffs());
                   put(o, S.g1.isApprox(S.g2) ? 1.0 : 0.0);
                   G cpy = S.g1;  // private copy, then mutate the copy only
                   cpy *= h;
                   put(o, cpy.coeffs());
                   return o;
                 }});
  ops.push_back({std::string(gname) + "::tangent-ops", "tangent", true, [mp](const World & W, hv::Rng & r) {
                   const GShared<G> & S = W.*mp;
                   Out o;
                   const Tangent<G> b = rnd_tan<G>(r, 0.5);
                   put(o, G::exp(S.a1).coeffs());
                   put(o, G::exp(S.a1 + b).coeffs());
                   put(o, G::ad(S.a1));
                   put(o, G::hat(S.a1));
                   put(o, G::vee(G::hat(S.a1)));
                   put(o, G::dr_exp(S.a1));
                   put(o, G::dr_expinv(S.a1));
                   put(o, G::dl_exp(S.a1));
                   put(o, G::dl_expinv(S.a1));
                   if constexpr (second_order) {
                     put(o, G::d2r_exp(S.a1));
                     put(o, G::d2r_expinv(S.a1));
                   }
                   return o;
                 }});
}

template<typename M>
static void add_manifold_ops(std::vector<Op> & ops, const std::string & mname, const std::string & clsprefix,
  std::function<const M &(const World &)> get1, std::function<const M &(const World &)> get2,
  std::function<void(Out &, const M &)> putm, const std::string & cls_rplus_override = "",
  const std::string & cls_rminus_override = "")
{
  ops.push_back({mname + "::rplus", cls_rplus_override.empty() ? clsprefix + "::rplus" : cls_rplus_override, true,
    [get1, putm](const World & W, hv::Rng & r) {
      Out o;
      const M & m             = get1(W);
      const Eigen::VectorXd a = rnd_vec<Eigen::VectorXd>(r, ::smooth::dof(m));
      const auto res          = ::smooth::rplus(m, a);
      putm(o, res);
      return o;
    }});
  ops.push_back({mname + "::rminus", cls_rminus_override.empty() ? clsprefix + "::rminus" : cls_rminus_override, true,
    [get1, get2](const World & W, hv::Rng &) {
      Out o;
      put(o, ::smooth::rminus(get1(W), get2(W)));
      put(o, ::smooth::rminus(get2(W), get1(W)));
      return o;
    }});
  ops.push_back({mname + "::dof", clsprefix + "::dof", true, [get1](const World & W, hv::Rng &) {
                   Out o;
                   put(o, static_cast<double>(::smooth::dof(get1(W))));
                   return o;
                 }});
}

template<int K, LieGroup G>
static void add_spline_ops(std::vector<Op> & ops, const std::string & name, Spline<K, G> World::*mp)
{
  ops.push_back({name + "::operator()", "Spline::eval", true, [mp](const World & W, hv::Rng & r) {
                   const auto & s = W.*mp;
                   Out o;
                   for (int i = 0; i < 6; ++i) {
                     const double t = i == 0 ? -0.5 : (i == 1 ? s.t_max() + 1 : s.t_max() * r.uni());
                     Tangent<G> vel, acc;
                     const G g = s(t, vel, acc);
                     put(o, g.coeffs());
                     put(o, vel);
                     put(o, acc);
                     put(o, s(t).coeffs());
                   }
                   return o;
                 }});
  ops.push_back({name + "::const-methods", "Spline::const-method", true, [mp](const World & W, hv::Rng & r) {
                   const auto & s = W.*mp;
                   Out o;
                   put(o, s.t_min());
                   put(o, s.t_max());
                   put(o, s.start().coeffs());
                   put(o, s.end().coeffs());
                   put(o, static_cast<double>(s.size()));
                   put(o, s.empty() ? 1.0 : 0.0);
                   const double ta = 0.5 * s.t_max() * r.uni(), tb = s.t_max() * (0.5 + 0.5 * r.uni());
                   const auto c = s.crop(ta, tb);
                   put(o, c.t_max());
                   put(o, c(0.5 * c.t_max()).coeffs());
                   if constexpr (K == 3) { put(o, s.arclength(tb)); }
                   auto cpy = s;  // private copy
                   cpy += c;
                   put(o, cpy.end().coeffs());
                   return o;
                 }});
}

template<int K, LieGroup G>
static void add_bspline_ops(std::vector<Op> & ops, const std::string & name, BSpline<K, G> World::*mp)
{
  ops.push_back({name + "::operator()", "BSpline::eval", true, [mp](const World & W, hv::Rng & r) {
                   const auto & s = W.*mp;
                   Out o;
                   put(o, s.t_min());
                   put(o, s.t_max());
                   put(o, s.dt());
                   for (int i = 0; i < 6; ++i) {
                     const double t =
                       i == 0 ? s.t_min() - 1 : (i == 1 ? s.t_max() + 1 : s.t_min() + (s.t_max() - s.t_min()) * r.uni());
                     Tangent<G> vel, acc;
                     const G g = s(t, vel, acc);
                     put(o, g.coeffs());
                     put(o, vel);
                     put(o, acc);
                   }
                   return o;
                 }});
}

template<LieGroup G>
static void add_sparse_ops(std::vector<Op> & ops, const std::string & gname, GShared<G> World::*mp)
{
  ops.push_back({"lie_sparse<" + gname + ">", "sparse", true, [mp](const World & W, hv::Rng & r) {
                   const GShared<G> & S = W.*mp;
                   Out o;
                   const Tangent<G> a = S.a1 + rnd_tan<G>(r, 0.3);
                   {
                     auto sp = ad_sparse_pattern<G>;  // thread-private output, copied from the shared pattern
                     ad_sparse<G>(sp, a);
                     put_sp(o, sp);
                   }
                   {
                     auto sp = d_exp_sparse_pattern<G>;
                     dr_exp_sparse<G>(sp, a);
                     put_sp(o, sp);
                     dr_expinv_sparse<G>(sp, a);
                     put_sp(o, sp);
                   }
                   {
                     auto sp = d2_exp_sparse_pattern<G>;
                     d2r_exp_sparse<G>(sp, a);
                     put_sp(o, sp);
                     d2r_expinv_sparse<G>(sp, a);
                     put_sp(o, sp);
                   }
                   for (const auto & gen : generators_sparse<G>) { put(o, static_cast<double>(gen.nonZeros())); }
                   return o;
                 }});
}

static void add_sparse_ops_r3(std::vector<Op> & ops, const std::string & gname)
{
  using G = Eigen::Vector3d;
  ops.push_back({"lie_sparse<" + gname + ">", "sparse", true, [](const World &, hv::Rng & r) {
                   Out o;
                   const Tangent<G> a = rnd_vec<Eigen::Vector3d>(r, 3);
                   auto sp            = d_exp_sparse_pattern<G>;
                   dr_exp_sparse<G>(sp, a);
                   put_sp(o, sp);
                   auto sp2 = ad_sparse_pattern<G>;
                   ad_sparse<G>(sp2, a);
                   put_sp(o, sp2);
                   return o;
                 }});
}

static std::vector<Op> make_ops()
{
  std::vector<Op> ops;
  add_group_ops<SO2d, true>(ops, "SO2d", &World::so2);
  add_group_ops<SO3d, true>(ops, "SO3d", &World::so3);
  add_group_ops<SE2d, true>(ops, "SE2d", &World::se2);
  add_group_ops<SE3d, true>(ops, "SE3d", &World::se3);
  add_group_ops<C1d, true>(ops, "C1d", &World::c1);
  add_group_ops<Galileid, false>(ops, "Galileid", &World::gal);
  add_group_ops<SEK2, false>(ops, "SE_K_3<2>", &World::sek);
  add_group_ops<BundleT, true>(ops, "Bundle<SO3d,R3,SE2d>", &World::bun);

  // Manifold interface on plain manifolds
  add_manifold_ops<SE3d>(
    ops, "Manifold[SE3d]", "Manifold", [](const World & W) -> const SE3d & { return W.se3.g1; },
    [](const World & W) -> const SE3d & { return W.se3.g2; }, [](Out & o, const SE3d & m) { put(o, m.coeffs()); });
  add_manifold_ops<Eigen::VectorXd>(
    ops, "Manifold[VectorXd]", "Manifold", [](const World & W) -> const Eigen::VectorXd & { return W.v1; },
    [](const World & W) -> const Eigen::VectorXd & { return W.v2; }, [](Out & o, const Eigen::VectorXd & m) { put(o, m); });
  add_manifold_ops<std::vector<SE3d>>(
    ops, "Manifold[std::vector<SE3d>]", "Manifold", [](const World & W) -> const std::vector<SE3d> & { return W.vec1; },
    [](const World & W) -> const std::vector<SE3d> & { return W.vec2; },
    [](Out & o, const std::vector<SE3d> & m) {
      for (const auto & x : m) put(o, x.coeffs());
    });
  // SubManifold
  add_manifold_ops<SubManifold<SE3d>>(
    ops, "SubManifold<SE3d>", "SubManifold", [](const World & W) -> const SubManifold<SE3d> & { return W.sub_se3; },
    [](const World & W) -> const SubManifold<SE3d> & { return W.sub_se3_b; },
    [](Out & o, const SubManifold<SE3d> & m) { put(o, m.m().coeffs()); });
  add_manifold_ops<SubManifold<Eigen::VectorXd>>(
    ops, "SubManifold<VectorXd>", "SubManifold",
    [](const World & W) -> const SubManifold<Eigen::VectorXd> & { return W.sub_vec; },
    [](const World & W) -> const SubManifold<Eigen::VectorXd> & { return W.sub_vec_b; },
    [](Out & o, const SubManifold<Eigen::VectorXd> & m) { put(o, m.m()); });
  // AnyManifold (type erasure) over a group, a vector and a SubManifold
  add_manifold_ops<AnyManifold>(
    ops, "AnyManifold[SE3d]", "AnyManifold", [](const World & W) -> const AnyManifold & { return W.any_se3; },
    [](const World & W) -> const AnyManifold & { return W.any_se3_b; },
    [](Out & o, const AnyManifold & m) { put(o, m.get<SE3d>().coeffs()); });
  add_manifold_ops<AnyManifold>(
    ops, "AnyManifold[VectorXd]", "AnyManifold", [](const World & W) -> const AnyManifold & { return W.any_vec; },
    [](const World & W) -> const AnyManifold & { return W.any_vec_b; },
    [](Out & o, const AnyManifold & m) { put(o, m.get<Eigen::VectorXd>()); });
  // AnyManifold holding a SubManifold dispatches to SubManifold::rplus/rminus: same call site class
  add_manifold_ops<AnyManifold>(
    ops, "AnyManifold[SubManifold<SO3d>]", "AnyManifold", [](const World & W) -> const AnyManifold & { return W.any_sub; },
    [](const World & W) -> const AnyManifold & { return W.any_sub_b; },
    [](Out & o, const AnyManifold & m) { put(o, m.get<SubManifold<SO3d>>().m().coeffs()); }, "SubManifold::rplus",
    "SubManifold::rminus");

  add_spline_ops<3, SE3d>(ops, "Spline<3,SE3d>", &World::spl3);
  add_spline_ops<3, SE3d>(ops, "Spline<3,SE3d>[cropped]", &World::spl3c);
  add_spline_ops<5, SO3d>(ops, "Spline<5,SO3d>", &World::spl5);
  add_spline_ops<1, SE2d>(ops, "Spline<1,SE2d>", &World::spl1);
  add_bspline_ops<3, SE3d>(ops, "BSpline<3,SE3d>", &World::bs3);
  add_bspline_ops<5, SO3d>(ops, "BSpline<5,SO3d>", &World::bs5);

  add_sparse_ops<SO3d>(ops, "SO3d", &World::so3);
  add_sparse_ops<SE2d>(ops, "SE2d", &World::se2);
  add_sparse_ops<SE3d>(ops, "SE3d", &World::se3);
  add_sparse_ops<BundleT>(ops, "Bundle<SO3d,R3,SE2d>", &World::bun);
  add_sparse_ops_r3(ops, "R3");

  // independent diff::dr calls whose function reads shared const data
  ops.push_back({"diff::dr<1,Numerical>", "diff::dr", true, [](const World & W, hv::Rng & r) {
                   Out o;
                   SE3d x            = W.se3.g1 + rnd_tan<SE3d>(r, 0.2);
                   Eigen::Vector3d v = rnd_vec<Eigen::Vector3d>(r, 3);
                   const auto f      = [&W](const SE3d & xx, const Eigen::Vector3d & vv) -> Eigen::Matrix<double, 9, 1> {
                     Eigen::Matrix<double, 9, 1> ret;
                     ret.head<6>() = (xx * W.se3.g2).log() + W.se3.a1;
                     ret.tail<3>() = W.so3.g1 * vv - xx.r3();
                     return ret;
                   };
                   const auto [fv, J] = diff::dr<1, diff::Type::Numerical>(f, wrt(x, v));
                   put(o, fv);
                   put(o, J);
                   const auto [fv2, J2] = diff::dr<1>(f, wrt(x, v));
                   put(o, J2);
                   return o;
                 }});
  ops.push_back({"diff::dr<2,Numerical>", "diff::dr", true, [](const World & W, hv::Rng & r) {
                   Out o;
                   SO3d x       = W.so3.g1 + rnd_tan<SO3d>(r, 0.2);
                   const auto f = [&W](const SO3d & xx) -> double { return 0.5 * (xx - W.so3.g2).squaredNorm(); };
                   const auto [fv, J, Hs] = diff::dr<2, diff::Type::Numerical>(f, wrt(x));
                   put(o, fv);
                   put(o, J);
                   put(o, Hs);
                   return o;
                 }});
  // independent minimize calls (each call has its own default MinimizeOptions => its own strategy object)
  ops.push_back({"minimize[own options]", "minimize", true, [](const World & W, hv::Rng & r) {
                   Out o;
                   SO3d g            = W.so3.g1 + rnd_tan<SO3d>(r, 0.3);
                   Eigen::Vector3d v = rnd_vec<Eigen::Vector3d>(r, 3);
                   const auto f      = [&W](const SO3d & gg, const Eigen::Vector3d & vv) -> Eigen::Matrix<double, 6, 1> {
                     Eigen::Matrix<double, 6, 1> ret;
                     ret.head<3>() = gg - W.so3.g2;
                     ret.tail<3>() = (gg * vv) - W.so3.a1;
                     return ret;
                   };
                   const auto res = minimize(f, wrt(g, v));
                   put(o, g.coeffs());
                   put(o, v);
                   put(o, static_cast<double>(res.iter));
                   put(o, static_cast<double>(static_cast<int>(res.status)));
                   MinimizeOptions own;
                   own.ptol = 1e-9;
                   SO3d g2  = W.so3.g1;
                   const auto res2 = minimize<diff::Type::Numerical>(f, wrt(g2, v), own);
                   put(o, g2.coeffs());
                   put(o, static_cast<double>(res2.iter));
                   return o;
                 }});
  // OUTSIDE the alphabet: two threads handing the SAME const MinimizeOptions to minimize share its strategy
  // object (optim.hpp:27-39 shared_ptr<TrustRegionStrategy>, updated at :102); properties.jsonl C18 names this
  // "not shared unless the caller shares MinimizeOptions".  Measured and reported for information only.
  ops.push_back({"minimize[caller-shared MinimizeOptions]", "minimize-shared-options", false, [](const World & W, hv::Rng & r) {
                   Out o;
                   SO3d g       = W.so3.g1 + rnd_tan<SO3d>(r, 0.3);
                   const auto f = [&W](const SO3d & gg) -> Eigen::Vector3d { return gg - W.so3.g2; };
                   const auto res = minimize(f, wrt(g), W.shared_opts);
                   put(o, static_cast<double>(static_cast<int>(res.status)));
                   return o;
                 }});
  // independent fit calls on shared const data
  ops.push_back({"fit_spline[FixedDerCubic]", "fit", true, [](const World & W, hv::Rng & r) {
                   Out o;
                   const auto c = fit_spline(W.fit_ts, W.fit_gs, spline_specs::FixedDerCubic<SO3d, 2, 2>{});
                   put(o, c.t_max());
                   for (int i = 0; i < 4; ++i) put(o, c(c.t_max() * r.uni()).coeffs());
                   const auto c2 = fit_spline_cubic(W.fit_ts, W.fit_gs);
                   put(o, c2(0.5 * c2.t_max()).coeffs());
                   return o;
                 }});
  ops.push_back({"fit_spline_1d[MinDerivative]", "fit", true, [](const World & W, hv::Rng &) {
                   Out o;
                   put(o, fit_spline_1d(W.fit_dt, W.fit_dx, spline_specs::MinDerivative<double, 6, 3, 3>{}));
                   put(o, fit_spline_1d(W.fit_dt, W.fit_dx, spline_specs::FixedDerCubic<double, 2, 2>{}));
                   return o;
                 }});
  ops.push_back({"fit_bspline<3>", "fit", true, [](const World & W, hv::Rng & r) {
                   Out o;
                   const auto b = fit_bspline<3>(W.fit_ts, W.fit_gs, 0.8 + 0.1 * r.below(3));
                   put(o, b.t_max());
                   for (const auto & p : b.ctrl_pts()) put(o, p.coeffs());
                   return o;
                 }});
  return ops;
}

static Out run_op(const std::vector<Op> & ops, const World & W, size_t i, int k)
{
  hv::Rng r(op_seed(i, k));
  return ops[i].fn(W, r);
}

static bool same_bits(const Out & a, const Out & b)
{
  return a.size() == b.size() && (a.empty() || std::memcmp(a.data(), b.data(), a.size() * sizeof(double)) == 0);
}

static std::string jesc(const std::string & s)
{
  std::string o;
  for (char c : s) {
    if (c == '"' || c == '\\') o += '\\';
    o += c;
  }
  return o;
}

#ifndef C18_TSAN
// =====================================================================================================
// FOOTPRINT mode
// =====================================================================================================
int main()
{
  resolve_guards();
  g_seed          = hv::seed_from_env();
  const bool thor = hv::thorough();
  const int K     = thor ? 256 : 32;

  // ---- shared state: built inside the arena (arena is on since process start)
  World * Wp      = new World(g_seed);
  const World & W = *Wp;
  W.register_ranges();
  std::vector<Op> * opsp = new std::vector<Op>(make_ops());  // registry is read-only during the windows
  const std::vector<Op> & ops = *opsp;
  const size_t arena_after_world = g_arena_used;
  H->arena_on = false;  // from here on, allocations are thread-private (ordinary heap)

  g_data_lo = reinterpret_cast<uintptr_t>(&__data_start) & ~(uintptr_t(kPage) - 1);
  g_data_hi = (reinterpret_cast<uintptr_t>(&_end) + kPage - 1) & ~(uintptr_t(kPage) - 1);

  struct sigaction sa;
  std::memset(&sa, 0, sizeof(sa));
  sa.sa_sigaction = on_segv;
  sa.sa_flags     = SA_SIGINFO | SA_NODEFER;
  sigaction(SIGSEGV, &sa, nullptr);

  std::vector<std::vector<Out>> ref(ops.size()), cold(ops.size());
  std::vector<long> mismatch(ops.size(), 0);
  long evaluations = 0;

  // ---- pass A: cold first use under protection
  window_open();
  for (size_t i = 0; i < ops.size(); ++i) {
    H->cur_op = static_cast<int>(i), H->cur_k = 0, H->cur_pass = 0;
    cold[i].push_back(run_op(ops, W, i, 0));
    window_reprotect();
    ++evaluations;
  }
  window_close();
  // ---- pass B: sequential reference, unprotected
  for (size_t i = 0; i < ops.size(); ++i) {
    for (int k = 0; k < K; ++k) ref[i].push_back(run_op(ops, W, i, k));
    if (!same_bits(ref[i][0], cold[i][0])) ++mismatch[i];
  }
  // ---- pass C: warm, under protection
  window_open();
  for (size_t i = 0; i < ops.size(); ++i) {
    for (int k = 0; k < K; ++k) {
      H->cur_op = static_cast<int>(i), H->cur_k = k, H->cur_pass = 2;
      const Out o = run_op(ops, W, i, k);
      window_reprotect();
      if (!same_bits(o, ref[i][static_cast<size_t>(k)])) ++mismatch[i];
      ++evaluations;
    }
  }
  window_close();

  // ---- report
  std::ostringstream js;
  js << "{\"mode\":\"footprint\",\"seed\":" << g_seed << ",\"K\":" << K << ",\"evaluations\":" << evaluations
     << ",\"arena_bytes_shared\":" << arena_after_world << ",\"arena_bytes_total\":" << g_arena_used
     << ",\"data_segment_bytes\":" << (g_data_hi - g_data_lo) << ",\"guarded_static_inits\":" << H->guarded_inits
     << ",\"nfault_total\":" << H->nfault_total << ",\"exe_base\":" << reinterpret_cast<uintptr_t>(&__executable_start)
     << ",\"ops\":[";
  for (size_t i = 0; i < ops.size(); ++i) {
    js << (i ? "," : "") << "{\"op\":\"" << jesc(ops[i].name) << "\",\"class\":\"" << ops[i].cls
       << "\",\"in_alphabet\":" << (ops[i].in_alphabet ? "true" : "false") << ",\"mismatch\":" << mismatch[i]
       << ",\"out_len\":" << ref[i][0].size() << ",\"faults\":[";
    bool first = true;
    std::set<std::string> seen;
    for (size_t f = 0; f < H->nfault; ++f) {
      const Fault & ft = H->faults[f];
      if (ft.op != static_cast<int>(i)) continue;
      // attribute
      std::string region, object, member;
      uintptr_t off = 0;
      const Range * best = nullptr;
      for (size_t q = 0; q < H->nrange; ++q) {
        const Range & rg = H->ranges[q];
        if (ft.addr >= rg.lo && ft.addr < rg.hi && (!best || (rg.hi - rg.lo) < (best->hi - best->lo))) best = &rg;
      }
      if (ft.addr >= g_data_lo && ft.addr < g_data_hi) {
        region = "static";
        off    = ft.addr - reinterpret_cast<uintptr_t>(&__executable_start);
      } else {
        region = ft.addr < reinterpret_cast<uintptr_t>(g_arena) + arena_after_world ? "arena" : "arena-late";
        off    = ft.addr - reinterpret_cast<uintptr_t>(g_arena);
      }
      if (best) {
        object = best->object;
        member = best->member;
        off    = ft.addr - best->lo;
      }
      std::ostringstream key;
      key << region << "|" << object << "|" << member << "|" << ft.guarded << "|" << ft.pass << "|" << (best ? 0 : off);
      if (!seen.insert(key.str()).second) continue;
      js << (first ? "" : ",") << "{\"region\":\"" << region << "\",\"object\":\"" << object << "\",\"member\":\"" << member
         << "\",\"offset\":" << off << ",\"guarded_init\":" << (ft.guarded ? "true" : "false")
         << ",\"pass\":\"" << (ft.pass == 0 ? "cold" : "warm") << "\",\"k\":" << ft.k << "}";
      first = false;
    }
    js << "]}";
  }
  js << "]}";
  std::printf("%s\n", js.str().c_str());
  std::fflush(stdout);
  _exit(0);  // no destructors: the world lives in the arena
}
#else
// =====================================================================================================
// SCHEDULE mode (ThreadSanitizer)
// =====================================================================================================
int main(int argc, char ** argv)
{
  tsan_boot();
  g_seed          = hv::seed_from_env();
  const bool thor = hv::thorough();
  const int K_default    = thor ? 12 : 4;
  const int reps_default = thor ? 4 : 2;
  std::vector<int> thread_counts = thor ? std::vector<int>{16, 2, 3, 4, 5, 6, 7, 8, 9, 10, 11, 12, 13, 14, 15}
                                        : std::vector<int>{16, 2, 3, 5, 8};
  // optional arguments:  --ops i,j,k   (indices into the alphabet; default: all operations of the alphabet)
  //                      --threads a,b (thread counts)   --reps n   --k n
  std::vector<size_t> sel;
  bool sel_given = false;
  auto parse_list = [](const char * a) {
    std::vector<long> v;
    std::stringstream ss(a);
    std::string item;
    while (std::getline(ss, item, ',')) if (!item.empty()) v.push_back(std::stol(item));
    return v;
  };
  int reps_arg = 0, k_arg = 0;
  for (int i = 1; i + 1 < argc; i += 2) {
    const std::string key = argv[i];
    if (key == "--ops") {
      sel_given = true;
      for (long x : parse_list(argv[i + 1])) sel.push_back(static_cast<size_t>(x));
    } else if (key == "--threads") {
      thread_counts.clear();
      for (long x : parse_list(argv[i + 1])) thread_counts.push_back(static_cast<int>(x));
    } else if (key == "--reps") {
      reps_arg = std::atoi(argv[i + 1]);
    } else if (key == "--k") {
      k_arg = std::atoi(argv[i + 1]);
    }
  }
  const int K    = k_arg > 0 ? k_arg : K_default;
  const int reps = reps_arg > 0 ? reps_arg : reps_default;

  const World * Wp = new World(g_seed);
  const World & W  = *Wp;
  W.register_ranges();
  const std::vector<Op> ops = make_ops();
  if (!sel_given)
    for (size_t i = 0; i < ops.size(); ++i)
      if (ops[i].in_alphabet) sel.push_back(i);
  sel.erase(std::remove_if(sel.begin(), sel.end(), [&](size_t i) { return i >= ops.size(); }), sel.end());

  for (size_t q = 0; q < H->nrange; ++q) {
    std::printf("RANGE\t%s\t%s\t0x%lx\t0x%lx\n", H->ranges[q].object, H->ranges[q].member, H->ranges[q].lo, H->ranges[q].hi);
  }
  std::fflush(stdout);

  // results[phase][thread][op][k]
  struct PhaseRes
  {
    int T;
    std::vector<std::vector<std::vector<Out>>> res;
  };
  std::vector<PhaseRes> phases;
  long evaluations = 0;
  for (int T : thread_counts) {
    for (int rep = 0; rep < reps; ++rep) {
      PhaseRes ph;
      ph.T = T;
      ph.res.assign(static_cast<size_t>(T), std::vector<std::vector<Out>>(ops.size(), std::vector<Out>(static_cast<size_t>(K))));
      std::atomic<int> go{0};
      std::vector<std::thread> th;
      for (int t = 0; t < T; ++t) {
        th.emplace_back([&, t]() {
          // every thread: its own order of (op, k) pairs, derived from the seed
          std::vector<std::pair<size_t, int>> work;
          for (size_t i : sel)
            for (int k = 0; k < K; ++k) work.emplace_back(i, k);
          hv::Rng r(g_seed * 977 + static_cast<uint64_t>(t) * 131 + static_cast<uint64_t>(T) * 7 + static_cast<uint64_t>(rep));
          for (size_t i = work.size(); i > 1; --i) std::swap(work[i - 1], work[static_cast<size_t>(r.below(static_cast<int>(i)))]);
          go.fetch_add(1);
          while (go.load() < T) {}  // start together
          for (const auto & [i, k] : work) { ph.res[static_cast<size_t>(t)][i][static_cast<size_t>(k)] = run_op(ops, W, i, k); }
        });
      }
      for (auto & x : th) x.join();
      evaluations += static_cast<long>(T) * static_cast<long>(sel.size()) * K;
      phases.push_back(std::move(ph));
    }
  }
  // sequential reference (computed AFTER the first concurrent phases so that first use of every static happened
  // concurrently)
  std::vector<std::vector<Out>> ref(ops.size(), std::vector<Out>(static_cast<size_t>(K)));
  for (size_t i : sel)
    for (int k = 0; k < K; ++k) ref[i][static_cast<size_t>(k)] = run_op(ops, W, i, k);

  std::map<std::string, long> mism;
  std::map<std::string, std::string> mism_sample;
  for (const auto & ph : phases)
    for (int t = 0; t < ph.T; ++t)
      for (size_t i : sel)
        for (int k = 0; k < K; ++k)
          if (!same_bits(ph.res[static_cast<size_t>(t)][i][static_cast<size_t>(k)], ref[i][static_cast<size_t>(k)])) {
            ++mism[ops[i].name];
            if (!mism_sample.count(ops[i].name)) {
              std::ostringstream s;
              s << "{\"threads\":" << ph.T << ",\"thread\":" << t << ",\"k\":" << k << "}";
              mism_sample[ops[i].name] = s.str();
            }
          }
  std::ostringstream js;
  js << "{\"mode\":\"tsan\",\"seed\":" << g_seed << ",\"K\":" << K << ",\"evaluations\":" << evaluations << ",\"thread_counts\":[";
  for (size_t i = 0; i < thread_counts.size(); ++i) js << (i ? "," : "") << thread_counts[i];
  js << "],\"ops\":[";
  bool first = true;
  for (size_t i : sel) {
    js << (first ? "" : ",") << "{\"op\":\"" << jesc(ops[i].name) << "\",\"class\":\"" << ops[i].cls << "\",\"in_alphabet\":"
       << (ops[i].in_alphabet ? "true" : "false") << ",\"mismatch\":" << (mism.count(ops[i].name) ? mism[ops[i].name] : 0)
       << ",\"sample\":" << (mism_sample.count(ops[i].name) ? mism_sample[ops[i].name] : std::string("null")) << "}";
    first = false;
  }
  js << "]}";
  std::printf("%s\n", js.str().c_str());
  std::fflush(stdout);
  _exit(0);
}
#endif
