#define HV_EIGEN_ASSERT_THROWS
// the library's own assert(sp.isCompressed()) would abort the harness before it can report the input: the harness checks
// compressed-ness and structure itself, so C asserts are compiled out (Eigen's index checks stay on, as exceptions)
#ifndef NDEBUG
#define NDEBUG
#endif
// C19 numeric harness on the real library: for random host sizes / block offsets / stratified tangent vectors,
// every sparse routine must leave in its block exactly the dense values, leave every other stored entry
// untouched (sentinels), never change the structure arrays and keep the matrix compressed.
#include "hcommon.hpp"
#include <cstring>
#include <smooth/bundle.hpp>
#include <smooth/c1.hpp>
#include <smooth/galilei.hpp>
#include <smooth/lie_sparse.hpp>
#include <smooth/se2.hpp>
#include <smooth/se3.hpp>
#include <smooth/so2.hpp>
#include <smooth/so3.hpp>
using namespace hv;
using SpMat = Eigen::SparseMatrix<double>;

static Report * REP;

template<typename G>
Eigen::Matrix<double, smooth::Dof<G>, 1> gen_tan(Rng & r, std::string & label)
{
  Eigen::Matrix<double, smooth::Dof<G>, 1> a;
  int k = r.below(6);
  const char * L[] = {"zero", "tiny", "switch", "small", "generic", "single_axis"};
  label = L[k];
  for (int i = 0; i < a.size(); ++i) a(i) = strat_lin(r, 100);
  double sc = k == 0 ? 0 : k == 1 ? r.logu(1e-12, 1e-6) : k == 2 ? 1e-4 * (1 + r.sym() * 1e-2) : k == 3 ? r.logu(1e-4, 1e-1) : 1;
  if (k <= 3) a *= sc / std::max(1e-300, a.norm() + (a.norm() == 0));
  if (k == 0) a.setZero();
  if (k == 5) {
    int keep = r.below(static_cast<int>(a.size()));
    for (int i = 0; i < a.size(); ++i)
      if (i != keep) a(i) = 0;
  }
  return a;
}

struct Snapshot
{
  std::vector<int> outer, inner;
  std::vector<double> vals;
  bool compressed;
  long nnz;
};
Snapshot snap(const SpMat & m)
{
  Snapshot s;
  s.compressed = m.isCompressed();
  s.nnz        = m.nonZeros();
  s.outer.assign(m.outerIndexPtr(), m.outerIndexPtr() + m.outerSize() + 1);
  s.inner.assign(m.innerIndexPtr(), m.innerIndexPtr() + m.nonZeros());
  s.vals.assign(m.valuePtr(), m.valuePtr() + m.nonZeros());
  return s;
}

// host with the pattern shifted to the block positions plus random extra entries holding sentinels
template<bool Hess>
SpMat make_host(const SpMat & pat, int dof, int rows, int i0, Rng & r, std::vector<std::pair<int, int>> & blockpos, int xcols = 0)
{
  // Hessian hosts: block (i0+j) of width `rows` starts at column rows*(i0+j); the host may be wider than rows*rows
  const int cols = Hess ? rows * rows + xcols : rows;
  SpMat h(rows, cols);
  std::vector<Eigen::Triplet<double>> t;
  for (int k = 0; k < pat.outerSize(); ++k)
    for (SpMat::InnerIterator it(pat, k); it; ++it) {
      int rr = i0 + static_cast<int>(it.row());
      int cc = Hess ? rows * (i0 + static_cast<int>(it.col()) / dof) + i0 + static_cast<int>(it.col()) % dof
                    : i0 + static_cast<int>(it.col());
      blockpos.emplace_back(rr, cc);
      t.emplace_back(rr, cc, 7777.0);
    }
  const int extra = r.below(3 * rows + 1);
  for (int e = 0; e < extra; ++e) t.emplace_back(r.below(rows), r.below(cols), 0.0);
  h.setFromTriplets(t.begin(), t.end(), [](double a, double) { return a; });
  h.makeCompressed();
  // sentinel values everywhere
  for (int k = 0; k < h.nonZeros(); ++k) h.valuePtr()[k] = 1000.0 + k;
  return h;
}

template<typename G, typename FS, typename FD, bool Hess>
void one(const char * gname, const char * fname, const SpMat & pat, FS fs, FD fd, Rng & rng)
{
  constexpr int dof = smooth::Dof<G>;
  std::string lab;
  auto a        = gen_tan<G>(rng, lab);
  const int rows = dof + rng.below(6);
  const int i0   = rng.below(rows - dof + 1);
  std::vector<std::pair<int, int>> bp;
  const int xcols = (Hess && rng.below(2)) ? 1 + rng.below(2 * rows) : 0;
  SpMat h = make_host<Hess>(pat, dof, rows, i0, rng, bp, xcols);
  Snapshot before = snap(h);
  fs(h, a, i0);
  Snapshot after = snap(h);
  auto D         = fd(a);
  ++REP->evaluations;
  ++REP->strata[std::string(fname) + ":" + lab];
  const std::string key = std::string(gname) + "." + fname;
  auto failrec = [&](const char * what, double err) {
    std::ostringstream os;
    os.precision(17);
    os << "{\"group\":\"" << gname << "\",\"fn\":\"" << fname << "\",\"check\":\"" << what << "\",\"err\":" << err
       << ",\"rows\":" << rows << ",\"xcols\":" << xcols << ",\"i0\":" << i0 << ",\"a\":" << jvec(a) << "}";
    REP->fail(os.str(), key + "." + what, err);
  };
  if (!after.compressed) failrec("compressed", 1);
  if (after.nnz != before.nnz || after.outer != before.outer || after.inner != before.inner) failrec("structure", 1);
  // expected values: block = dense at pattern positions; everything else untouched
  if (after.outer == before.outer && after.inner == before.inner) {
    std::vector<double> want = before.vals;
    size_t q = 0;
    for (int k = 0; k < pat.outerSize(); ++k)
      for (SpMat::InnerIterator it(pat, k); it; ++it, ++q) {
        auto [rr, cc] = bp[q];
        // locate
        for (int p = before.outer[cc]; p < before.outer[cc + 1]; ++p)
          if (before.inner[p] == rr) want[static_cast<size_t>(p)] = D(it.row(), it.col());
      }
    double worst_block = 0, worst_other = 0;
    for (size_t p = 0; p < want.size(); ++p) {
      bool inblock = false;
      // recompute membership
      (void)inblock;
      double e = std::fabs(after.vals[p] - want[p]);
      if (!(e == 0)) {
        if (want[p] == before.vals[p])
          worst_other = std::max(worst_other, std::isfinite(e) ? e : 1e300);
        else
          worst_block = std::max(worst_block, std::isfinite(e) ? e : 1e300);
      }
    }
    REP->tally(key + ".block", worst_block);
    REP->tally(key + ".frame", worst_other);
    if (worst_block != 0) failrec("block_values", worst_block);
    if (worst_other != 0) failrec("other_entries_touched", worst_other);
    // dense entries outside the pattern must be zero (pattern completeness, sampled)
    double off = 0;
    for (int i = 0; i < D.rows(); ++i)
      for (int j = 0; j < D.cols(); ++j)
        if (pat.coeff(i, j) == 0 && [&] {
              for (SpMat::InnerIterator it(pat, j); it; ++it)
                if (it.row() == i) return false;
              return true;
            }())
          off = std::max(off, std::fabs(D(i, j)));
    REP->tally(key + ".offpattern", off);
    if (off != 0) failrec("dense_nonzero_outside_pattern", off);
  }
  if (REP->samples.size() < 4) {
    std::ostringstream os;
    os << "{\"group\":\"" << gname << "\",\"fn\":\"" << fname << "\",\"rows\":" << rows << ",\"i0\":" << i0
       << ",\"stratum\":\"" << lab << "\",\"a\":" << jvec(a) << "}";
    REP->sample(os.str());
  }
}

template<typename G, bool HasHess = true>
void run(const char * gname, Rng & rng, int n)
{
  using T = Eigen::Matrix<double, smooth::Dof<G>, 1>;
  for (int c = 0; c < n; ++c) {
    one<G, decltype([](SpMat & s, const T & a, int i0) { smooth::dr_exp_sparse<G>(s, a, i0); }),
        decltype([](const T & a) { return smooth::dr_exp<G>(a); }), false>(gname, "dr_exp", smooth::d_exp_sparse_pattern<G>, {}, {}, rng);
    one<G, decltype([](SpMat & s, const T & a, int i0) { smooth::dr_expinv_sparse<G>(s, a, i0); }),
        decltype([](const T & a) { return smooth::dr_expinv<G>(a); }), false>(gname, "dr_expinv", smooth::d_exp_sparse_pattern<G>, {}, {}, rng);
    if constexpr (HasHess) {
      one<G, decltype([](SpMat & s, const T & a, int i0) { smooth::d2r_exp_sparse<G>(s, a, i0); }),
          decltype([](const T & a) { return smooth::d2r_exp<G>(a); }), true>(gname, "d2r_exp", smooth::d2_exp_sparse_pattern<G>, {}, {}, rng);
      one<G, decltype([](SpMat & s, const T & a, int i0) { smooth::d2r_expinv_sparse<G>(s, a, i0); }),
          decltype([](const T & a) { return smooth::d2r_expinv<G>(a); }), true>(gname, "d2r_expinv", smooth::d2_exp_sparse_pattern<G>, {}, {}, rng);
    }
    // ad_sparse has no offset: the host is the pattern itself
    {
      std::string lab;
      T a      = gen_tan<G>(rng, lab);
      SpMat h  = smooth::ad_sparse_pattern<G>;
      Snapshot before = snap(h);
      smooth::ad_sparse<G>(h, a);
      Snapshot after = snap(h);
      ++REP->evaluations;
      auto D   = smooth::ad<G>(a);
      double e = (Eigen::MatrixXd(h) - Eigen::MatrixXd(D)).cwiseAbs().maxCoeff();
      if (h.size() == 0) e = 0;
      REP->tally(std::string(gname) + ".ad.block", e);
      bool st = after.compressed && after.outer == before.outer && after.inner == before.inner;
      if (!(e == 0) || !st) {
        std::ostringstream os;
        os.precision(17);
        os << "{\"group\":\"" << gname << "\",\"fn\":\"ad\",\"check\":\"" << (st ? "block_values" : "structure")
           << "\",\"err\":" << e << ",\"a\":" << jvec(a) << "}";
        REP->fail(os.str(), std::string(gname) + ".ad", e);
      }
    }
  }
}

static int hv_main();
int main() { return hv::guard(hv_main); }
static int hv_main()
{
  Report rep;
  rep.property = "C19";
  REP          = &rep;
  Rng rng(seed_from_env());
  const int n = thorough() ? 3000 : 300;
  using namespace smooth;
  using V1 = Eigen::Vector<double, 1>;
  using V2 = Eigen::Vector2d;
  using V3 = Eigen::Vector3d;
  run<SO2d>("SO2", rng, n);
  run<SO3d>("SO3", rng, n);
  run<SE2d>("SE2", rng, n);
  run<SE3d>("SE3", rng, n);
  run<C1d>("C1", rng, n);
  run<Galileid, false>("Galilei", rng, n);
  run<V3>("Vector3", rng, n);
  run<Bundle<SO3d, V3>>("SO3xT3", rng, n);
  run<Bundle<V2, SE2d>>("T2xSE2", rng, n);
  run<Bundle<SE2d, SO3d, V1, SO2d>>("SE2xSO3xT1xSO2", rng, n);
  run<Bundle<SO3d, SO3d>>("SO3xSO3", rng, n);
  run<Bundle<Bundle<SO2d, V2>, SE3d>>("(SO2xT2)xSE3", rng, n);
  run<Bundle<C1d, SE3d>>("C1xSE3", rng, n);
  run<Bundle<SE3d, Bundle<SE2d, V2>, SO3d>>("SE3x(SE2xT2)xSO3", rng, n);
  rep.print();
  return 0;
}
