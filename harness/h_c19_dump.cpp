// C19 generator: dumps the published sparsity patterns (inline variables of lie_sparse.hpp) of the real library.
#include <cstdio>
#include <smooth/bundle.hpp>
#include <smooth/c1.hpp>
#include <smooth/galilei.hpp>
#include <smooth/lie_sparse.hpp>
#include <smooth/se2.hpp>
#include <smooth/se3.hpp>
#include <smooth/so2.hpp>
#include <smooth/so3.hpp>

template<typename G>
void dump(const char * name)
{
  auto pr = [&](const char * what, const Eigen::SparseMatrix<double> & sp) {
    std::printf("%s %s %d %d %d %d :", name, what, int(sp.rows()), int(sp.cols()), int(sp.isCompressed()), int(sp.nonZeros()));
    for (int k = 0; k < sp.outerSize(); ++k)
      for (Eigen::SparseMatrix<double>::InnerIterator it(sp, k); it; ++it) std::printf(" %d,%d", int(it.row()), int(it.col()));
    std::printf("\n");
  };
  pr("ad", smooth::ad_sparse_pattern<G>);
  pr("d_exp", smooth::d_exp_sparse_pattern<G>);
  pr("d2_exp", smooth::d2_exp_sparse_pattern<G>);
}

int main()
{
  using namespace smooth;
  using V1 = Eigen::Vector<double, 1>;
  using V2 = Eigen::Vector2d;
  using V3 = Eigen::Vector3d;
  dump<SO2d>("so2");
  dump<SO3d>("so3");
  dump<SE2d>("se2");
  dump<SE3d>("se3");
  dump<C1d>("c1");
  dump<Galileid>("gal");
  dump<Bundle<SO3d, V3>>("ba");
  dump<Bundle<V2, SE2d>>("bb");
  dump<Bundle<SE2d, SO3d, V1, SO2d>>("bc");
  dump<Bundle<SO3d, SO3d>>("bd");
  dump<Bundle<SO2d, V2>>("bei");
  dump<Bundle<Bundle<SO2d, V2>, SE3d>>("be");
  dump<Bundle<C1d, SE3d>>("bf");
  return 0;
}
