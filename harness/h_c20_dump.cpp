// C20 generator: prints the ACTUAL constexpr matrices of /repo's polynomial headers as exact values (%a hex
// floats).  scripts/props_C20.py converts them to exact rationals and writes coq/Gen/BasisC20.v.
// Output lines:  M <name> <K> <rows> <cols> v v v ...      (row-major)
//                L <K> x0 .. x{K-1} w0 .. w{K-1}           (lgr_nodes<K>)
#include <cmath>
#include <cstdio>
#include <array>
#include <utility>

#include "smooth/polynomial/basis.hpp"
#include "smooth/polynomial/quadrature.hpp"

using smooth::PolynomialBasis;

template<typename M>
void dump(const char * name, unsigned K, const M & m)
{
  std::printf("M %s %u %zu %zu", name, K, M::Rows, M::Cols);
  for (std::size_t i = 0; i < M::Rows; ++i)
    for (std::size_t j = 0; j < M::Cols; ++j) std::printf(" %a", m[i][j]);
  std::printf("\n");
}

template<std::size_t K>
void dump_K()
{
  // every value goes through a constexpr variable: what is printed is what the compile-time code produced
  {constexpr auto m = smooth::polynomial_basis<PolynomialBasis::Bernstein, K>(); dump("bernstein", K, m);}
  {constexpr auto m = smooth::polynomial_basis<PolynomialBasis::Bspline, K>(); dump("bspline", K, m);}
  {constexpr auto m = smooth::polynomial_basis<PolynomialBasis::Chebyshev1st, K>(); dump("chebyshev1st", K, m);}
  {constexpr auto m = smooth::polynomial_basis<PolynomialBasis::Chebyshev2nd, K>(); dump("chebyshev2nd", K, m);}
  {constexpr auto m = smooth::polynomial_basis<PolynomialBasis::Hermite, K>(); dump("hermite", K, m);}
  {constexpr auto m = smooth::polynomial_basis<PolynomialBasis::Laguerre, K>(); dump("laguerre", K, m);}
  {constexpr auto m = smooth::polynomial_basis<PolynomialBasis::Legendre, K>(); dump("legendre", K, m);}
  {constexpr auto m = smooth::polynomial_basis<PolynomialBasis::Monomial, K>(); dump("monomial", K, m);}
  {constexpr auto m = smooth::polynomial_cumulative_basis<PolynomialBasis::Bernstein, K>(); dump("cum_bernstein", K, m);}
  {constexpr auto m = smooth::polynomial_cumulative_basis<PolynomialBasis::Bspline, K>(); dump("cum_bspline", K, m);}
  // monomial_derivatives<K, K+1> at the dyadic point u = 3/4 (all orders 0..K+1, incl. p > K) and at u = -3
  {constexpr auto m = smooth::monomial_derivatives<K, K + 1>(0.75); dump("monoderivs_3_4", K, m);}
  {constexpr auto m = smooth::monomial_derivatives<K, K + 1>(-3.); dump("monoderivs_m3", K, m);}
  {constexpr auto m = smooth::monomial_integral<K, 0>(); dump("monoint_0", K, m);}
  {constexpr auto m = smooth::monomial_integral<K, 1>(); dump("monoint_1", K, m);}
  {constexpr auto m = smooth::monomial_integral<K, 2>(); dump("monoint_2", K, m);}
  {constexpr auto m = smooth::monomial_integral<K, 3>(); dump("monoint_3", K, m);}
  {constexpr auto m = smooth::monomial_integral<K, 4>(); dump("monoint_4", K, m);}
  {constexpr auto m = smooth::monomial_integral<K, 5>(); dump("monoint_5", K, m);}
  {constexpr auto m = smooth::monomial_integral<K, 6>(); dump("monoint_6", K, m);}
  {constexpr auto m = smooth::monomial_integral<K, 7>(); dump("monoint_7", K, m);}
  {constexpr auto m = smooth::monomial_integral<K, 8>(); dump("monoint_8", K, m);}
  {constexpr auto m = smooth::monomial_integral<K, 9>(); dump("monoint_9", K, m);}
  {constexpr auto m = smooth::monomial_integral<K, 10>(); dump("monoint_10", K, m);}
  {constexpr auto m = smooth::monomial_integral<K, 11>(); dump("monoint_11", K, m);}
  // lagrange_basis on the dyadic nodes t_i = (i*i - 3*i)/4 + i  (distinct, non-uniform, exactly representable)
  {
    constexpr auto ts = [] { std::array<double, K + 1> t{}; for (std::size_t i = 0; i <= K; ++i) t[i] = (double(i) * double(i) - 3. * double(i)) / 4. + double(i); return t; }();
    constexpr auto m = smooth::lagrange_basis<K>(ts);
    dump("lagrange_q", K, m);
  }
}

template<std::size_t K>
void dump_lgr()
{
  constexpr auto nw = smooth::lgr_nodes<K>();
  std::printf("L %zu", K);
  for (std::size_t i = 0; i < K; ++i) std::printf(" %a", nw.first[i]);
  for (std::size_t i = 0; i < K; ++i) std::printf(" %a", nw.second[i]);
  std::printf("\n");
}

int main()
{
  [&]<std::size_t... Ks>(std::index_sequence<Ks...>) { (dump_K<Ks>(), ...); }(std::make_index_sequence<11>{});
  [&]<std::size_t... Ks>(std::index_sequence<Ks...>) { (dump_lgr<Ks + 1>(), ...); }(std::make_index_sequence<16>{});
  return 0;
}
