// C20 correspondence harness for smooth::utils::binary_interval_search (detail/utils.hpp:42-95), run against the
// REAL function.  Exhaustive: every sorted range of length <= 8 over a 5-letter alphabet (with repeats) x every
// query, for three type configurations; then random longer ranges.  Every element/query is a multiple of 1/SCALE,
// printed as the scaled integer, so the Z model sees exactly the same order relation.
// Output:  S id n r0..r(n-1) t np p0..p(np-1)     case + indices of the elements the real code compared with t
//          R id cfg res2 res3                      result (index, -1 = end()) of the 2-argument and 3-argument overloads
// Build with -fsanitize=address,undefined: an out-of-range pivot or overflow aborts the run.
#include <cmath>
#include <compare>
#include <cstdio>
#include <cstdlib>
#include <vector>

#include "smooth/detail/utils.hpp"
#include "hcommon.hpp"

static long g_id = 0;
static char g_cur[4096];   // the case being executed, printed by the sanitizer hook if the real code faults
extern "C" void __asan_on_error() { std::fprintf(stderr, "FAULTING-CASE %s\n", g_cur); }

template<typename Rv, typename T>
void run_case(const char * cfg, const std::vector<Rv> & r, T t, double scale)
{
  {
    int o = std::snprintf(g_cur, sizeof g_cur, "cfg=%s scale=%g query=%.17g range=", cfg, scale, static_cast<double>(t));
    for (std::size_t i = 0; i < r.size() && o < 3900; ++i) o += std::snprintf(g_cur + o, sizeof g_cur - o, "%.17g ", static_cast<double>(r[i]));
  }
  std::vector<long> probes;
  const Rv * base = r.data();
  auto wo         = [&](const Rv & s, const T & q) {
    probes.push_back(static_cast<long>(&s - base));
    return s <=> q;
  };
  const auto it3 = smooth::utils::binary_interval_search(r, t, wo);
  const auto it2 = smooth::utils::binary_interval_search(r, t);
  const long res3 = it3 == r.end() ? -1 : static_cast<long>(it3 - r.begin());
  const long res2 = it2 == r.end() ? -1 : static_cast<long>(it2 - r.begin());
  ++g_id;
  std::printf("S %ld %zu", g_id, r.size());
  for (const auto & x : r) std::printf(" %ld", std::lround(static_cast<double>(x) * scale));
  std::printf(" %ld %zu", std::lround(static_cast<double>(t) * scale), probes.size());
  for (auto p : probes) std::printf(" %ld", p);
  std::printf("\nR %ld %s %ld %ld\n", g_id, cfg, res2, res3);
}

template<typename Rv, typename T>
void exhaustive(const char * cfg, const std::vector<Rv> & alphabet, const std::vector<T> & queries, double scale)
{
  // all non-decreasing index sequences of length 0..8 over the alphabet
  for (int n = 0; n <= 8; ++n) {
    std::vector<int> idx(n, 0);
    while (true) {
      std::vector<Rv> r(n);
      for (int i = 0; i < n; ++i) r[i] = alphabet[idx[i]];
      for (const auto & t : queries) run_case<Rv, T>(cfg, r, t, scale);
      // next multiset
      int k = n - 1;
      while (k >= 0 && idx[k] == static_cast<int>(alphabet.size()) - 1) --k;
      if (k < 0) break;
      const int v = idx[k] + 1;
      for (int i = k; i < n; ++i) idx[i] = v;
    }
  }
}

int main()
{
  hv::Rng rng(hv::seed_from_env() * 0x9e3779b97f4a7c15ULL + 20);
  const bool thorough = hv::thorough();

  // I: int range, int query
  exhaustive<int, int>("int_int", {0, 1, 2, 3, 4}, {-1, 0, 1, 2, 3, 4, 5}, 2);
  // D: int range, double query incl. half-integers
  exhaustive<int, double>("int_double", {0, 1, 2, 3, 4}, {-1, -0.5, 0, 0.5, 1, 1.5, 2, 2.5, 3, 3.5, 4, 4.5, 5}, 2);
  // F: double range (non-uniform alphabet: interpolation is far from the index), double query
  exhaustive<double, double>("double_double", {-1.5, 0, 0.5, 2, 1000.5},
    {-2, -1.5, -0.75, 0, 0.25, 0.5, 1.25, 2, 501.25, 1000.5, 1001}, 4);

  // boundary stream: the floating-point interpolation ratio rounds to exactly 1.0 although t < r.back()
  // (t - left and back - left round to the same double), so n = dist and only the clamp to rght-2 keeps the pivot
  // inside the range.  All values are integers (scale 1).
  for (int n = 3; n <= 8; ++n) {
    for (int fill = 0; fill < 3; ++fill) {
      std::vector<double> r(n);
      const double top = 0x1p+57;
      r[0]             = -9.;
      for (int i = 1; i + 1 < n; ++i) r[i] = fill == 0 ? 0. : (fill == 1 ? static_cast<double>(i) : top - 16.);
      r[n - 1] = top;
      run_case<double, double>("alpha_rounds_to_one", r, top - 16., 1);
      run_case<double, double>("alpha_rounds_to_one", r, top - 32., 1);
    }
  }

  // random longer ranges (lengths 9..64), with repeats, clustered values, queries at / between / outside elements
  const int nrand = thorough ? 20000 : 2000;
  for (int c = 0; c < nrand; ++c) {
    const int n     = 9 + rng.below(56);
    const int style = rng.below(4);
    std::vector<long> v(n);
    long cur = static_cast<long>(rng.below(2000)) - 1000;
    for (int i = 0; i < n; ++i) {
      long step = 0;
      switch (style) {
      case 0: step = rng.below(3); break;                                        // many repeats
      case 1: step = rng.below(2) ? 0 : rng.below(1000); break;                  // clusters
      case 2: step = 1 + rng.below(4); break;                                    // strictly increasing
      default: step = (rng.below(8) == 0) ? 1000000 + rng.below(1000) : rng.below(5); break;   // huge gaps
      }
      cur += step;
      v[i] = cur;
    }
    long q;
    switch (rng.below(5)) {
    case 0: q = v[rng.below(n)]; break;
    case 1: q = v[rng.below(n)] + 1; break;
    case 2: q = v[rng.below(n)] - 1; break;
    case 3: q = v[0] - 1 - rng.below(3); break;
    default: q = v[n - 1] + rng.below(3); break;
    }
    // values are quarter-integers: v/4
    if (rng.below(2)) {
      std::vector<double> r(n);
      for (int i = 0; i < n; ++i) r[i] = static_cast<double>(v[i]) / 4.;
      run_case<double, double>("rand_double", r, static_cast<double>(q) / 4., 4);
    } else {
      std::vector<int> r(n);
      for (int i = 0; i < n; ++i) r[i] = static_cast<int>(v[i]);
      if (rng.below(2)) run_case<int, int>("rand_int", r, static_cast<int>(q), 2);
      else run_case<int, double>("rand_int_double", r, static_cast<double>(q) + 0.5 * rng.below(2), 2);
    }
  }
  return 0;
}
