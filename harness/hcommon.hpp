// Shared helpers for the numeric harnesses: PRNG (one splitmix64 state seeded by VERIF_SEED), stratified
// generators aimed at the case splits of the proofs, an oracle scalar type, JSON reporting.
#pragma once
// opt-in: Eigen's assertions (index/size checks) become exceptions, so that a library change that runs out of bounds
// is reported as a failing case with its input instead of aborting the whole harness
#if defined(HV_EIGEN_ASSERT_THROWS) && !defined(eigen_assert)
#include <stdexcept>
#define eigen_assert(x)                                           \
  do {                                                            \
    if (!(x)) throw std::logic_error("eigen_assert failed: " #x); \
  } while (0)
#endif
#include <cmath>
#include <cstdint>
#include <cstdio>
#include <cstdlib>
#include <map>
#include <sstream>
#include <string>
#include <vector>

#include <Eigen/Core>

namespace hv {

using ld = long double;  // x87 80-bit: 64-bit mantissa, enough headroom over binary64 for 1e-12-level checks

struct Rng
{
  uint64_t s;
  explicit Rng(uint64_t seed) : s(seed) {}
  uint64_t next()
  {
    uint64_t z = (s += 0x9e3779b97f4a7c15ULL);
    z          = (z ^ (z >> 30)) * 0xbf58476d1ce4e5b9ULL;
    z          = (z ^ (z >> 27)) * 0x94d049bb133111ebULL;
    return z ^ (z >> 31);
  }
  double uni() { return static_cast<double>(next() >> 11) * 0x1.0p-53; }
  double sym() { return 2 * uni() - 1; }
  int below(int n) { return static_cast<int>(next() % static_cast<uint64_t>(n)); }
  double logu(double lo, double hi) { return std::exp(std::log(lo) + uni() * (std::log(hi) - std::log(lo))); }
};

inline uint64_t seed_from_env()
{
  const char * s = std::getenv("VERIF_SEED");
  return s ? std::strtoull(s, nullptr, 10) : 1;
}
inline bool thorough()
{
  const char * s = std::getenv("VERIF_TIER");
  return s && std::string(s) == "thorough";
}

// angle strata: label + value
struct Strat
{
  const char * label;
  double v;
};
inline Strat strat_angle(Rng & r, bool beyond_pi = false)
{
  switch (r.below(beyond_pi ? 9 : 7)) {
  case 0: return {"zero", 0.0};
  case 1: return {"tiny", r.logu(1e-12, 1e-6)};
  case 2: return {"switch", 1e-4 * (1 + r.sym() * r.logu(1e-6, 1e-1))};
  case 3: return {"small", r.logu(1e-4, 1e-1)};
  case 4: return {"generic", 0.1 + 2.9 * r.uni()};
  case 5: return {"near_pi", M_PI - r.logu(1e-12, 1e-2)};
  case 6: return {"half_turn", M_PI};
  case 7: return {"above_pi", M_PI + r.logu(1e-12, 1e-2)};
  default: return {"large", 3.2 + 46 * r.uni()};
  }
}
inline double strat_lin(Rng & r, double maxmag = 1e3)
{
  switch (r.below(4)) {
  case 0: return 0.0;
  case 1: return r.sym();
  case 2: return (r.below(2) ? 1 : -1) * r.logu(1e-3, maxmag);
  default: return r.sym() * 5;
  }
}
inline void rand_axis(Rng & r, int k, double * ax)
{
  bool single = r.below(4) == 0;
  int which   = r.below(k);
  double nn   = 0;
  for (int i = 0; i < k; ++i) {
    ax[i] = single ? (i == which ? 1.0 : 0.0) : r.sym();
    nn += ax[i] * ax[i];
  }
  nn = std::sqrt(nn);
  if (nn == 0) { ax[0] = 1, nn = 1; }
  for (int i = 0; i < k; ++i) ax[i] /= nn;
}

struct Report;
inline Report * g_rep = nullptr;   // the live report (for the crash guard)

struct Report
{
  Report() { g_rep = this; }
  std::string current;             // what is being evaluated (json fragment), reported if an exception escapes
  std::string property;
  long evaluations = 0;
  std::map<std::string, long> strata;
  std::map<std::string, double> maxerr;     // per check label
  std::map<std::string, long> count;        // per check label
  std::vector<std::string> failures;        // json objects
  std::vector<std::string> samples;         // json objects
  long nfail = 0;

  void tally(const std::string & label, double err)
  {
    ++count[label];
    auto & m = maxerr[label];
    if (!(err <= m)) m = err;  // also records NaN
  }
  // failures are kept per key: the first two of each kind plus the ones with the smallest and the largest
  // characteristic magnitude, so that a failure outside a known region can never be hidden by ones inside it
  std::map<std::string, long> fail_by_key;
  std::map<std::string, std::pair<double, double>> fail_range;  // key -> (min,max) of the magnitude
  std::map<std::string, std::pair<std::string, std::string>> fail_extreme;
  void fail(const std::string & json, const std::string & key = "", double mag = 0)
  {
    ++nfail;
    long & k = fail_by_key[key];
    ++k;
    auto it = fail_range.find(key);
    if (it == fail_range.end()) {
      fail_range[key]   = {mag, mag};
      fail_extreme[key] = {json, json};
    } else {
      if (mag < it->second.first) {
        it->second.first       = mag;
        fail_extreme[key].first = json;
      }
      if (mag > it->second.second) {
        it->second.second       = mag;
        fail_extreme[key].second = json;
      }
    }
    if (k <= 2 && failures.size() < 60) failures.push_back(json);
  }
  void sample(const std::string & json)
  {
    if (samples.size() < 6) samples.push_back(json);
  }
  void print() const
  {
    std::printf("{\"property\":\"%s\",\"evaluations\":%ld,\"nfail\":%ld,\"strata\":{", property.c_str(), evaluations, nfail);
    bool f = true;
    for (auto & kv : strata) {
      std::printf("%s\"%s\":%ld", f ? "" : ",", kv.first.c_str(), kv.second);
      f = false;
    }
    std::printf("},\"checks\":{");
    f = true;
    for (auto & kv : count) {
      double m = maxerr.at(kv.first);
      std::printf("%s\"%s\":{\"n\":%ld,\"maxerr\":%s}", f ? "" : ",", kv.first.c_str(), kv.second,
                  std::isfinite(m) ? std::to_string(m).c_str() : "\"nan\"");
      // to_string loses precision for tiny values; print scientific instead
      f = false;
    }
    std::printf("},\"maxerr_sci\":{");
    f = true;
    for (auto & kv : maxerr) {
      std::printf("%s\"%s\":\"%.3e\"", f ? "" : ",", kv.first.c_str(), kv.second);
      f = false;
    }
    std::printf("},\"fail_by_key\":{");
    f = true;
    for (auto & kv : fail_by_key) {
      auto r = fail_range.at(kv.first);
      std::printf("%s\"%s\":{\"n\":%ld,\"min\":%.6e,\"max\":%.6e}", f ? "" : ",", kv.first.c_str(), kv.second, r.first, r.second);
      f = false;
    }
    std::printf("},\"failures\":[");
    {
      std::vector<std::string> all = failures;
      for (auto & kv : fail_extreme) {
        if (fail_by_key.at(kv.first) > 2) {
          all.push_back(kv.second.first);
          if (kv.second.second != kv.second.first) all.push_back(kv.second.second);
        }
      }
      for (size_t i = 0; i < all.size(); ++i) std::printf("%s%s", i ? "," : "", all[i].c_str());
    }
    std::printf("],\"samples\":[");
    for (size_t i = 0; i < samples.size(); ++i) std::printf("%s%s", i ? "," : "", samples[i].c_str());
    std::printf("]}\n");
  }
};

// run the harness body; an escaping exception (Eigen assertion, std::bad_alloc, ...) becomes a failure record
template<typename F>
int guard(F && body)
{
  try {
    return body();
  } catch (const std::exception & e) {
    if (g_rep) {
      std::string w = e.what();
      for (auto & ch : w)
        if (ch == '"' || ch == '\\') ch = '\'';
      g_rep->fail("{\"check\":\"crash\",\"what\":\"" + w + "\",\"while\":" + (g_rep->current.empty() ? "null" : g_rep->current) + "}", "crash");
      g_rep->print();
      return 0;
    }
    throw;
  }
}

template<typename V>
std::string jvec(const V & v)
{
  std::ostringstream os;
  os.precision(17);
  os << "[";
  for (Eigen::Index i = 0; i < v.size(); ++i) os << (i ? "," : "") << static_cast<double>(v(i));
  os << "]";
  return os.str();
}

}  // namespace hv
