// Independent long-double oracles for the exponential-map Jacobians and Hessians (C04, C05):
//   Jr(a) = int_0^1 expm(-s ad_a) ds  (Gauss-Legendre, composite), ad_a from the documented bracket;
//   Hessian entries by Richardson-extrapolated central differences of Jr in long double.
#pragma once
#include "docmat.hpp"

namespace hv {

template<typename G>
MatX ad_oracle(const VecX & a)
{
  using D       = Doc<G>;
  const int dof = static_cast<int>(a.size());
  MatX adm(dof, dof);
  MatX A = D::hat(a);
  for (int j = 0; j < dof; ++j) {
    VecX ej = VecX::Zero(dof);
    ej(j)   = 1;
    MatX E  = D::hat(ej);
    adm.col(j) = D::vee(A * E - E * A);
  }
  return adm;
}

inline void gauss_legendre16(std::vector<ld> & x, std::vector<ld> & w)
{
  // nodes/weights on [-1,1] by Newton iteration on P_16 (long double)
  const int n = 16;
  x.assign(n, 0);
  w.assign(n, 0);
  for (int i = 0; i < n; ++i) {
    ld z = std::cos(M_PIl * (i + 0.75L) / (n + 0.5L));
    for (int it = 0; it < 100; ++it) {
      ld p0 = 1, p1 = z;
      for (int k = 2; k <= n; ++k) {
        ld p2 = ((2 * k - 1) * z * p1 - (k - 1) * p0) / k;
        p0    = p1;
        p1    = p2;
      }
      ld dp = n * (z * p1 - p0) / (z * z - 1);
      ld dz = p1 / dp;
      z -= dz;
      if (std::fabs(static_cast<double>(dz)) < 1e-19) break;
    }
    ld p0 = 1, p1 = z;
    for (int k = 2; k <= n; ++k) {
      ld p2 = ((2 * k - 1) * z * p1 - (k - 1) * p0) / k;
      p0    = p1;
      p1    = p2;
    }
    ld dp = n * (z * p1 - p0) / (z * z - 1);
    x[static_cast<size_t>(i)] = z;
    w[static_cast<size_t>(i)] = 2 / ((1 - z * z) * dp * dp);
  }
}

// right Jacobian of exp at a
template<typename G>
MatX jr_oracle(const VecX & a)
{
  static std::vector<ld> gx, gw;
  if (gx.empty()) gauss_legendre16(gx, gw);
  const MatX adm = ad_oracle<G>(a);
  const int dof  = static_cast<int>(a.size());
  // number of sub-intervals so that the oscillation per sub-interval is small
  ld nrm      = adm.cwiseAbs().rowwise().sum().maxCoeff();
  int pieces  = std::max(1, std::min(64, static_cast<int>(std::ceil(static_cast<double>(nrm) / 2))));
  MatX J      = MatX::Zero(dof, dof);
  for (int p = 0; p < pieces; ++p) {
    ld lo = static_cast<ld>(p) / pieces, hi = static_cast<ld>(p + 1) / pieces;
    for (size_t q = 0; q < gx.size(); ++q) {
      ld s = (lo + hi) / 2 + (hi - lo) / 2 * gx[q];
      J += (hi - lo) / 2 * gw[q] * expm(-s * adm);
    }
  }
  return J;
}

// d/da_k of a matrix-valued oracle by Richardson-extrapolated central differences
template<typename F>
MatX dmat_oracle(F f, const VecX & a, int k, ld h0)
{
  auto cd = [&](ld h) {
    VecX ap = a, am = a;
    ap(k) += h;
    am(k) -= h;
    return MatX((f(ap) - f(am)) / (2 * h));
  };
  MatX d1 = cd(h0), d2 = cd(h0 / 2), d3 = cd(h0 / 4);
  MatX r1 = (4 * d2 - d1) / 3, r2 = (4 * d3 - d2) / 3;
  return (16 * r2 - r1) / 15;
}

}  // namespace hv
