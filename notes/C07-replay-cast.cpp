// Replay of finding C07-cast: traits::man<SubManifold<M>>::cast passes (cast m, cast m0, fixed) to the
// constructor SubManifold(m0, m, fixed)  ->  origin and value are swapped by smooth::cast<double>(sub).
// Build:  g++ -std=c++20 -I$REPO/include -I$REPO/_build/include -isystem /usr/include/eigen3 notes/C07-replay-cast.cpp -o /tmp/c07_replay && /tmp/c07_replay
// Exit status 1 = defect present (prints the swapped members), 0 = cast behaves identically to the original.
#include <cstdio>

#include <Eigen/Core>

#include "smooth/manifolds.hpp"
#include "smooth/manifolds/submanifold.hpp"

int main()
{
  Eigen::VectorXd m0(1), m(1);
  m0 << 0.0;   // origin
  m << 1.0;    // current value
  const smooth::SubManifold<Eigen::VectorXd> s(m0, m, Eigen::VectorXi::Zero(0));
  const auto c = smooth::cast<double>(s);   // cast to the SAME scalar type: must behave like s
  std::printf("original: m0=%g m=%g   cast<double>: m0=%g m=%g\n", s.m0()(0), s.m()(0), c.m0()(0), c.m()(0));
  const bool same = c.m0()(0) == s.m0()(0) && c.m()(0) == s.m()(0);
  std::printf(same ? "OK: cast preserves origin and value\n" : "DEFECT: cast swapped origin and value\n");
  return same ? 0 : 1;
}
