// Replay of finding C08-k2-jac-step: the first-derivative output of diff::dr<2, Numerical> misses the 1e-4 clause.
// g++ -std=c++20 -I/repo/include -I/repo/_build/include -isystem /usr/include/eigen3 C08-replay-k2-jac-step.cpp && ./a.out
#include <cmath>
#include <cstdio>
#include "smooth/diff.hpp"
int main()
{
  // f(x) = sin(x0) + 0.5 * x1^2 : smooth, O(1) values and derivatives; coordinates of magnitude 0.1..10
  const auto f = [](const Eigen::Vector2d & x) -> double { return std::sin(x(0)) + 0.5 * (x(1) - 8.0) * (x(1) - 8.0); };
  Eigen::Vector2d x(10.0, 8.0);
  const Eigen::RowVector2d Jtrue(std::cos(10.0), 0.0);
  auto [f1, J1]     = smooth::diff::dr<1, smooth::diff::Type::Numerical>(f, smooth::wrt(x));
  auto [f2, J2, H2] = smooth::diff::dr<2, smooth::diff::Type::Numerical>(f, smooth::wrt(x));
  const double sc = std::max(1.0, Jtrue.cwiseAbs().maxCoeff());
  std::printf("dr<1>: J = [% .10f % .10f]  rel.err %.3e\n", J1(0), J1(1), (J1 - Jtrue).cwiseAbs().maxCoeff() / sc);
  std::printf("dr<2>: J = [% .10f % .10f]  rel.err %.3e   (clause: 1e-4)\n", J2(0), J2(1), (J2 - Jtrue).cwiseAbs().maxCoeff() / sc);
  std::printf("true : J = [% .10f % .10f]\n", Jtrue(0), Jtrue(1));
  return (J2 - Jtrue).cwiseAbs().maxCoeff() / sc > 1e-4 ? 1 : 0;
}
