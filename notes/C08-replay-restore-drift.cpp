// Replay of finding C08-restore-drift: after diff::dr<2, Numerical> a non-const SO3 argument differs from its
// original value by more than 1e-15 * (largest coefficient); after dr<1> (one round trip per direction) it stays within.
// g++ -std=c++20 -I/repo/include -I/repo/_build/include -isystem /usr/include/eigen3 C08-replay-restore-drift.cpp && ./a.out
#include <cstdio>
#include "smooth/diff.hpp"
#include "smooth/so3.hpp"
int main()
{
  int bad = 0;
  {  // K = 1: within the clause (shown for contrast)
    smooth::SO3d g1, g2;
    g1.coeffs() << 0.4166077587257582, -0.4937243401673116, 0.33528668277324297, 0.6857529377631335;
    g2.coeffs() << 0.17757020932898693, 0.48650129930468855, 0.8029185604942228, 0.29513910575793684;
    const Eigen::Vector4d before = g1.coeffs();
    auto [v, J] = smooth::diff::dr<1, smooth::diff::Type::Numerical>([](const auto & a, const auto & b) { return a - b; }, smooth::wrt(g1, g2));
    const double ch = (g1.coeffs() - before).cwiseAbs().maxCoeff(), lim = 1e-15 * before.cwiseAbs().maxCoeff();
    std::printf("K=1: change %.3e  limit %.3e  ratio %.2f\n", ch, lim, ch / lim);
  }
  {  // K = 2 (seed 1, probe shape 5)
    smooth::SO3d g;
    g.coeffs() << 0, 0.6268557154032188, 0, 0.7791353618379279;
    const Eigen::Vector4d before = g.coeffs();
    const Eigen::Vector3d p(0.7, -0.4, 0.5);
    auto [v, J, H] = smooth::diff::dr<2, smooth::diff::Type::Numerical>([&p](const auto & a) -> double { return (a * p)(0); }, smooth::wrt(g));
    const double ch = (g.coeffs() - before).cwiseAbs().maxCoeff(), lim = 1e-15 * before.cwiseAbs().maxCoeff();
    std::printf("K=2: change %.3e  limit %.3e  ratio %.2f\n", ch, lim, ch / lim);
    bad += ch > lim;
  }
  return bad;
}
