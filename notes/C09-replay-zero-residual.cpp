// Replay of known finding C09-zero-residual-nan against the real library.
//   g++ -std=c++20 -I$VERIF_REPO/include -I$VERIF_REPO/_build/include -isystem /usr/include/eigen3 \
//       notes/C09-replay-zero-residual.cpp -o /tmp/c09replay && /tmp/c09replay
// Linear residual f(x) = A (x - 1) (A with small integer entries, so the arithmetic is exact) started AT its zero, step-size test disabled (ptol = 0): the residual is exactly 0, so
// actu_red = pred_red = rho = NaN, neither convergence test can fire, every iteration goes through the
// `r_n == 0` branch of optim.hpp:139 while CeresStrategy halves, quarters, ... Delta.  After 46 iterations
// Delta < 2^-1024, lambda = 1/Delta = inf, LDLT of a matrix with an infinite diagonal returns NaN, and the r_n == 0
// branch stores NaN into x.  Expected output on the unpatched tree: "x = nan ... WORSE THAN START".
#include <cmath>
#include <cstdio>

#include "smooth/optim.hpp"

int main()
{
  Eigen::Vector3d x(1, 1, 1);
  Eigen::Matrix3d A;
  A << 2, 1, 0, 1, 3, 1, 0, 1, 4;
  auto f = [&A](const Eigen::Vector3d & v) -> Eigen::Vector3d { return A * (v - Eigen::Vector3d::Ones()); };
  smooth::MinimizeOptions opts;
  opts.ptol     = 0;  // "only stop on the function tolerance"
  opts.max_iter = 100;
  int ncb = 0, first_nan = -1;
  auto cb = [&](const Eigen::Vector3d & v) {
    if (first_nan < 0 && !v.allFinite()) first_nan = ncb;
    ++ncb;
  };
  const auto res = smooth::minimize<smooth::diff::Type::Default>(f, smooth::wrt(x), cb, opts);
  const double cost = f(x).squaredNorm();
  std::printf("status=%d iter=%u callbacks=%d first NaN callback=%d  x = %g %g %g  cost = %g (start cost 0)  %s\n",
              static_cast<int>(res.status), res.iter, ncb, first_nan, x(0), x(1), x(2), cost,
              cost <= 0 ? "ok" : "WORSE THAN START");
  return cost <= 0 ? 0 : 1;
}
