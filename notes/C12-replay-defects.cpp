// C12 replay of the defects found (crop index / knot NaN / crop frame, ConstantVelocity K != 3, make_local) and of the
// aliasing observation (x += x), on the real library:
//   g++ -std=c++20 -O1 -I/repo/include -I/repo/_build/include -isystem /usr/include/eigen3 notes/C12-replay-defects.cpp -o /tmp/c12replay && /tmp/c12replay
// Every line prints the library's value next to the value demanded by the documentation; the numbers of the first block
// are those of the Coq witnesses (Proofs/C12_InstProofs.v: crop_spec_refuted_later_segment etc.).
#include <iostream>
#include <smooth/so3.hpp>
#include <smooth/spline/spline.hpp>
using namespace smooth;
int main(){
  using G = Eigen::Vector2d;
  std::cout.precision(17);
  {
    Spline<3,G> x;
    Eigen::Matrix<double,2,3> V; V << 1,2,-1, 0.5,-1,2;
    x += Spline<3,G>(1.0, V); x += Spline<3,G>(1.0, 2*V); x += Spline<3,G>(1.0, -V);
    auto y = x.crop(1.5,3);
    for(double t: {0.,0.25,0.75,1.5}) std::cout<<"crop(1.5,3) t="<<t<<" y="<<y(t).transpose()<<"  expect "<<(x(1.5+t)-x(1.5)).transpose()<<"\n";
    auto y2 = x.crop(1.0,1.5);
    std::cout<<"crop(1,1.5) y(0.25)="<<y2(0.25).transpose()<<" expect "<<(x(1.25)-x(1.0)).transpose()<<"\n";
    auto y2b = x.crop(1.0,3);
    std::cout<<"crop(1,3) y(0.25)="<<y2b(0.25).transpose()<<" expect "<<(x(1.25)-x(1.0)).transpose()<<"\n";
    auto y3 = x.crop(0.5,3,false);
    for(double t: {0.25,0.75,1.5,2.5, 3.0}) std::cout<<"crop(0.5,3,false) t="<<t<<" y="<<y3(t).transpose()<<"  expect "<<(x(0.5+t)).transpose()<<"\n";
    auto y4 = x.crop(0.5,0.75,false);
    std::cout<<"crop(0.5,.75,false) end="<<y4.end().transpose()<<" expect "<<x(0.75).transpose()<<"\n";
  }
  {
    Eigen::Vector2d v(1,2);
    auto c2 = Spline<2,G>::ConstantVelocity(v, 2.0);
    auto c3 = Spline<3,G>::ConstantVelocity(v, 2.0);
    auto c5 = Spline<5,G>::ConstantVelocity(v, 2.0);
    std::cout<<"CV K=2 end "<<c2(2.0).transpose()<<" K=3 "<<c3(2.0).transpose()<<" K=5 "<<c5(2.0).transpose()<<" expect 2 4\n";
  }
  {
    Eigen::Matrix<double,2,3> V; V << 1,2,-1, 0.5,-1,2;
    Spline<3,G> x(1.0, V, G(5,5));
    x += Spline<3,G>(1.0, V);
    std::cout<<"before make_local x(1.5)-x(0.5)="<<(x(1.5)-x(0.5)).transpose()<<" end "<<x.end().transpose()<<"\n";
    x.make_local();
    std::cout<<"after  make_local x(1.5)-x(0.5)="<<(x(1.5)-x(0.5)).transpose()<<" x(0.999)="<<x(0.999).transpose()<<" x(1.0)="<<x(1.0).transpose()<<" end "<<x.end().transpose()<<"\n";
  }
  {
    Eigen::Matrix<double,2,3> V; V << 1,2,-1, 0.5,-1,2;
    Spline<3,G> x(1.0, V, G(5,5));
    Spline<3,G> x2 = x;
    x += x;  x2 += Spline<3,G>(x2);
    std::cout<<"self += end "<<x.end().transpose()<<" copy += end "<<x2.end().transpose()<<"\n";
  }
}
