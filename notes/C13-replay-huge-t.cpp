// C13-huge-t replay: BSpline::operator() returns the START of the curve for evaluation times far beyond t_max
// ((t - t0)/dt >= 2^63, including t = +infinity), although the documentation says the input is clamped to the
// interval of definition (so the END value is expected).  Cause: spline/detail/bspline_impl.hpp:58 casts the
// quotient to int64_t before clamping; the out-of-range cast is undefined behaviour and yields INT64_MIN on x86-64.
//
//   g++ -std=c++20 -I/repo/include -I/repo/_build/include -isystem /usr/include/eigen3 C13-replay-huge-t.cpp && ./a.out
//   expected (unchanged tree):  "... t=inf -> 1 (end value is 6)  DEFECT REPRODUCED", exit status 1
#include <cstdio>
#include <limits>
#include <vector>

#include <smooth/spline/bspline.hpp>

int main()
{
  using V1 = Eigen::Matrix<double, 1, 1>;
  std::vector<V1> c;
  for (int i = 0; i < 8; ++i) c.push_back(V1(static_cast<double>(i)));
  smooth::BSpline<3, V1> s(0.0, 1.0, c);  // t_min = 0, t_max = 5, g(t_min) = 1, g(t_max) = 6
  volatile double ts[] = {5.0, 6.0, 1e18, 9.3e18, 1e30, std::numeric_limits<double>::infinity()};
  int bad = 0;
  const double end = s(s.t_max())(0);
  for (double t : ts) {
    const double g = s(t)(0);
    std::printf("t=%g -> %g (end value is %g)\n", t, g, end);
    if (g != end) ++bad;
  }
  std::printf(bad ? "DEFECT REPRODUCED (%d evaluation times return the start value)\n" : "ok (%d)\n", bad);
  return bad ? 1 : 0;
}
