// C14 replay: fit_bspline allocates one control point too few when the data span is a multiple of dt.
// g++ -std=c++20 -I/repo/include -I/repo/_build/include -isystem /usr/include/eigen3 C14-replay-bspline-numpts.cpp && ./a.out
// (with assertions enabled the library aborts in cspline_eval_gs; with -DNDEBUG it reads past the control-point vector)
#include <cstdio>
#include <vector>
#include <smooth/spline/fit.hpp>
int main()
{
  const double dt = 4.142125911090763;
  std::vector<double> ts{0.0}, gs{0.0};
  for (int i = 0; i < 20; ++i) {
    ts.push_back(ts.back() + dt);   // 20 steps of dt: t1 = 82.84251822181525
    gs.push_back(0.1 * i);
  }
  const double t0 = ts.front(), t1 = ts.back();
  const long numpts = 3 + static_cast<long>((t1 - t0 + dt) / dt);   // fit_impl.hpp:320 with K = 3
  const long istar  = static_cast<long>((t1 - t0) / dt);            // fit_impl.hpp:330 for the last data point
  std::printf("(t1-t0)/dt = %.17g  (t1-t0+dt)/dt = %.17g\nNumPts = %ld, last data point needs control points %ld..%ld -> %s\n", (t1 - t0) / dt,
              (t1 - t0 + dt) / dt, numpts, istar, istar + 3, istar + 4 > numpts ? "OUT OF RANGE" : "ok");
  if (istar + 4 > numpts) {
    std::printf("calling fit_bspline<3> now (expected: assertion failure `std::ranges::size(gs) == K + 1`)\n");
    std::fflush(stdout);
    auto bs = smooth::fit_bspline<3>(ts, gs, dt);
    std::printf("returned; ctrl pts = %zu, t_max = %.17g (t1 = %.17g)\n", bs.ctrl_pts().size(), bs.t_max(), t1);
  }
  return 0;
}
