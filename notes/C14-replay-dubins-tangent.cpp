// C14 replay: dubins_curve at exact circle tangency returns a word that is not the shortest.
// g++ -std=c++20 -I/repo/include -I/repo/_build/include -isystem /usr/include/eigen3 C14-replay-dubins-tangent.cpp && ./a.out
#include <cstdio>
#include <smooth/spline/dubins.hpp>
using namespace smooth;
int main()
{
  // theta = pi and |p| = 2R: the left start circle and the right end circle touch; RSL / LRL with a zero first arc
  // has length R*(4.059250 + 0.917657) = 4.976907
  const SE2d target(SO2d(M_PI), Eigen::Vector2d(-1.588360380818681, -1.215364678047513));
  const auto c    = dubins_curve<3>(target, 1.0);
  const auto lrl  = detail::dubins_ccc(target, 1.0, detail::DubinsSegment::Left, detail::DubinsSegment::Right);
  const auto rsl  = detail::dubins_csc(target, 1.0, detail::DubinsSegment::Right, detail::DubinsSegment::Left);
  std::printf("returned length %.9g   (minimum over the six words: 4.976907277)\n", c.t_max());
  std::printf("LRL candidate arcs: %.17g %.17g %.17g   <- first arc is 2*pi instead of 0\n", lrl[0], lrl[1], lrl[2]);
  std::printf("RSL candidate: %g %g %g                  <- rejected because d13 <= 2R\n", rsl[0], rsl[1], rsl[2]);
  return c.t_max() > 4.98 ? 1 : 0;
}
