// C14 replay: lp2d::solve returns Status::Optimal with points that violate the rows it was given.
// g++ -std=c++20 -I/repo/include -I/repo/_build/include -isystem /usr/include/eigen3 C14-replay-lp2d.cpp && ./a.out
// Instances recorded from the backward pass of reparameterize_spline (harness/h_c14_misc.cpp, seeds 1 and 2).
#include <array>
#include <cmath>
#include <cstdio>
#include <smooth/external/lp2d.hpp>
template<std::size_t n>
static int run(const char * name, const std::array<std::array<double, 3>, n> & rows)
{
  const auto [x, y, st] = lp2d::solve(-1, 0, rows);   // maximise x subject to a x + b y <= c
  double worst = 0;
  for (auto & r : rows) worst = std::max(worst, r[0] * x + r[1] * y - r[2]);
  // brute force: best feasible vertex
  double best = -INFINITY;
  for (std::size_t i = 0; i < n; ++i)
    for (std::size_t j = i + 1; j < n; ++j) {
      const double det = rows[i][0] * rows[j][1] - rows[i][1] * rows[j][0];
      if (std::abs(det) < 1e-14) continue;
      const double vx = (rows[i][2] * rows[j][1] - rows[i][1] * rows[j][2]) / det, vy = (rows[i][0] * rows[j][2] - rows[i][2] * rows[j][0]) / det;
      bool ok = true;
      for (auto & r : rows) ok = ok && r[0] * vx + r[1] * vy <= r[2] + 1e-9 * (1 + std::abs(r[2]));
      if (ok) best = std::max(best, vx);
    }
  std::printf("%s: status=%d x=%.9g y=%.9g  largest row violation %.3e   (brute-force optimum x = %.9g)\n", name, (int)st, x, y, worst, best);
  return worst > 1e-6;
}
int main()
{
  int bad = 0;
  bad += run<10>("rows with 1e-17 coefficients", {{{1, 0.64058181198583464, 0.026025588871034122}, {1, 0, 0.026025588871034136}, {0, 0, 0},
    {1, 0, 0.0011725880907203787}, {9.5302877826954745e-17, 1, 0.041593735520891996}, {9.5302877826954745e-17, -1.2857843500936226e-17, 0.16132448317299558},
    {-9.5302877826954745e-17, -1, 0.14702903847569812}, {-9.5302877826954745e-17, -1, 0.02113909544202125},
    {-9.5302877826954745e-17, 1.2857843500936226e-17, 0.081989597813732759}, {9.5302877826954745e-17, 1, 0.074724254461955172}}});
  bad += run<10>("ordinary rows", {{{1, 0.20503005798757165, 0.78154627304946567}, {0.1106820237035458, 0, 1.2734340544043092},
    {2.9994744379746016e-07, 0, 2.2958505250898344}, {0.75027536679460705, 0, 2.4069713562312494},
    {-0.23728082166413544, 0.33268907962772959, 0.33221046032425483}, {-0.0003407364745554234, 0.0005476745783742935, 0.58773449302287084},
    {-0.88337264912089286, 0.866184372287221, 0.51121127302689606}, {0.23728082166413544, -0.33268907962772959, 0.33221046032425483},
    {0.0003407364745554234, -0.0005476745783742935, 0.58773449302287084}, {0.88337264912089286, -0.866184372287221, 0.51121127302689606}}});
  return bad ? 1 : 0;
}
