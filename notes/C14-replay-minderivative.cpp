// C14 replay: fit_spline_1d with a MinDerivative spec violates its own interpolation constraints for sub-second intervals.
// g++ -std=c++20 -I/repo/include -I/repo/_build/include -isystem /usr/include/eigen3 C14-replay-minderivative.cpp && ./a.out
#include <cstdio>
#include <vector>
#include <smooth/spline/fit.hpp>
using namespace smooth;
template<int K>
static double worst(const std::vector<double> & dt, const std::vector<double> & dx)
{
  const Eigen::VectorXd x = fit_spline_1d(dt, dx, spline_specs::MinDerivative<double, K, 3, 3>{});
  double w = 0;
  for (std::size_t i = 0; i < dt.size(); ++i) {   // Bernstein form: p_i(0) = x[i(K+1)], p_i(dt_i) = x[i(K+1)+K]
    const double r0 = std::abs(x(i * (K + 1))), r1 = std::abs(x(i * (K + 1) + K) - dx[i]);
    w = (r0 <= w && r1 <= w) ? w : std::max(r0, r1) == std::max(r0, r1) ? std::max({w, r0, r1}) : NAN;
  }
  return w;
}
int main()
{
  int bad = 0;
  for (double h : {2.0, 1.0, 0.5, 0.2, 0.1, 0.05, 0.02}) {
    std::vector<double> dt(5, h), dx{1.0, 1.3, 1.6, 1.9, 2.2};
    const double w6 = worst<6>(dt, dx), w5 = worst<5>(dt, dx);
    std::printf("dt = %-5g  max |p_i(0)|, |p_i(dt_i) - dx_i| :  MinDerivative<6> %.3e   MinDerivative<5> %.3e\n", h, w6, w5);
    if (!(w6 < 1e-6) || !(w5 < 1e-6)) ++bad;
  }
  // two intervals of 0.0236 s and 0.0744 s: non-finite coefficients
  const double w = worst<5>({0x1.83521caffb0d5p-6, 0x1.30d16ac3c9d44p-4}, {-0x1.549f0c8d80bfp-11, -0x1.009d77145b16p-10});
  std::printf("dt = {0.0236, 0.0744}: %g\n", w);
  return bad ? 1 : 0;
}
