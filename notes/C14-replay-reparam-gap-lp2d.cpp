// C14 replay (repaired tree, row [4] of 80e48c1 present): reparameterize_spline still leaves a gap in s when lp2d::solve
// returns Status::Optimal with a point that violates the rows it was given (known finding C14-lp2d-infeasible-optimum).
// The program observes the library's own lp2d calls, prints the offending call and the knot jump.
// g++ -std=c++20 -I/repo/include -I/repo/_build/include -isystem /usr/include/eigen3 C14-replay-reparam-gap-lp2d.cpp && ./a.out
#include <array>
#include <cstdio>
#include <vector>
#include <smooth/se2.hpp>
#include <smooth/spline/fit.hpp>
#include <smooth/external/lp2d.hpp>
namespace lp2d_spy {
using Status = ::lp2d::Status;
struct Call { std::vector<std::array<double, 3>> rows; double x, y; Status st; };
inline std::vector<Call> calls;
template<std::ranges::range R>
inline std::tuple<double, double, Status> solve(double cx, double cy, const R & rows)
{
  const auto r = ::lp2d::solve(cx, cy, rows);
  Call c;
  for (const auto & row : rows) c.rows.push_back({row[0], row[1], row[2]});
  c.x = std::get<0>(r), c.y = std::get<1>(r), c.st = std::get<2>(r);
  calls.push_back(c);
  return r;
}
}  // namespace lp2d_spy
#define lp2d lp2d_spy
#include <smooth/spline/reparameterize.hpp>
#undef lp2d
using namespace smooth;
int main()
{
  // input found by harness/h_c14_misc.cpp (seed 1 quick, case 7139): SE2 cubic through 6 poses, N = 20 grid points
  const double d[6][4] = {{0, 0, 0, 0}, {2.0184768206543677, 0.34133943458553007, -0.15206694534383794, 0.77738244212563556},
    {2.8691145831005924, 0.65845097048113521, 0.71348159590264948, 1.4943882674229125},
    {3.7433121278066688, 0.94616631148371266, 1.6938783807101754, 0.75728144939806818},
    {5.4439174370567294, 1.5301480938314218, 2.9811373244073827, 1.9197453035672938},
    {6.9127717821320838, 0.91032658048152271, 3.9998773697110881, 1.80877297847108}};
  std::vector<double> ts;
  std::vector<SE2d> gs;
  for (auto & r : d) {
    ts.push_back(r[0]);
    gs.emplace_back(SO2d(r[3]), Eigen::Vector2d(r[1], r[2]));
  }
  const auto c = fit_spline(ts, gs, spline_specs::FixedDerCubic<SE2d, 2, 2>{});
  Eigen::Vector3d vmax(20.056092388085609, 38.844344638614196, 27.343968537263692), amax(40.010043489872082, 44.292161026427465, 23.313620559295433);
  const std::size_t N = 20;
  const auto s = reparameterize_spline(c, -vmax, vmax, -amax, amax, 2.5, 0.5, N);
  int bad_calls = 0;
  for (std::size_t k = 0; k < lp2d_spy::calls.size(); ++k) {
    const auto & call = lp2d_spy::calls[k];
    if (call.st != ::lp2d::Status::Optimal) continue;
    for (const auto & r : call.rows) {
      const double lhs = r[0] * call.x + r[1] * call.y;
      if (lhs > r[2] + 1e-7 * (std::abs(r[0] * call.x) + std::abs(r[1] * call.y) + std::abs(r[2]))) {
        std::printf("grid point %zu: lp2d returned Optimal (y, a) = (%.6g, %.6g) but row {%.6g, %.6g, %.6g} gives %.6g > %.6g\n", N - 1 - k, call.x, call.y, r[0],
                    r[1], r[2], lhs, r[2]);
        ++bad_calls;
      }
    }
  }
  const double T = s.t_max();
  double worst = 0, at = 0;
  const int M = 2000000;
  double prev = s(0.);
  for (int k = 1; k <= M; ++k) {
    const double t = T * k / M, v = s(t);
    if (v - prev > worst) worst = v - prev, at = t;
    prev = v;
  }
  std::printf("T=%.6g  s range [%g, %g]; largest increase of s over one time step of %.3g: %.6g at t=%.9g (continuous s gives <= %.3g)\n", T, c.t_min(),
              c.t_max(), T / M, worst, at, 20 * T / M);
  return (worst > 1e-2 && bad_calls > 0) ? 1 : 0;  // exit 1 = gap reproduced together with the solver's contract violation
}
