// C14 replay: reparameterize_spline leaves a gap in s (jump at a knot) after an eps-clamped deceleration.
// g++ -std=c++20 -I/repo/include -I/repo/_build/include -isystem /usr/include/eigen3 C14-replay-reparam-gap.cpp && ./a.out
#include <cstdio>
#include <vector>
#include <smooth/se2.hpp>
#include <smooth/spline/fit.hpp>
#include <smooth/spline/reparameterize.hpp>
using namespace smooth;
int main()
{
  // input found by harness/h_c14_misc.cpp (seed 1, case 1143): SE2 cubic through 8 poses, N = 57 grid points
  const double d[8][4] = {{0, 0, 0, 0}, {3.0953622357820305, 0.85779375578046801, -0.29980882780742818, -0.46214781884902911},
    {4.2258720603627253, 1.153952870304785, -0.42499496834029249, -1.2537569725035871},
    {4.5317339883531158, 0.88902747999958032, -1.9562181590668104, -2.430542254695681},
    {8.0857804939634654, -0.20529018177109304, -2.6823298171520333, -2.8894034139758218},
    {10.452977233026871, -1.0934412598643248, -2.8153676170047706, -2.5739928052652332},
    {11.445557935176137, -1.6571565984465262, -3.0846090767307888, -1.9316142442197979},
    {16.344466780484353, -1.985119532227694, -4.2523419140233631, -1.7932052816442494}};
  std::vector<double> ts;
  std::vector<SE2d> gs;
  for (auto & r : d) {
    ts.push_back(r[0]);
    gs.emplace_back(SO2d(r[3]), Eigen::Vector2d(r[1], r[2]));
  }
  const auto c = fit_spline(ts, gs, spline_specs::FixedDerCubic<SE2d, 2, 2>{});
  Eigen::Vector3d vmax(5.2408956566181075, 2.9870312303253086, 8.1753763677503759), amax(4.2409872940660485, 1.6387468061599204, 2.1446936886895167);
  const auto s = reparameterize_spline(c, -vmax, vmax, -amax, amax, 2.5, std::numeric_limits<double>::infinity(), 57);
  // sample s densely and report the largest upward jump between consecutive samples relative to the local slope
  const double T = s.t_max();
  double worst = 0, at = 0;
  const int M = 2000000;
  double prev = s(0.);
  for (int k = 1; k <= M; ++k) {
    const double t = T * k / M, v = s(t);
    if (v - prev > worst) worst = v - prev, at = t;
    if (prev - v > 1e-12) std::printf("DECREASE at t=%.9g by %.3e\n", t, prev - v);
    prev = v;
  }
  std::printf("T=%.6g  s range [%g, %g]\n", T, c.t_min(), c.t_max());
  std::printf("largest increase of s over one time step of %.3g: %.6g at t=%.9g (s' is bounded by ~vmax, so a continuous s gives <= %.3g)\n", T / M, worst,
              at, 20 * T / M);
  return worst > 1e-2 ? 1 : 0;  // exit 1 = gap reproduced
}
