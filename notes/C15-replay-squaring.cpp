// Replay of the C15 findings on the real library (unchanged tree).
//   g++ -std=c++20 -O1 -I/repo/include -I/repo/_build/include -isystem /usr/include/eigen3 notes/C15-replay-squaring.cpp -o /tmp/c15replay && /tmp/c15replay
// 1. x := x*x on SO3 (and SO2): ||q||^2 - 1 doubles with every step and passes (n+1)*1e-14 at n = 11..14.
//    (Coq: C15_norm_dev_squaring_refuted / C15_norm_dev_squaring_growth; the bound C15_norm_dev_tree is in the size
//     of the unfolded expression tree, 2^(n+1)-1 here.)
// 2. one SE3/Galilei exp just above the small-angle switch is less accurate than 1e-13 (compared with a long-double
//    evaluation of the same closed form, which has no cancellation problem at 64 bits of mantissa).
#include <cstdio>
#include <smooth/galilei.hpp>
#include <smooth/se3.hpp>
#include <smooth/so2.hpp>
#include <smooth/so3.hpp>

int main()
{
  int bad = 0;
  {
    smooth::SO3d x = smooth::SO3d::exp(Eigen::Vector3d(0.3, -0.2, 0.5));
    std::printf("SO3 x := x*x, x0 = exp(0.3,-0.2,0.5)\n");
    for (int n = 1; n <= 40; ++n) {
      x                = x * x;
      const double dev = std::abs(static_cast<double>(x.coeffs().cast<long double>().squaredNorm() - 1.0L));
      const double b   = (n + 1) * 1e-14;
      if (n == 11 || n == 15 || n == 20 || n == 40 || (dev > b && bad == 0)) std::printf("  n=%2d  | ||q||^2-1 | = %.3e   (n+1)*1e-14 = %.1e %s\n", n, dev, b, dev > b ? "VIOLATED" : "");
      if (dev > b) ++bad;
    }
  }
  {
    smooth::SO2d x(0.7);
    int first = -1;
    for (int n = 1; n <= 40; ++n) {
      x                = x * x;
      const double dev = std::abs(static_cast<double>(x.coeffs().cast<long double>().squaredNorm() - 1.0L));
      if (dev > (n + 1) * 1e-14 && first < 0) first = n;
    }
    std::printf("SO2 x := x*x, x0 = SO2(0.7): bound first violated at n = %d\n", first);
  }
  {
    // SE3 exp at |omega| = 1.0001e-4: translation = V(omega) v with V = I + (1-cos t)/t^2 W + (t - sin t)/t^3 W^2
    Eigen::Matrix<double, 6, 1> a;
    a << 1, 2, 3, 1.0001e-4, 0, 0;
    const auto g = smooth::SE3d::exp(a);
    const long double t = 1.0001e-4L, A = (1 - std::cos(t)) / (t * t), B = (t - std::sin(t)) / (t * t * t);
    // W = skew(t,0,0)/... with omega = (t,0,0): W v = omega x v = (0, -t*3, t*2); W^2 v = omega x (omega x v) = (0, -t*t*2, -t*t*3)
    const long double ex[3] = {1.0L, 2.0L + A * (-t * 3) + B * (-t * t * 2), 3.0L + A * (t * 2) + B * (-t * t * 3)};
    long double e = 0;
    for (int i = 0; i < 3; ++i) e = std::max(e, std::fabs(static_cast<long double>(g.coeffs()(i)) - ex[i]));
    std::printf("SE3 exp(1,2,3,1.0001e-4,0,0): translation error = %.3e relative to |t| = 3  -> %.3e  (budget of one operation 1e-13) %s\n",
                static_cast<double>(e), static_cast<double>(e / 3), e / 3 > 1e-13 ? "VIOLATED" : "");
  }
  return bad ? 1 : 0;
}
