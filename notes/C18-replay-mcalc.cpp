// C18 finding C18-mcalc - replay against the real library.
//   g++ -std=c++20 -O1 -I/repo/include -I/repo/_build/include -isystem /usr/include/eigen3 \
//       notes/C18-replay-mcalc.cpp -o /tmp/replay -lpthread && /tmp/replay
//   (add -fsanitize=thread -g to get ThreadSanitizer's report: race on SubManifold::m_calc, submanifold.hpp:68/74/79/88/97)
// Two threads call the const operation smooth::rplus on ONE shared `const SubManifold<SO3d>` with different
// tangent arguments.  SubManifold::rplus (include/smooth/manifolds/submanifold.hpp:65-80) scatters its argument
// into the object's `mutable Tangent<M> m_calc` (line 111) before reading it back at line 79, so a thread can pick
// up the other thread's argument: the schedule of Proofs/C18_ConstOps.v submanifold_ops_race_refuted.
#include <atomic>
#include <cstdio>
#include <thread>

#include "smooth/manifolds.hpp"
#include "smooth/manifolds/submanifold.hpp"
#include "smooth/so3.hpp"

int main()
{
  using namespace smooth;
  const SO3d x = SO3d::exp(Eigen::Vector3d(0.1, -0.2, 0.3));
  const SubManifold<SO3d> sm(x, Eigen::VectorXi{{1}});  // shared, const
  const Eigen::Vector2d a[2] = {Eigen::Vector2d(0.5, 0.25), Eigen::Vector2d(-0.75, 1.0)};
  // sequential reference
  const SO3d ref[2] = {rplus(sm, a[0]).m(), rplus(sm, a[1]).m()};

  std::atomic<int> go{0};
  long wrong[2] = {0, 0};
  const long N  = 2000000;
  auto body     = [&](int t) {
    go.fetch_add(1);
    while (go.load() < 2) {}
    for (long i = 0; i < N; ++i) {
      const SO3d r = rplus(sm, a[t]).m();
      if (!(r.coeffs() == ref[t].coeffs())) ++wrong[t];
    }
  };
  std::thread t0(body, 0), t1(body, 1);
  t0.join();
  t1.join();
  std::printf("calls per thread: %ld   results different from the sequential run: thread0=%ld thread1=%ld\n", N, wrong[0], wrong[1]);
  return (wrong[0] + wrong[1]) ? 1 : 0;
}
