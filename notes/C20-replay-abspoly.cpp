// Replay of the C20 findings on integrate_absolute_polynomial (polynomial/basis.hpp:418-452).
//   g++ -std=c++20 -I/repo/include -I/repo/_build/include notes/C20-replay-abspoly.cpp -o /tmp/replay && /tmp/replay
#include <cmath>
#include <cstdio>
#include "smooth/polynomial/basis.hpp"

int main()
{
  // (1) FIXED by /repo b9fcddd (`abs(A) >= 1e-9`); before it: |A| == 1e-9 exactly satisfied neither `|A| < 1e-9` nor
  //     `|A| > 1e-9`, the polynomial was treated as sign-constant.  int_{-1}^{1} |1e-9 t^2 + t| dt = 1 (to 1e-9); the old
  //     code returned |int (..)| = 2e-9/3.  Exit code: 6 on the repaired tree (bits 2 and 4 = the two open findings), 7 before.
  const double r1 = smooth::integrate_absolute_polynomial(-1, 1, 1e-9, 1, 0);
  std::printf("gap      |A|=1e-9, B=1, C=0 on [-1,1]      : code %.12g   definition 1.000000000\n", r1);
  // (2) 0 < |A| < 1e-9 < |B|: root placed at -C/B although 9e-10 t^2 + 2e-9 t + 1e-8 has no real root.
  const double r2 = smooth::integrate_absolute_polynomial(-10, 10, 9e-10, 2e-9, 1e-8);
  std::printf("smallA   A=9e-10,B=2e-9,C=1e-8 on [-10,10] : code %.12g   definition 8e-07\n", r2);
  // (3) |A| < 1e-9 and 0 < |B| <= 1e-9: treated as sign-constant.  int_{-10}^{10} |5e-10 t| dt = 5e-8; code 0.
  const double r3 = smooth::integrate_absolute_polynomial(-10, 10, 0, 5e-10, 0);
  std::printf("smallAB  A=0,B=5e-10,C=0 on [-10,10]       : code %.12g   definition 5e-08\n", r3);
  return (std::abs(r1 - 1) > 1e-9) + 2 * (std::abs(r2 - 8e-7) > 1e-9) + 4 * (std::abs(r3 - 5e-8) > 1e-9);
}
