import os, sys
sys.path.insert(0, os.path.dirname(__file__))
from groups import *

B = Book("C01", "c01.py")

def gen(G):
    p, u = G.pre, G.name
    gv, hv = vars_("g", G.rep), vars_("h", G.rep)
    gl, hl = lst(gv), lst(hv)
    Q = f"Gen.{G.unit}."   # statements in Props refer to generated definitions by qualified name
    B.start(u, [G.unit])
    B.lemma(u, f"{p}_matrix_doc",
        f"forall {' '.join(gv)} out,\n  {Q}{p}_matrix_rel {gl} out -> out = {G.mat} {gl}",
        f"  intros {' '.join(gv)} out Hrel. rel_cases Hrel. autounfold with {p}_matrix_db. sv_unfold. list_eq; ring.")
    B.lemma(u, f"{p}_identity_doc",
        f"forall out, {Q}{p}_identity_rel out -> {G.mat} out = mI {G.dim} /\\ {G.valid} out",
        f"  intros out Hrel. rel_cases Hrel. autounfold with {p}_identity_db. sv_unfold. split; [list_eq; ring | try lra; ring].")
    stmt = (f"forall {' '.join(gv)} {' '.join(hv)} out,\n  {G.valid} {gl} -> {G.valid} {hl} -> {Q}{p}_comp_rel {gl} {hl} out ->\n"
            f"  {G.mat} out = mmul ({G.mat} {gl}) ({G.mat} {hl}) /\\ {G.valid} out")
    prf = (f"  intros {' '.join(gv)} {' '.join(hv)} out Hg Hh Hrel. rel_cases Hrel;\n"
           f"  autounfold with {p}_comp_db; revert Hg Hh; sv_unfold; intros Hg Hh; norm_rules;\n")
    if G.name == "C1":
        prf += ("  (split; [list_eq; ring | ]);\n  match goal with |- ?e <> 0 => replace e with ((g0*g0+g1*g1)*(h0*h0+h1*h1)) by ring end;"
                " apply Rmult_integral_contrapositive_currified; assumption.")
    else:
        prf += "  (split; [list_eq; ring [Hg Hh] | ring [Hg Hh]])."
    B.lemma(u, f"{p}_comp_hom", stmt, prf)
    stmt = (f"forall {' '.join(gv)} out,\n  {G.valid} {gl} -> {Q}{p}_inv_rel {gl} out ->\n"
            f"  mmul ({G.mat} out) ({G.mat} {gl}) = mI {G.dim} /\\ mmul ({G.mat} {gl}) ({G.mat} out) = mI {G.dim} /\\ {G.valid} out")
    prf = (f"  intros {' '.join(gv)} out Hg Hrel. rel_cases Hrel;\n"
           f"  autounfold with {p}_inv_db in *; revert Hg; sv_unfold; intros Hg.\n")
    if G.name == "C1":
        prf += ("  assert (Hd : g0*g0+g1*g1 <> 0) by exact Hg.\n  repeat split; [list_eq; field; exact Hd | list_eq; field; exact Hd | ].\n"
                "  match goal with |- ?e <> 0 => replace e with (/ (g0*g0+g1*g1)) by (field; exact Hd) end. apply Rinv_neq_0_compat; exact Hd.")
    elif G.unit_idx and len(G.unit_idx) == 4:
        prf += ("  all: try (exfalso; revert Hpath; sv_unfold; lra).\n"
                "  all: norm_rules; unit_denoms Hg; (repeat split; [list_eq; field [Hg]; lra | list_eq; field [Hg]; lra | field [Hg]; lra]).")
    else:
        prf += "  all: norm_rules; (repeat split; [list_eq; ring [Hg] | list_eq; ring [Hg] | ring [Hg]])."
    B.lemma(u, f"{p}_inv_doc", stmt, prf)
    if G.act:
        vv = vars_("v", G.act)
        vl = lst(vv)
        emb = (lambda x: f"homog {x}") if G.homog else (lambda x: x)
        B.lemma(u, f"{p}_act_doc",
            f"forall {' '.join(gv)} {' '.join(vv)} out,\n  {Q}{p}_act_rel {gl} {vl} out ->\n  {emb('out')} = mvec ({G.mat} {gl}) ({emb(vl)})",
            f"  intros {' '.join(gv)} {' '.join(vv)} out Hrel. rel_cases Hrel. autounfold with {p}_act_db. sv_unfold. list_eq; ring.")

for G_ in GROUPS:
    gen(G_)
B.write("".join(f"From SV Require Gen.{G_.unit}.\n" for G_ in GROUPS))
