import os, sys
sys.path.insert(0, os.path.dirname(__file__))
from groups import *

B = Book("C02", "c02.py")
IMPORTS = "From Coquelicot Require Import Coquelicot.\nFrom SV Require Import Base.Trig Doc.Exp.\n"

ROT3 = {  # group -> (flow, flow0, index of first rotation coordinate)
    "SO3": ("so3_flow", "so3_flow0", 0), "SE3": ("se3_flow", "se3_flow0", 3), "Galilei": ("gal_flow", "gal_flow0", 7),
    "SEK3_1": ("se3_flow", "se3_flow0", 3), "SEK3_2": ("sek2_flow", "sek2_flow0", 6), "SEK3_3": ("sek3_flow", "sek3_flow0", 9),
}
MEXP0 = {"SO3": "so3_flow0_mexp", "SE3": "se3_flow0_mexp", "Galilei": "gal_flow0_mexp", "SEK3_1": "se3_flow0_mexp",
         "SEK3_2": "sek2_flow0_mexp", "SEK3_3": "sek3_flow0_mexp"}
MEXP = {"SO3": "so3_flow_mexp", "SE3": "se3_flow_mexp", "Galilei": "gal_flow_mexp", "SEK3_1": "se3_flow_mexp",
        "SEK3_2": "sek2_flow_mexp", "SEK3_3": "sek3_flow_mexp"}

def gen(G):
    p, u = G.pre, G.name
    av = vars_("a", G.dof)
    al = lst(av)
    Q = f"Gen.{G.unit}."
    B.start(u, [G.unit], IMPORTS)
    if u == "SO2":
        B.lemma(u, "so2_exp_flow",
            f"forall a0 out, {Q}so2_exp_rel [a0] out -> so2_mat out = so2_flow [a0] 1 /\\ so2_valid out",
            "  intros a0 out Hrel. rel_cases Hrel. autounfold with so2_exp_db. flow_unfold. sv_unfold. rewrite Rmult_1_l.\n"
            "  split; [list_eq; ring | pose proof (sin2_cos2 a0) as H; unfold Rsqr in H; lra].")
        B.lemma(u, "so2_exp_is_mexp",
            f"forall a0 out, {Q}so2_exp_rel [a0] out -> is_mexp 2 (so2_hat [a0]) (so2_mat out)",
            "  intros a0 out Hrel. destruct (so2_exp_flow _ _ Hrel) as [-> _]. apply so2_flow_mexp.")
        return
    if u == "C1":
        B.lemma(u, "c1_exp_flow",
            f"forall a0 a1 out, {Q}c1_exp_rel [a0; a1] out -> c1_mat out = c1_flow [a0; a1] 1 /\\ c1_valid out",
            "  intros a0 a1 out Hrel. rel_cases Hrel. autounfold with c1_exp_db. flow_unfold. sv_unfold. rewrite !Rmult_1_l.\n"
            "  split; [list_eq; ring | ].\n"
            "  pose proof (sin2_cos2 a1) as H; unfold Rsqr in H. pose proof (exp_pos a0) as He.\n"
            "  replace (exp a0 * sin a1 * (exp a0 * sin a1) + exp a0 * cos a1 * (exp a0 * cos a1)) with (exp a0 * exp a0 * (sin a1 * sin a1 + cos a1 * cos a1)) by ring.\n"
            "  rewrite H. apply Rgt_not_eq. nra.")
        B.lemma(u, "c1_exp_is_mexp",
            f"forall a0 a1 out, {Q}c1_exp_rel [a0; a1] out -> is_mexp 2 (c1_hat [a0; a1]) (c1_mat out)",
            "  intros a0 a1 out Hrel. destruct (c1_exp_flow _ _ _ Hrel) as [-> _]. apply c1_flow_mexp.")
        return
    if u == "SE2":
        B.lemma(u, "se2_exp_flow",
            f"forall a0 a1 a2 out, {Q}se2_exp_rel [a0; a1; a2] out -> eps2 < a2*a2 ->\n  se2_mat out = se2_flow [a0; a1; a2] 1 /\\ se2_valid out",
            "  intros a0 a1 a2 out Hrel Hbig. unfold eps2 in Hbig.\n"
            "  assert (Hw : a2 <> 0) by (intros ->; lra).\n"
            "  rel_cases Hrel; autounfold with se2_exp_db in *;\n"
            "  try (exfalso; revert Hpath; sv_unfold; lra); clear Hpath;\n"
            "  flow_unfold; sv_unfold; rewrite ?Rmult_1_l;\n"
            "  pose proof (sin2_cos2 a2) as Hsc; unfold Rsqr in Hsc;\n"
            "  (split; [list_eq; field; assumption | lra]).")
        B.lemma(u, "se2_exp_is_mexp",
            f"forall a0 a1 a2 out, {Q}se2_exp_rel [a0; a1; a2] out -> eps2 < a2*a2 ->\n  is_mexp 3 (se2_hat [a0; a1; a2]) (se2_mat out)",
            "  intros a0 a1 a2 out Hrel Hbig. destruct (se2_exp_flow _ _ _ _ Hrel Hbig) as [-> _].\n"
            "  apply se2_flow_mexp. unfold eps2 in Hbig. intros ->; lra.")
        B.lemma(u, "se2_exp_zero_rot",
            f"forall a0 a1 out, {Q}se2_exp_rel [a0; a1; 0] out ->\n  se2_mat out = se2_flow0 [a0; a1; 0] 1 /\\ is_mexp 3 (se2_hat [a0; a1; 0]) (se2_mat out)",
            "  intros a0 a1 out Hrel.\n"
            "  assert (E : se2_mat out = se2_flow0 [a0; a1; 0] 1).\n"
            "  { rel_cases Hrel; autounfold with se2_exp_db in *;\n"
            "    try (exfalso; revert Hpath; sv_unfold; lra); clear Hpath;\n"
            "    flow_unfold; sv_unfold; rewrite ?sin_0, ?cos_0; list_eq; field. }\n"
            "  split; [exact E | rewrite E; apply se2_flow0_mexp].")
        return
    flow, flow0, r0 = ROT3[u]
    x, y, z = av[r0], av[r0+1], av[r0+2]
    th2 = f"{x}*{x} + {y}*{y} + {z}*{z}"
    prf = (f"  intros {' '.join(av)} out Hrel Hbig. unfold eps2 in Hbig.\n"
           f"  rel_cases Hrel; autounfold with {p}_exp_db in *;\n"
           f"  try (exfalso; revert Hpath; sv_unfold; lra); clear Hpath;\n"
           f"  flow_unfold; sv_unfold; rewrite ?Rmult_1_l; unify_sqrts;\n"
           f"  match goal with |- context [sqrt ?e] => set (th2 := e) in * end;\n"
           f"  assert (Hpos : 0 < th2) by (first [lra | unfold th2 in *; lra]);\n"
           f"  name_sqrt th2 t; rewrite <- ?Htsq;\n"
           f"  rewrite ?(sin_half_angle t), ?(cos_half_angle t);\n"
           f"  trig_atom (t/2) s c;\n"
           f"  assert (Hz : {z}*{z} = t*t - {x}*{x} - {y}*{y}) by (unfold th2 in Htsq; lra);\n"
           f"  (split; [list_eq; field [H Hz]; assumption | field [H Hz]; assumption]).")
    B.lemma(u, f"{p}_exp_flow",
        f"forall {' '.join(av)} out, {Q}{p}_exp_rel {al} out -> eps2 < {th2} ->\n  {G.mat} out = {flow} {al} 1 /\\ {G.valid} out", prf)
    B.lemma(u, f"{p}_exp_is_mexp",
        f"forall {' '.join(av)} out, {Q}{p}_exp_rel {al} out -> eps2 < {th2} ->\n  is_mexp {G.dim} ({G.hat} {al}) ({G.mat} out)",
        f"  intros {' '.join(av)} out Hrel Hbig. destruct ({p}_exp_flow {' '.join('_' for _ in av)} _ Hrel Hbig) as [-> _].\n"
        f"  apply {MEXP[u]}. unfold eps2 in Hbig. lra.")
    # rotation-free tangent vectors: the series branch is exact
    zv = av[:r0] + ["0", "0", "0"] + av[r0+3:]
    fv = [v for v in zv if v != "0"]
    zl = lst(zv)
    B.lemma(u, f"{p}_exp_zero_rot",
        f"forall {' '.join(fv)} out, {Q}{p}_exp_rel {zl} out ->\n  {G.mat} out = {flow0} {zl} 1 /\\ {G.valid} out /\\ is_mexp {G.dim} ({G.hat} {zl}) ({G.mat} out)",
        f"  intros {' '.join(fv)} out Hrel.\n"
        f"  assert (E : {G.mat} out = {flow0} {zl} 1 /\\ {G.valid} out).\n"
        f"  {{ rel_cases Hrel; autounfold with {p}_exp_db in *;\n"
        f"    try (exfalso; revert Hpath; sv_unfold; lra); clear Hpath;\n"
        f"    flow_unfold; sv_unfold; (split; [list_eq; field | field]). }}\n"
        f"  destruct E as [E V]. split; [exact E | split; [exact V | rewrite E; apply {MEXP0[u]}]].")

for G_ in GROUPS:
    gen(G_)
B.write("".join(f"From SV Require Gen.{G_.unit}.\n" for G_ in GROUPS) + "From Coquelicot Require Import Coquelicot.\nFrom SV Require Import Base.Trig Doc.Exp.\n", thorough_units=["SEK3_3"])
