import os, sys
sys.path.insert(0, os.path.dirname(__file__))
from groups import *

B = Book("C03", "c03.py")

def gen(G):
    p, u = G.pre, G.name
    gv, hv = vars_("g", G.rep), vars_("h", G.rep)
    av, bv, cv = vars_("a", G.dof), vars_("b", G.dof), vars_("c", G.dof)
    gl, hl, al, bl, cl = lst(gv), lst(hv), lst(av), lst(bv), lst(cv)
    Q = f"Gen.{G.unit}."
    B.start(u, [G.unit])
    rules = "[Hg]" if G.unit_idx else ""
    # hat is the documented algebra matrix
    B.lemma(u, f"{p}_hat_doc",
        f"forall {' '.join(av)} out,\n  {Q}{p}_hat_rel {al} out -> out = {G.hat} {al}",
        f"  intros {' '.join(av)} out Hrel. rel_cases Hrel. autounfold with {p}_hat_db. sv_unfold. list_eq; ring.")
    # vee (hat a) = a
    B.lemma(u, f"{p}_vee_hat",
        f"forall {' '.join(av)} out,\n  {Q}{p}_vee_rel (mflat ({G.hat} {al})) out -> out = {al}",
        f"  intros {' '.join(av)} out Hrel. rel_cases Hrel. autounfold with {p}_vee_db. sv_unfold. list_eq; field.")
    # hat (vee A) = A for A in the algebra
    B.lemma(u, f"{p}_hat_vee",
        f"forall {' '.join(av)} A v,\n  A = {G.hat} {al} -> {Q}{p}_vee_rel (mflat A) v -> {G.hat} v = A",
        f"  intros {' '.join(av)} A v HA Hrel. subst A. apply {p}_vee_hat in Hrel. subst v. reflexivity.")
    # linearity of hat (and hence of vee on the algebra)
    B.lemma(u, f"{p}_hat_linear",
        f"forall s t {' '.join(av)} {' '.join(bv)},\n  {G.hat} (vadd (vscale s {al}) (vscale t {bl})) = madd (mscale s ({G.hat} {al})) (mscale t ({G.hat} {bl}))",
        f"  intros. sv_unfold. list_eq; ring.")
    # Ad: hat (Ad g a) * mat g = mat g * hat a
    prf = (f"  intros {' '.join(gv)} {' '.join(av)} A Hg Hrel. rel_cases Hrel;\n"
           f"  autounfold with {p}_Ad_db; revert Hg; sv_unfold; intros Hg; norm_rules;\n"
           f"  list_eq; ring {rules}.")
    B.lemma(u, f"{p}_Ad_def",
        f"forall {' '.join(gv)} {' '.join(av)} A,\n  {G.valid} {gl} -> {Q}{p}_Ad_rel {gl} A ->\n"
        f"  mmul ({G.hat} (mvec A {al})) ({G.mat} {gl}) = mmul ({G.mat} {gl}) ({G.hat} {al})", prf)
    # ad: hat (ad a b) = [hat a, hat b]
    B.lemma(u, f"{p}_ad_def",
        f"forall {' '.join(av)} {' '.join(bv)} A,\n  {Q}{p}_ad_rel {al} A ->\n"
        f"  {G.hat} (mvec A {bl}) = comm ({G.hat} {al}) ({G.hat} {bl})",
        f"  intros {' '.join(av)} {' '.join(bv)} A Hrel. rel_cases Hrel. autounfold with {p}_ad_db. sv_unfold. list_eq; ring.")
    # bracket = ad a * b
    B.lemma(u, f"{p}_bracket_ad",
        f"forall {' '.join(av)} {' '.join(bv)} A out,\n  {Q}{p}_ad_rel {al} A -> {Q}{p}_bracket_rel {al} {bl} out -> out = mvec A {bl}",
        f"  intros {' '.join(av)} {' '.join(bv)} A out HA Hrel. rel_cases HA. rel_cases Hrel.\n"
        f"  autounfold with {p}_ad_db {p}_bracket_db. sv_unfold. list_eq; ring.")
    # antisymmetry and Jacobi on the traced bracket
    B.lemma(u, f"{p}_bracket_antisym",
        f"forall {' '.join(av)} {' '.join(bv)} x y,\n  {Q}{p}_bracket_rel {al} {bl} x -> {Q}{p}_bracket_rel {bl} {al} y -> x = vneg y",
        f"  intros {' '.join(av)} {' '.join(bv)} x y Hx Hy. rel_cases Hx. rel_cases Hy.\n"
        f"  autounfold with {p}_bracket_db. sv_unfold. list_eq; ring.")
    B.lemma(u, f"{p}_jacobi",
        f"forall {' '.join(av)} {' '.join(bv)} {' '.join(cv)} bc ca ab x y z,\n"
        f"  {Q}{p}_bracket_rel {bl} {cl} bc -> {Q}{p}_bracket_rel {cl} {al} ca -> {Q}{p}_bracket_rel {al} {bl} ab ->\n"
        f"  {Q}{p}_bracket_rel {al} bc x -> {Q}{p}_bracket_rel {bl} ca y -> {Q}{p}_bracket_rel {cl} ab z ->\n"
        f"  vadd (vadd x y) z = vzero {G.dof}",
        f"  intros {' '.join(av)} {' '.join(bv)} {' '.join(cv)} bc ca ab x y z H1 H2 H3 H4 H5 H6.\n"
        f"  rel_cases H1. rel_cases H2. rel_cases H3. rel_cases H4. rel_cases H5. rel_cases H6.\n"
        f"  autounfold with {p}_bracket_db. sv_unfold. list_eq; ring.")
    # Ad is a homomorphism
    rules2 = "[Hg Hh]" if G.unit_idx else ""
    B.lemma(u, f"{p}_Ad_hom",
        f"forall {' '.join(gv)} {' '.join(hv)} gh A1 A2 A12,\n  {G.valid} {gl} -> {G.valid} {hl} ->\n"
        f"  {Q}{p}_comp_rel {gl} {hl} gh -> {Q}{p}_Ad_rel {gl} A1 -> {Q}{p}_Ad_rel {hl} A2 -> {Q}{p}_Ad_rel gh A12 ->\n"
        f"  A12 = mmul A1 A2",
        f"  intros {' '.join(gv)} {' '.join(hv)} gh A1 A2 A12 Hg Hh Hc H1 H2 H12.\n"
        f"  rel_cases Hc; rel_cases H1; rel_cases H2; rel_cases H12;\n"
        f"  autounfold with {p}_comp_db {p}_Ad_db; revert Hg Hh; sv_unfold; intros Hg Hh; norm_rules; list_eq; ring {rules2}.")

for G_ in GROUPS:
    gen(G_)
B.write("".join(f"From SV Require Gen.{G_.unit}.\n" for G_ in GROUPS))
