import os, sys
sys.path.insert(0, os.path.dirname(__file__))
from groups import *

B = Book("C04", "c04.py")
IMPORTS = "From Coquelicot Require Import Coquelicot.\nFrom SV Require Import Base.Trig Doc.Exp.\n"
CLOSED = {"dr_exp": 1, "dr_expinv": 0}

def upd(vs, k, x):
    return lst([x if i == k else v for i, v in enumerate(vs)])
def col(M, k, n):
    return "[" + "; ".join(f"mget ({M}) {i} {k}" for i in range(n)) + "]"

# ---------------------------------------------------------------- SE2
B.start("SE2", ["SE2"], IMPORTS)
av = ["a0", "a1", "a2"]; al = lst(av)
SE2_SETUP = ("  assert (Hne : a2 <> 0) by (intros E; rewrite E, Rmult_0_l in Hbig; lra).\n"
             "  (destruct (Rtotal_order a2 0) as [Hn | [E | Hp]]; [ | contradiction | ]);\n")
SE2_ATOMS = ("  rewrite ?Rmult_1_l;\n  try (rewrite !(sqrt_sq_pos a2) by lra); try (rewrite !(sqrt_sq_neg a2) by lra); rewrite ?sin_neg, ?cos_neg;\n"
             "  pose proof (sin2_cos2 a2) as Hsc; unfold Rsqr in Hsc;\n"
             "  generalize dependent (sin a2); generalize dependent (cos a2); intros C S; intros;\n"
             "  assert (HC : C * C = 1 - S * S) by lra;")
B.lemma("SE2", "se2_dr_expinv_is_inverse",
    f"forall a0 a1 a2, eps2 < a2 * a2 -> sin a2 <> 0 ->\n  mmul (Gen.SE2.se2_dr_expinv_p0 {al}) (Gen.SE2.se2_dr_exp_p1 {al}) = mI 3 /\\\n  mmul (Gen.SE2.se2_dr_exp_p1 {al}) (Gen.SE2.se2_dr_expinv_p0 {al}) = mI 3",
    "  intros a0 a1 a2 Hbig Hsin. unfold eps2 in Hbig.\n" + SE2_SETUP +
    "  autounfold with se2_dr_exp_db se2_dr_expinv_db; sv_unfold;\n" + SE2_ATOMS + " (split; list_eq; field [HC]; nz).")
B.lemma("SE2", "se2_dr_exp_is_jacobian",
    f"forall a0 a1 a2 k r c, eps2 < a2 * a2 -> (k < 3)%nat -> (r < 3)%nat -> (c < 3)%nat ->\n"
    f"  is_derive (fun x => mget (se2_flow (match k with O => {upd(av,0,'x')} | S O => {upd(av,1,'x')} | _ => {upd(av,2,'x')} end) 1) r c) (nth k {al} 0)\n"
    f"            (mget (mmul (se2_flow {al} 1) (se2_hat (mcol (Gen.SE2.se2_dr_exp_p1 {al}) k))) r c)",
    "  intros a0 a1 a2 k r c Hbig Hk Hr Hc. unfold eps2 in Hbig.\n" + SE2_SETUP +
    "  nat_cases k; ij_cases r c; autounfold with se2_dr_exp_db; flow_unfold; sv_unfold;\n"
    "  (auto_derive; [ nz | ]);\n" + SE2_ATOMS + " field [HC]; nz.")
# dl_exp a = Ad(exp a) dr_exp a  (closed-form paths)
B.lemma("SE2", "se2_dl_exp_is_Ad_dr_exp",
    f"forall a0 a1 a2 g A J L, eps2 < a2 * a2 ->\n  Gen.SE2.se2_exp_rel {al} g -> Gen.SE2.se2_Ad_rel g A -> Gen.SE2.se2_dr_exp_rel {al} J -> Gen.SE2.se2_dl_exp_rel {al} L ->\n  L = mmul A J",
    "  intros a0 a1 a2 g A J L Hbig Hg HA HJ HL. unfold eps2 in Hbig.\n" + SE2_SETUP +
    "  rel_cases Hg; rel_cases HA; rel_cases HJ; rel_cases HL;\n"
    "  autounfold with se2_exp_db se2_Ad_db se2_dr_exp_db se2_dl_exp_db in *;\n"
    "  try (exfalso; revert Hpath; sv_unfold; lra); try (exfalso; revert Hpath0; sv_unfold; lra); try (exfalso; revert Hpath1; sv_unfold; lra); try (exfalso; revert Hpath2; sv_unfold; lra);\n"
    "  sv_unfold;\n" + SE2_ATOMS + " list_eq; field [HC]; nz.")

# ---------------------------------------------------------------- SO3
B.start("SO3", ["SO3"], IMPORTS)
th2 = "a0*a0 + a1*a1 + a2*a2"
SO3_SETUP = (f"  assert (Hassoc : a0 * a0 + (a1 * a1 + a2 * a2) = {th2}) by ring.\n")
SO3_ATOMS = (f"  rewrite ?Rmult_1_l; rewrite ?Hassoc; set (th2 := {th2}) in *; assert (Hpos : 0 < th2) by lra; name_sqrt th2 t; rewrite <- ?Htsq;\n"
             f"  assert (Hz : a2*a2 = t*t - a0*a0 - a1*a1) by (unfold th2 in Htsq; lra);\n"
             f"  pose proof (sin2_cos2 t) as Hsc; unfold Rsqr in Hsc;\n"
             f"  generalize dependent (sin t); generalize dependent (cos t); intros C S; intros;\n"
             f"  assert (HC : C * C = 1 - S * S) by lra;")
B.lemma("SO3", "so3_dr_expinv_is_inverse",
    f"forall a0 a1 a2, eps2 < {th2} -> sin (sqrt ({th2})) <> 0 ->\n  mmul (Gen.SO3.so3_dr_expinv_p0 {al}) (Gen.SO3.so3_dr_exp_p1 {al}) = mI 3 /\\\n  mmul (Gen.SO3.so3_dr_exp_p1 {al}) (Gen.SO3.so3_dr_expinv_p0 {al}) = mI 3",
    "  intros a0 a1 a2 Hbig Hsin. unfold eps2 in Hbig.\n" + SO3_SETUP +
    "  autounfold with so3_dr_exp_db so3_dr_expinv_db; sv_unfold;\n" + SO3_ATOMS + " (split; list_eq; field [HC Hz]; nz).")
B.lemma("SO3", "so3_dr_exp_is_jacobian",
    f"forall a0 a1 a2 k r c, eps2 < {th2} -> (k < 3)%nat -> (r < 3)%nat -> (c < 3)%nat ->\n"
    f"  is_derive (fun x => mget (so3_flow (match k with O => {upd(av,0,'x')} | S O => {upd(av,1,'x')} | _ => {upd(av,2,'x')} end) 1) r c) (nth k {al} 0)\n"
    f"            (mget (mmul (so3_flow {al} 1) (so3_hat (mcol (Gen.SO3.so3_dr_exp_p1 {al}) k))) r c)",
    "  intros a0 a1 a2 k r c Hbig Hk Hr Hc. unfold eps2 in Hbig.\n" + SO3_SETUP +
    "  nat_cases k; ij_cases r c; autounfold with so3_dr_exp_db; flow_unfold; sv_unfold;\n"
    "  (auto_derive; [ rewrite ?Hassoc; nz | ]);\n" + SO3_ATOMS + " field [HC Hz]; nz.")

# SO3: dl_exp a = Ad(exp a) dr_exp a (both sign-canonicalisation outcomes)
B.lemma("SO3", "so3_dl_exp_is_Ad_dr_exp",
    f"forall a0 a1 a2 g A J L, eps2 < {th2} ->\n  Gen.SO3.so3_exp_rel {al} g -> Gen.SO3.so3_Ad_rel g A -> Gen.SO3.so3_dr_exp_rel {al} J -> Gen.SO3.so3_dl_exp_rel {al} L ->\n  L = mmul A J",
    "  intros a0 a1 a2 g A J L Hbig Hg HA HJ HL. unfold eps2 in Hbig.\n" + SO3_SETUP +
    "  rel_cases Hg; rel_cases HA; rel_cases HJ; rel_cases HL;\n"
    "  autounfold with so3_exp_db so3_Ad_db so3_dr_exp_db so3_dl_exp_db in *;\n"
    "  try (exfalso; revert Hpath; sv_unfold; lra); try (exfalso; revert Hpath0; sv_unfold; lra); try (exfalso; revert Hpath1; sv_unfold; lra); try (exfalso; revert Hpath2; sv_unfold; lra);\n"
    "  sv_unfold; rewrite ?Rmult_1_l; rewrite ?Hassoc; unify_sqrts;\n"
    f"  set (th2 := {th2}) in *; assert (Hpos : 0 < th2) by lra; name_sqrt th2 t; rewrite <- ?Htsq;\n"
    "  rewrite ?(sin_half_angle t), ?(cos_half_angle t); trig_atom (t/2) s c;\n"
    "  assert (Hz : a2*a2 = t*t - a0*a0 - a1*a1) by (unfold th2 in Htsq; lra);\n"
    "  list_eq; field [H Hz]; nz.")

# ---------------------------------------------------------------- SE3 (thorough tier)
B.start("SE3", ["SE3"], IMPORTS)
av6 = vars_("a", 6); al6 = lst(av6)
th2s = "a3*a3 + a4*a4 + a5*a5"
SE3_SETUP = f"  assert (Hassoc : a3 * a3 + (a4 * a4 + a5 * a5) = {th2s}) by ring.\n"
SE3_ATOMS = (f"  rewrite ?Rmult_1_l; rewrite ?Hassoc; set (th2 := {th2s}) in *; assert (Hpos : 0 < th2) by lra; name_sqrt th2 t; rewrite <- ?Htsq;\n"
             f"  assert (Hz : a5*a5 = t*t - a3*a3 - a4*a4) by (unfold th2 in Htsq; lra);\n"
             f"  pose proof (sin2_cos2 t) as Hsc; unfold Rsqr in Hsc;\n"
             f"  generalize dependent (sin t); generalize dependent (cos t); intros C S; intros;\n"
             f"  assert (HC : C * C = 1 - S * S) by lra;")
matchk = "match k with " + " | ".join((("S " * i).strip().replace(" ", " (") + (" O" if i else "O") + ")" * max(0, i - 1) if False else "") for i in range(0)) 
def natpat(i):
    return "O" if i == 0 else "S " + ("(" + natpat(i - 1) + ")" if i - 1 > 0 else "O")
arms = " | ".join(f"{natpat(i)} => {upd(av6, i, 'x')}" for i in range(5)) + f" | _ => {upd(av6, 5, 'x')}"
B.lemma("SE3", "se3_dr_exp_closed_path",
    f"forall {' '.join(av6)} out, eps2 < {th2s} -> Gen.SE3.se3_dr_exp_rel {al6} out -> out = Gen.SE3.se3_dr_exp_p1 {al6}",
    f"  intros {' '.join(av6)} out Hbig Hrel. unfold eps2 in Hbig.\n"
    f"  rel_cases Hrel; autounfold with se3_dr_exp_db in *; [ | ]; first [ reflexivity | exfalso; revert Hpath; sv_unfold; lra ].")
B.lemma("SE3", "se3_dr_exp_is_jacobian",
    f"forall {' '.join(av6)} k r c, eps2 < {th2s} -> (k < 6)%nat -> (r < 4)%nat -> (c < 4)%nat ->\n"
    f"  is_derive (fun x => mget (se3_flow (match k with {arms} end) 1) r c) (nth k {al6} 0)\n"
    f"            (mget (mmul (se3_flow {al6} 1) (se3_hat (mcol (Gen.SE3.se3_dr_exp_p1 {al6}) k))) r c)",
    f"  intros {' '.join(av6)} k r c Hbig Hk Hr Hc. unfold eps2 in Hbig.\n" + SE3_SETUP +
    "  nat_cases k; ij_cases r c; autounfold with se3_dr_exp_db; flow_unfold; sv_unfold;\n"
    "  (auto_derive; [ rewrite ?Hassoc; nz | ]);\n" + SE3_ATOMS + " field [HC Hz]; nz.")

B.write("From Coquelicot Require Import Coquelicot.\nFrom SV Require Import Base.Trig Doc.Exp.\nFrom SV Require Gen.SE2 Gen.SO3 Gen.SE3.\n", thorough_units=["SE3"])
