import os, sys
sys.path.insert(0, os.path.dirname(__file__))
from groups import *

B = Book("C05", "c05.py")
IMPORTS = "From Coquelicot Require Import Coquelicot.\nFrom SV Require Import Base.Trig Doc.Exp.\n"
# closed-form path indices (pinned by the *_closed_path lemmas below: if the code's branch structure changes they break)
CLOSED = {"dr_exp": 1, "dr_expinv": 0, "d2r_exp": 0, "d2r_expinv": 0}

def upd(vs, k, x):
    return lst([x if i == k else v for i, v in enumerate(vs)])

# ---------------------------------------------------------------- SE2
B.start("SE2", ["SE2"], IMPORTS)
av = ["a0", "a1", "a2"]
al = lst(av)
for fn, idx in CLOSED.items():
    B.lemma("SE2", f"se2_{fn}_closed_path",
        f"forall a0 a1 a2 out, eps2 < a2 * a2 -> Gen.SE2.se2_{fn}_rel {al} out -> out = Gen.SE2.se2_{fn}_p{idx} {al}",
        f"  intros a0 a1 a2 out Hbig Hrel. unfold eps2 in Hbig.\n"
        f"  rel_cases Hrel; autounfold with se2_{fn}_db in *; [ | ]; first [ reflexivity | exfalso; revert Hpath; sv_unfold; lra ].")
for (J, H, extra_hyp, extra_intro) in [("dr_exp", "d2r_exp", "", ""), ("dr_expinv", "d2r_expinv", " sin a2 <> 0 ->", " Hsin")]:
    for k in range(3):
        B.lemma("SE2", f"se2_{H}_is_derivative_{k}",
            f"forall a0 a1 a2 i j, eps2 < a2 * a2 ->{extra_hyp} (i < 3)%nat -> (j < 3)%nat ->\n"
            f"  is_derive (fun x => mget (Gen.SE2.se2_{J}_p{CLOSED[J]} {upd(av, k, 'x')}) i j) a{k}\n"
            f"            (mget (Gen.SE2.se2_{H}_p{CLOSED[H]} {al}) j (3 * i + {k}))",
            f"  intros a0 a1 a2 i j Hbig{extra_intro} Hi Hj. unfold eps2 in Hbig.\n"
            f"  assert (Hne : a2 <> 0) by (intros E; rewrite E, Rmult_0_l in Hbig; lra).\n"
            f"  ij_cases i j; autounfold with se2_{J}_db se2_{H}_db; sv_unfold;\n"
            f"  (destruct (Rtotal_order a2 0) as [Hn | [E | Hp]]; [ | contradiction | ]);\n"
            f"  try (assert (Hsn : sin (sqrt (a2 * a2)) <> 0) by (first [ rewrite (sqrt_sq_neg a2) by lra; rewrite sin_neg; lra | rewrite (sqrt_sq_pos a2) by lra; assumption ]));\n"
            f"  (auto_derive; [ nz | ]);\n"
            f"  try (rewrite !(sqrt_sq_pos a2) by lra); try (rewrite !(sqrt_sq_neg a2) by lra); rewrite ?sin_neg, ?cos_neg;\n"
            f"  pose proof (sin2_cos2 a2) as Hsc; unfold Rsqr in Hsc;\n"
            f"  generalize dependent (sin a2); generalize dependent (cos a2); intros C S; intros;\n"
            f"  assert (HC : C * C = 1 - S * S) by lra; field [HC]; nz.")

# ---------------------------------------------------------------- SO3
B.start("SO3", ["SO3"], IMPORTS)
th2 = "a0*a0 + a1*a1 + a2*a2"
for fn, idx in CLOSED.items():
    B.lemma("SO3", f"so3_{fn}_closed_path",
        f"forall a0 a1 a2 out, eps2 < {th2} -> Gen.SO3.so3_{fn}_rel {al} out -> out = Gen.SO3.so3_{fn}_p{idx} {al}",
        f"  intros a0 a1 a2 out Hbig Hrel. unfold eps2 in Hbig.\n"
        f"  rel_cases Hrel; autounfold with so3_{fn}_db in *; [ | ]; first [ reflexivity | exfalso; revert Hpath; sv_unfold; lra ].")
for (J, H, extra_hyp, extra_intro) in [("dr_exp", "d2r_exp", "", ""), ("dr_expinv", "d2r_expinv", f" sin (sqrt ({th2})) <> 0 ->", " Hsin")]:
    for k in range(3):
        B.lemma("SO3", f"so3_{H}_is_derivative_{k}",
            f"forall a0 a1 a2 i j, eps2 < {th2} ->{extra_hyp} (i < 3)%nat -> (j < 3)%nat ->\n"
            f"  is_derive (fun x => mget (Gen.SO3.so3_{J}_p{CLOSED[J]} {upd(av, k, 'x')}) i j) a{k}\n"
            f"            (mget (Gen.SO3.so3_{H}_p{CLOSED[H]} {al}) j (3 * i + {k}))",
            f"  intros a0 a1 a2 i j Hbig{extra_intro} Hi Hj. unfold eps2 in Hbig.\n"
            f"  assert (Hassoc : a0 * a0 + (a1 * a1 + a2 * a2) = {th2}) by ring.\n"
            f"  ij_cases i j; autounfold with so3_{J}_db so3_{H}_db; sv_unfold;\n"
            f"  (auto_derive; [ rewrite ?Hassoc; nz | ]); rewrite ?Hassoc;\n"
            f"  set (th2 := {th2}) in *; assert (Hpos : 0 < th2) by lra; name_sqrt th2 t; rewrite <- ?Htsq;\n"
            f"  assert (Hz : a2*a2 = t*t - a0*a0 - a1*a1) by (unfold th2 in Htsq; lra);\n"
            f"  pose proof (sin2_cos2 t) as Hsc; unfold Rsqr in Hsc;\n"
            f"  generalize dependent (sin t); generalize dependent (cos t); intros C S; intros;\n"
            f"  assert (HC : C * C = 1 - S * S) by lra; field [HC Hz]; nz.")

B.write("From Coquelicot Require Import Coquelicot.\nFrom SV Require Import Base.Trig Doc.Exp.\nFrom SV Require Gen.SE2 Gen.SO3.\n")
