import os, sys
sys.path.insert(0, os.path.dirname(__file__))
from groups import *

B = Book("C06", "c06.py")

PARTS = {
    'so3': dict(unit='SO3', rep=4, dof=3), 'so2': dict(unit='SO2', rep=2, dof=1), 'se2': dict(unit='SE2', rep=4, dof=3),
    'se3': dict(unit='SE3', rep=7, dof=6, hess_unit='SE3H'), 'c1': dict(unit='C1', rep=2, dof=2),
    'v1': dict(unit='Rn', rep=1, dof=1), 'v2': dict(unit='Rn', rep=2, dof=2), 'v3': dict(unit='Rn', rep=3, dof=3),
    'bei': dict(unit='BEi', rep=4, dof=3),
}
BUNDLES = {
    'BA': ['so3', 'v3'], 'BB': ['v2', 'se2'], 'BC': ['se2', 'so3', 'v1', 'so2'], 'BD': ['so3', 'so3'],
    'BEi': ['so2', 'v2'], 'BE': ['bei', 'se3'], 'BF': ['c1', 'se3'], 'BG': ['v1', 'c1', 'so2'],
}
VEC_G = ['comp', 'inv', 'log']        # group-coefficient arguments
VEC_T = ['exp']                         # tangent arguments, group-coefficient result
MAT_G = ['Ad']
MAT_T = ['ad', 'dr_exp', 'dr_expinv']
HESS_T = ['d2r_exp', 'd2r_expinv']

def segs(prefix, sizes):
    out, k = [], 0
    for s in sizes:
        out.append([f"{prefix}{k+i}" for i in range(s)])
        k += s
    return out

def gen(bname):
    parts = BUNDLES[bname]
    pre = bname.lower()
    units = [bname]
    for p in parts:
        for key in ('unit', 'hess_unit'):
            if key in PARTS[p] and PARTS[p][key] not in units:
                units.append(PARTS[p][key])
    B.start(bname, units)
    Qb = f"Gen.{bname}."
    reps = [PARTS[p]['rep'] for p in parts]
    dofs = [PARTS[p]['dof'] for p in parts]
    k = len(parts)
    def qual(p, op):
        u = PARTS[p].get('hess_unit') if op in HESS_T and 'hess_unit' in PARTS[p] else PARTS[p]['unit']
        return f"Gen.{u}.{p}_{op}"
    def stmt_and_proof(op, nargs, sizes, arr):
        argsegs = [segs(n, sizes) for n in (['g', 'h'][:nargs] if sizes is reps else ['a'])]
        allvars = [v for a in argsegs for s in a for v in s]
        full = [lst([v for s in a for v in s]) for a in argsegs]
        outs = [f"o{i}" for i in range(k)]
        conj = " /\\\n    ".join(f"{qual(parts[i], op)}_rel {' '.join(lst(a[i]) for a in argsegs)} {outs[i]}" for i in range(k))
        if arr == 'cat':
            res = " ++ ".join(outs)
        elif arr == 'diag':
            res = f"blockdiag {lst(outs)}"
        else:
            res = f"bundle_hess {lst(outs)}"
        st = (f"forall {' '.join(allvars)} out,\n  {Qb}{pre}_{op}_rel {' '.join(full)} out ->\n  exists {' '.join(outs)},\n    {conj} /\\\n    out = {res}")
        dbs = f"{pre}_{op}_db " + " ".join(sorted(set(f"{p}_{op}_db" for p in parts)))
        pick = f"rel_pick ltac:(revert Hpath; autounfold with {dbs}; mat_unfold2; cbv zeta)"
        pr = f"  intros {' '.join(allvars)} out Hrel. rel_cases Hrel;\n"
        pr += "  " + " ".join("eexists;" for _ in range(k)) + "\n"
        pr += "".join(f"  (split; [{pick}|]);\n" for _ in range(k))
        pr += f"  autounfold with {dbs}; mat_unfold2; cbv zeta; reflexivity."
        return st, pr
    for op in VEC_G:
        nargs = 2 if op == 'comp' else 1
        st, pr = stmt_and_proof(op, nargs, reps, 'cat')
        B.lemma(bname, f"{pre}_{op}_parts", st, pr)
    for op in VEC_T:
        st, pr = stmt_and_proof(op, 1, dofs, 'cat')
        B.lemma(bname, f"{pre}_{op}_parts", st, pr)
    for op in MAT_G:
        st, pr = stmt_and_proof(op, 1, reps, 'diag')
        B.lemma(bname, f"{pre}_{op}_parts", st, pr)
    for op in MAT_T:
        st, pr = stmt_and_proof(op, 1, dofs, 'diag')
        B.lemma(bname, f"{pre}_{op}_parts", st, pr)
    for op in HESS_T:
        st, pr = stmt_and_proof(op, 1, dofs, 'hess')
        B.lemma(bname, f"{pre}_{op}_parts", st, pr)
    # identity
    outs = [f"o{i}" for i in range(k)]
    conj = " /\\\n    ".join(f"{qual(parts[i], 'identity')}_rel {outs[i]}" for i in range(k))
    dbs = f"{pre}_identity_db " + " ".join(sorted(set(f"{p}_identity_db" for p in parts)))
    B.lemma(bname, f"{pre}_identity_parts",
        f"forall out, {Qb}{pre}_identity_rel out ->\n  exists {' '.join(outs)},\n    {conj} /\\\n    out = {' ++ '.join(outs)}",
        f"  intros out Hrel. rel_cases Hrel;\n  " + " ".join("eexists;" for _ in range(k)) + "\n"
        + "".join(f"  (split; [rel_pick ltac:(revert Hpath; autounfold with {dbs}; mat_unfold2; cbv zeta)|]);\n" for _ in range(k))
        + f"  autounfold with {dbs}; mat_unfold2; cbv zeta; reflexivity.")
    # part<i>() views the documented coefficient segment: offset = prefix sum of the parts' RepSize
    gs = segs('g', reps)
    full = lst([v for s in gs for v in s])
    for i in range(k):
        B.lemma(bname, f"{pre}_part{i}_view",
            f"forall {' '.join(v for s in gs for v in s)} out,\n  {Qb}{pre}_part{i}_rel {full} out ->\n"
            f"  out = {lst(gs[i])} /\\ out = vslice {full} (nth {i} (psum {lst([str(r)+'%nat' for r in reps])}) 0%nat) {reps[i]}%nat",
            f"  intros {' '.join(v for s in gs for v in s)} out Hrel. rel_cases Hrel. autounfold with {pre}_part{i}_db. mat_unfold2. cbv zeta. split; reflexivity.")

for b in BUNDLES:
    gen(b)

# ---- Eigen vectors (static / dynamic size) and scalars through the LieGroup interface: the additive group
def gen_rn():
    B.start("Rn", ["Rn"])
    Q = "Gen.Rn."
    for pre, n in [("v1", 1), ("v2", 2), ("v3", 3), ("v4", 4), ("vx0", 0), ("vx1", 1), ("vx3", 3), ("vx5", 5), ("sc", 1)]:
        gv, hv, av = vars_("g", n), vars_("h", n), vars_("a", n)
        gl, hl, al = lst(gv), lst(hv), lst(av)
        fa = lambda vs: ("forall " + " ".join(vs) + " out,") if vs else "forall out,"
        def lem(op, vs, args, rhs):
            B.lemma("Rn", f"{pre}_{op}_additive",
                f"{fa(vs)}\n  {Q}{pre}_{op}_rel {args} out -> out = {rhs}",
                f"  intros {' '.join(vs)} out Hrel. rel_cases Hrel. autounfold with {pre}_{op}_db. mat_unfold2. cbv zeta. list_eq; ring.")
        lem("comp", gv + hv, f"{gl} {hl}", f"vadd {gl} {hl}")
        lem("inv", gv, gl, f"vneg {gl}")
        lem("identity", [], "", f"vzero {n}")
        lem("exp", av, al, al)
        lem("log", gv, gl, gl)
        lem("Ad", gv, gl, f"mI {n}")
        lem("ad", av, al, f"mzero {n} {n}")
        lem("dr_exp", av, al, f"mI {n}")
        lem("dr_expinv", av, al, f"mI {n}")
        lem("d2r_exp", av, al, f"mzero {n} {n*n}")
        lem("d2r_expinv", av, al, f"mzero {n} {n*n}")
gen_rn()
allunits = []
for b in BUNDLES:
    allunits.append(b)
B.write("".join(f"From SV Require Gen.{u}.\n" for u in ['SO2', 'SO3', 'SE2', 'SE3', 'SE3H', 'C1', 'Rn'] + list(BUNDLES)), thorough_units=['BE', 'BF'])
