import os, sys
sys.path.insert(0, os.path.dirname(__file__))
from groups import *

B = Book("C11", "c11.py")
IMPORTS = "From Coquelicot Require Import Coquelicot.\nFrom SV Require Import Base.Trig Doc.Exp.\n"

def bt(K, j, u, order=0):
    """cumulative basis function j (and its derivatives) as a polynomial in u with coefficients b[r][j] (row-major b)"""
    terms = []
    for r in range(order, K + 1):
        c = 1
        for q in range(order):
            c *= (r - q)
        mon = " * ".join([u] * (r - order)) if r - order > 0 else "1"
        terms.append(f"{c} * ({mon}) * b{r*(K+1)+j}")
    return "(" + " + ".join(terms) + ")" if terms else "0"

# ---------------------------------------------------------------- vector spaces, K = 1..4, any basis matrix
B.start("Vec", ["CS"], IMPORTS)
for K in range(1, 5):
    vs = [vars_(f"v{j}_", 2) for j in range(1, K + 1)]
    bv = vars_("b", (K + 1) * (K + 1))
    allv = [x for v in vs for x in v] + bv
    args = " ".join(lst(v) for v in vs) + " " + lst(bv)
    p = f"csv{K}"
    for which, order in [("val", 0), ("vel", 1), ("acc", 2), ("jer", 3)]:
        spec = "[" + "; ".join(" + ".join(f"{bt(K, j, 'u', order)} * v{j}_{i}" for j in range(1, K + 1)) for i in range(2)) + "]"
        B.lemma("Vec", f"{p}_{which}_spec",
            f"forall {' '.join(allv)} u out,\n  Gen.CS.{p}_{which}_rel {args} [u] out ->\n  out = {spec}",
            f"  intros {' '.join(allv)} u out Hrel. rel_cases Hrel. autounfold with {p}_{which}_db. sv_unfold. list_eq; ring.")
    for (f, df) in [("val", "vel"), ("vel", "acc"), ("acc", "jer")]:
        B.lemma("Vec", f"{p}_{df}_is_derivative_of_{f}",
            f"forall {' '.join(allv)} u i, (i < 2)%nat ->\n"
            f"  is_derive (fun x => nth i (Gen.CS.{p}_{f}_p0 {args} [x]) 0) u (nth i (Gen.CS.{p}_{df}_p0 {args} [u]) 0)",
            f"  intros {' '.join(allv)} u i Hi. nat_cases i; autounfold with {p}_{f}_db {p}_{df}_db; sv_unfold;\n"
            f"  (auto_derive; [ repeat split; auto | ring ]).")

# ---------------------------------------------------------------- value = product of exponentials (library exp / composition)
def prod_lemma(unit, gname, pre, K, dofg, gen_unit, idcoeffs):
    vs = [vars_(f"v{j}_", dofg) for j in range(1, K + 1)]
    bv = vars_("b", (K + 1) * (K + 1))
    allv = [x for v in vs for x in v] + bv
    args = " ".join(lst(v) for v in vs) + " " + lst(bv)
    es = [f"e{j}" for j in range(1, K + 1)]
    gs = [f"g{j}" for j in range(1, K + 1)]
    conj = []
    prev = lst(idcoeffs)
    for j in range(1, K + 1):
        scaled = lst([f"nth {j-1} c 0 * {x}" for x in vs[j - 1]])
        conj.append(f"Gen.{gen_unit}.{gname}_exp_rel {scaled} e{j}")
        conj.append(f"Gen.{gen_unit}.{gname}_comp_rel {prev} e{j} g{j}")
        prev = f"g{j}"
    stmt = (f"forall {' '.join(allv)} u c out,\n  Gen.CS.cs_basis{K}_rel {lst(bv)} [u] c ->\n  Gen.CS.{pre}_val_rel {args} [u] out ->\n  exists {' '.join(es)} {' '.join(gs)},\n    "
            + " /\\\n    ".join(conj) + f" /\\\n    out = g{K}")
    dbs = f"{pre}_val_db cs_basis{K}_db {gname}_exp_db {gname}_comp_db"
    pick = f"rel_pick_eq ltac:(revert_props; autounfold with {dbs}; sv_unfold) ltac:(reflexivity)"
    prf = (f"  intros {' '.join(allv)} u c out Hc Hrel. rel_cases Hc. rel_cases Hrel;\n"
           f"  try (infeasible ltac:(revert_props; autounfold with {dbs}; sv_unfold; unfold eps2));\n  " + " ".join("eexists;" for _ in range(2 * K)) + "\n")
    prf += "".join(f"  (split; [{pick}|]);\n" for _ in range(2 * K))
    prf += f"  autounfold with {dbs}; sv_unfold; first [reflexivity | list_eq; ring]."
    B.lemma(unit, f"{pre}_val_is_product_of_exps", stmt, prf)

def basis_lemma(unit, K):
    bv = vars_("b", (K + 1) * (K + 1))
    B.lemma(unit, f"cs_basis{K}_spec",
        f"forall {' '.join(bv)} u c, Gen.CS.cs_basis{K}_rel {lst(bv)} [u] c ->\n  c = {lst([bt(K, j, 'u') for j in range(1, K + 1)])}",
        f"  intros {' '.join(bv)} u c Hc. rel_cases Hc. autounfold with cs_basis{K}_db. sv_unfold. list_eq; ring.")

B.start("SO3", ["CS", "SO3"], IMPORTS)
basis_lemma("SO3", 1)
basis_lemma("SO3", 2)
prod_lemma("SO3", "so3", "cso3_1", 1, 3, "SO3", ["0", "0", "0", "1"])
# K = 1 velocity: vel = B~_1'(u) v
v1 = vars_("v1_", 3); bv = vars_("b", 4)
B.lemma("SO3", "cso3_1_vel_spec",
    f"forall {' '.join(v1 + bv)} u out,\n  Gen.CS.cso3_1_vel_rel {lst(v1)} {lst(bv)} [u] out ->\n  out = {lst([bt(1, 1, 'u', 1) + ' * ' + x for x in v1])}",
    f"  intros {' '.join(v1 + bv)} u out Hrel. rel_cases Hrel; autounfold with cso3_1_vel_db; sv_unfold; list_eq; ring.")
B.start("SE2", ["CS", "SE2"], IMPORTS)
prod_lemma("SE2", "se2", "cse2_2", 2, 3, "SE2", ["0", "0", "0", "1"])

B.write("From Coquelicot Require Import Coquelicot.\nFrom SV Require Import Base.Trig.\nFrom SV Require Gen.CS Gen.SO3 Gen.SE2.\n")
