import os, sys
sys.path.insert(0, os.path.dirname(__file__))
from groups import *

B = Book("C17", "c17.py")

# ---- SE_K_3<1> coincides with SE3 operation for operation
B.start("SEK1", ["SEK3_1", "SE3"])
ARGS = {  # op -> list of (name, size)
    'identity': [], 'matrix': [('g', 7)], 'comp': [('g', 7), ('h', 7)], 'inv': [('g', 7)], 'hat': [('a', 6)],
    'vee': [('m', 16)], 'Ad': [('g', 7)], 'ad': [('a', 6)], 'bracket': [('a', 6), ('b', 6)], 'exp': [('a', 6)],
    'log': [('g', 7)], 'dr_exp': [('a', 6)], 'dr_expinv': [('a', 6)], 'dl_exp': [('a', 6)], 'dl_expinv': [('a', 6)],
}
for op, args in ARGS.items():
    vs = [v for n, k in args for v in vars_(n, k)]
    ls = " ".join(lst(vars_(n, k)) for n, k in args)
    fa = ("forall " + " ".join(vs) + " out,") if vs else "forall out,"
    unf = f"revert Hpath; autounfold with sek1_{op}_db se3_{op}_db; sv_unfold"
    fin = f"autounfold with sek1_{op}_db se3_{op}_db; sv_unfold; first [reflexivity | list_eq; ring]"
    B.lemma("SEK1", f"sek1_{op}_is_se3",
        f"{fa}\n  Gen.SEK3_1.sek1_{op}_rel {ls} out <-> Gen.SE3.se3_{op}_rel {ls} out",
        f"  intros {' '.join(vs)} out. split; intros Hrel; rel_cases Hrel;\n"
        f"  rel_pick_eq ltac:({unf}) ltac:({fin}).")

# ---- SE_K_3<2> is the zero-time subgroup of Galilei: iota(p1,p2,q) = (v:=p1, p:=p2, tau:=0, q)
B.start("SEK2", ["SEK3_2", "Galilei"], "From Coquelicot Require Import Coquelicot.\nFrom SV Require Import Base.Trig Doc.Exp.\nFrom SV Require Proofs.C02_SEK3_2 Proofs.C02_Galilei.\n")
def iota_g(v):   # v: 10 sek2 coefficient names -> 11 galilei coefficients
    return v[0:6] + ["0"] + v[6:10]
def iota_t(v):   # 9 sek2 tangent names -> 10 galilei tangent
    return v[0:6] + ["0"] + v[6:9]
gv, hv, av, bv = vars_("g", 10), vars_("h", 10), vars_("a", 9), vars_("b", 9)
def emb_out_g(o): return f"firstn 6 {o} ++ [0] ++ skipn 6 {o}"
UNF = "firstn skipn app"
def sub_lemma(op, vs, sek_args, gal_args, emb, kind):
    unf = f"revert Hpath; autounfold with sek2_{op}_db gal_{op}_db; sv_unfold"
    fin = f"autounfold with sek2_{op}_db gal_{op}_db; sv_unfold; cbv [{UNF}]; list_eq; first [reflexivity | ring | field]"
    B.lemma("SEK2", f"sek2_{op}_in_galilei",
        f"forall {' '.join(vs)} out,\n  Gen.SEK3_2.sek2_{op}_rel {sek_args} out ->\n  Gen.Galilei.gal_{op}_rel {gal_args} ({emb('out')})",
        f"  intros {' '.join(vs)} out Hrel. rel_cases Hrel;\n  rel_pick_eq ltac:({unf}) ltac:({fin}).")
sub_lemma("comp", gv + hv, f"{lst(gv)} {lst(hv)}", f"{lst(iota_g(gv))} {lst(iota_g(hv))}", emb_out_g, "g")
sub_lemma("inv", gv, lst(gv), lst(iota_g(gv)), emb_out_g, "g")
# exp: the two groups use different (mathematically equal) formulas; on the closed-form paths both are the same
# flow (C02), and the Galilei flow of an embedded tangent is the embedded SE_2(3) flow
th2 = "a6*a6 + a7*a7 + a8*a8"
B.lemma("SEK2", "sek2_exp_in_galilei_closed",
    f"forall {' '.join(av)} x y,\n  eps2 < {th2} ->\n  Gen.SEK3_2.sek2_exp_rel {lst(av)} x -> Gen.Galilei.gal_exp_rel {lst(iota_t(av))} y ->\n  gal_mat y = sek_mat 2 x",
    f"  intros {' '.join(av)} x y Hbig Hx Hy.\n"
    f"  destruct (Proofs.C02_SEK3_2.sek2_exp_flow {' '.join('_' for _ in av)} _ Hx Hbig) as [-> _].\n"
    f"  destruct (Proofs.C02_Galilei.gal_exp_flow {' '.join('_' for _ in range(10))} _ Hy Hbig) as [-> _].\n"
    f"  flow_unfold. sv_unfold. list_eq; ring.")
B.lemma("SEK2", "sek2_identity_in_galilei",
    f"forall out, Gen.SEK3_2.sek2_identity_rel out -> Gen.Galilei.gal_identity_rel ({emb_out_g('out')})",
    "  intros out Hrel. rel_cases Hrel.\n  rel_pick_eq ltac:(revert Hpath; autounfold with sek2_identity_db gal_identity_db; sv_unfold) "
    f"ltac:(autounfold with sek2_identity_db gal_identity_db; sv_unfold; cbv [{UNF}]; reflexivity).")
# matrices agree under the embedding (documented forms): mat(iota g) = mat g
B.lemma("SEK2", "sek2_mat_embedding",
    f"forall {' '.join(gv)}, gal_mat {lst(iota_g(gv))} = sek_mat 2 {lst(gv)} /\\ (gal_valid {lst(iota_g(gv))} <-> sek_valid 2 {lst(gv)})",
    f"  intros. sv_unfold. split; [list_eq; ring | tauto].")
# Ad, ad, dr_exp, dr_expinv restricted to the subalgebra s = 0
def it_vec(names): return lst(iota_t(names))
for op, argv, sek_a, gal_a in [("Ad", gv, lst(gv), lst(iota_g(gv))), ("ad", av, lst(av), lst(iota_t(av))),
                               ("dr_exp", av, lst(av), lst(iota_t(av)))]:
    B.lemma("SEK2", f"sek2_{op}_in_galilei",
        f"forall {' '.join(argv)} {' '.join(bv)} A,\n  Gen.SEK3_2.sek2_{op}_rel {sek_a} A ->\n"
        f"  exists A', Gen.Galilei.gal_{op}_rel {gal_a} A' /\\\n    mvec A' {it_vec(bv)} = (fun o => firstn 6 o ++ [0] ++ skipn 6 o) (mvec A {lst(bv)})",
        f"  intros {' '.join(argv)} {' '.join(bv)} A Hrel. rel_cases Hrel; eexists;\n"
        f"  (split; [rel_pick_eq ltac:(revert Hpath; autounfold with sek2_{op}_db gal_{op}_db; sv_unfold) ltac:(reflexivity)|]);\n"
        f"  autounfold with sek2_{op}_db gal_{op}_db; sv_unfold; cbv [{UNF}]; list_eq; first [reflexivity | ring | field].")
B.write("From Coquelicot Require Import Coquelicot.\nFrom SV Require Import Base.Trig Doc.Exp.\nFrom SV Require Gen.SE3 Gen.SEK3_1 Gen.SEK3_2 Gen.Galilei.\n")
