import os, sys
sys.path.insert(0, os.path.dirname(__file__))
from groups import *

B = Book("C19", "c19.py")
# name -> (gen unit(s), dof, has Hessian traced, hess unit)
G19 = {
    'so2': (['SO2'], 1, True), 'so3': (['SO3'], 3, True), 'se2': (['SE2'], 3, True), 'se3': (['SE3', 'SE3H'], 6, True),
    'c1': (['C1'], 2, True), 'gal': (['Galilei'], 10, False),
    'ba': (['BA'], 6, True), 'bb': (['BB'], 5, True), 'bc': (['BC'], 8, True), 'bd': (['BD'], 6, True),
    'bei': (['BEi'], 3, True), 'be': (['BE'], 9, True), 'bf': (['BF'], 8, True),
}
for name, (units, dof, hess) in G19.items():
    u = name
    B.start(u, units, "From SV Require Import Model.C19_Sparse Gen.PatternsC19.\n")
    av = vars_("a", dof)
    al = lst(av)
    def off(fn, pat, unit, nr, nc):
        B.lemma(u, f"{name}_{fn}_pattern_complete",
            f"forall {' '.join(av)} out, Gen.{unit}.{name}_{fn}_rel {al} out ->\n  all_zero (off_entries Gen.PatternsC19.{name}_{pat}_pattern {nr} {nc} out)",
            f"  intros {' '.join(av)} out Hrel. rel_cases Hrel; unfold all_zero;\n"
            f"  autounfold with {name}_{fn}_db;\n"
            f"  lazy [off_entries inpat existsb {name}_{pat}_pattern mget nth map seq concat app length repeat fst snd andb orb Nat.eqb Nat.add]; reflexivity.")
    off("ad", "ad", units[0], dof, dof)
    off("dr_exp", "d_exp", units[0], dof, dof)
    off("dr_expinv", "d_exp", units[0], dof, dof)
    if hess:
        hu = units[-1]
        off("d2r_exp", "d2_exp", hu, dof, dof * dof)
        off("d2r_expinv", "d2_exp", hu, dof, dof * dof)

B.write("From SV Require Import Model.C19_Sparse.\nFrom SV Require Gen.PatternsC19.\n" + "".join(f"From SV Require Gen.{x}.\n" for x in ['SO2', 'SO3', 'SE2', 'SE3', 'SE3H', 'C1', 'Galilei', 'BA', 'BB', 'BC', 'BD', 'BEi', 'BE', 'BF']),
        thorough_units=['be', 'bf'])
