"""Group descriptors shared by the proof-authoring scripts (these scripts are run by hand when the
proof files are written; their output under coq/Proofs is committed and is what the checks build)."""

class G:
    def __init__(s, name, pre, unit, rep, dof, dim, valid, mat, hat, act=0, homog=False, unit_idx=None, commutative=False):
        s.name, s.pre, s.unit, s.rep, s.dof, s.dim = name, pre, unit, rep, dof, dim
        s.valid, s.mat, s.hat, s.act, s.homog = valid, mat, hat, act, homog
        s.unit_idx = unit_idx  # indices of the unit-norm coefficients
        s.commutative = commutative

GROUPS = [
    G("SO2", "so2", "SO2", 2, 1, 2, "so2_valid", "so2_mat", "so2_hat", act=2, unit_idx=[0, 1], commutative=True),
    G("SO3", "so3", "SO3", 4, 3, 3, "so3_valid", "so3_mat", "so3_hat", act=3, unit_idx=[0, 1, 2, 3]),
    G("SE2", "se2", "SE2", 4, 3, 3, "se2_valid", "se2_mat", "se2_hat", act=2, homog=True, unit_idx=[2, 3]),
    G("SE3", "se3", "SE3", 7, 6, 4, "se3_valid", "se3_mat", "se3_hat", act=3, homog=True, unit_idx=[3, 4, 5, 6]),
    G("C1", "c1", "C1", 2, 2, 2, "c1_valid", "c1_mat", "c1_hat", act=2, commutative=True),
    G("Galilei", "gal", "Galilei", 11, 10, 5, "gal_valid", "gal_mat", "gal_hat", act=4, homog=True, unit_idx=[7, 8, 9, 10]),
    G("SEK3_1", "sek1", "SEK3_1", 7, 6, 4, "sek_valid 1", "sek_mat 1", "sek_hat 1", unit_idx=[3, 4, 5, 6]),
    G("SEK3_2", "sek2", "SEK3_2", 10, 9, 5, "sek_valid 2", "sek_mat 2", "sek_hat 2", unit_idx=[6, 7, 8, 9]),
    G("SEK3_3", "sek3", "SEK3_3", 13, 12, 6, "sek_valid 3", "sek_mat 3", "sek_hat 3", unit_idx=[9, 10, 11, 12]),
]

def vars_(p, n):
    return [f"{p}{i}" for i in range(n)]

def lst(vs):
    return "[" + "; ".join(vs) + "]"

HEADER = '''(* Written with scripts/author/{script} (committed output; the check builds this file against
   the freshly generated Gen/{unit}.v).  Property {prop}. *)
From Coq Require Import Reals List Lra.
From SV Require Import Base.GenPrelude Base.Mat Doc.Groups Base.Tactics Gen.{unit}.
{extra}Import ListNotations.
Local Open Scope R_scope.

'''

import os
COQDIR = os.path.join(os.path.dirname(os.path.abspath(__file__)), "..", "..", "coq")

class Book:
    """collects lemmas for Proofs/<prop>_<unit>.v files and the statement-only Props/Properties_<prop>.v"""
    def __init__(s, prop, script):
        s.prop, s.script = prop, script
        s.files = {}      # unit -> text
        s.imports = {}    # unit -> extra import lines
        s.props = []      # (unit, name, stmt)
    def start(s, unit, gen_units=None, extra_imports=""):
        gen_units = gen_units or [unit]
        hdr = HEADER.format(script=s.script, unit=gen_units[0], prop=s.prop, extra=extra_imports)
        for u in gen_units[1:]:
            hdr = hdr.replace(f"Gen.{gen_units[0]}.", f"Gen.{gen_units[0]} Gen.{u}.", 1) if False else hdr
        if len(gen_units) > 1:
            hdr = hdr.replace(f"Gen.{gen_units[0]}.", "Gen." + " Gen.".join(gen_units) + ".")
        s.files[unit] = hdr
    def lemma(s, unit, name, stmt, proof, export=True):
        s.files[unit] += f"Lemma {name} :\n  {stmt}.\nProof.\n{proof}\nQed.\n\n"
        if export:
            s.props.append((unit, name, stmt))
    def raw(s, unit, text):
        s.files[unit] += text
    def write(s, extra_props_imports="", thorough_units=()):
        for unit, txt in s.files.items():
            open(os.path.join(COQDIR, "Proofs", f"{s.prop}_{unit}.v"), "w").write(txt)
        allprops = s.props
        if thorough_units:
            s.props = [x for x in allprops if x[0] in thorough_units]
            s._write_props(extra_props_imports, f"Properties_{s.prop}x.v", "(thorough tier: the most expensive instances)")
            s.props = [x for x in allprops if x[0] not in thorough_units]
        s._write_props(extra_props_imports, f"Properties_{s.prop}.v", "")
        s.props = allprops
    def _write_props(s, extra_props_imports, fname, remark):
        o = f"(* Property {s.prop}: the property theorems and nothing else {remark}.  Each is closed by the lemma of the same\n   name proved in Proofs/{s.prop}_<unit>.v against the generated model; Print Assumptions lists the axioms. *)\n"
        o += "From Coq Require Import Reals List Lra.\n" + (extra_props_imports if "Coquelicot" in extra_props_imports else "") + "From SV Require Import Base.GenPrelude Base.Mat Doc.Groups.\n"
        if "Coquelicot" in extra_props_imports:
            extra_props_imports = ""
        units = []
        for u, _, _ in s.props:
            if u not in units:
                units.append(u)
        o += extra_props_imports
        for u in units:
            o += f"From SV Require Proofs.{s.prop}_{u}.\n"
        o += "Import ListNotations.\nLocal Open Scope R_scope.\n\n"
        for u, name, stmt in s.props:
            q = stmt
            o += f"Theorem {s.prop}_{name} :\n  {q}.\nProof. exact Proofs.{s.prop}_{u}.{name}. Qed.\nPrint Assumptions {s.prop}_{name}.\n\n"
        open(os.path.join(COQDIR, "Props", fname), "w").write(o)
