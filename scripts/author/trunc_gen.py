#!/usr/bin/env python3
"""Author helper: series-side theorems "series path = closed-form path with the trig.hpp kernels replaced by their Taylor
polynomials" for traced functions whose closed-form path contains the kernels syntactically.  The form is obtained from the
generated model by abstracting the kernel expressions (Coq `set`), printed, and pasted into the committed proof file.
usage: trunc_gen.py OUT.v  (edit SPECS below)"""
import os, re, subprocess, sys, tempfile
COQ = "/verif/coq"
KERN = {  # order matters: longer patterns first is not needed, `set` matches whole subterms
    # name -> (closed expression in th2/th, K name, T name, trunc lemma, bound exponent text)
    "A": ("1 / th2 - (1 + cos th) / (2 * th * sin th)", "K_A", "T_A", "KA_trunc", "0 <= {K} - {T} <= eps2 * eps2 / 25000"),
    "Q": ("sin (th / 2) / th", "K_Q", "T_Q", "Q_trunc", "0 <= {K} - {T} <= eps2 * eps2 / 3840"),
    "W": ("cos (th / 2)", "K_W", "T_W", "W_trunc", "0 <= {K} - {T} <= eps2 * eps2 / 384"),
    "C2": ("(cos th - 1) / th2", "K_cos2", "T_cos2", "cos2_trunc", "0 <= {K} - {T} <= eps2 * eps2 * eps2 / 40320"),
    "S3": ("(sin th - th) / (th2 * th)", "K_sin3", "T_sin3", "sin3_trunc", "0 <= {K} - {T} <= eps2 * eps2 * eps2 / 362880"),
    "C4": ("(cos th - 1 + th2 / 2) / (th2 * th2)", "K_cos4", "T_cos4", "cos4_trunc", "- (eps2 * eps2 * eps2 / 3628800) <= {K} - {T} <= 0"),
    "C6": ("(cos th - 1 + th2 / 2 - th2 * th2 / 24) / (th2 * th2 * th2)", "K_cos6", "T_cos6", "cos6_trunc", "0 <= {K} - {T} <= eps2 * eps2 * eps2 / 479001600"),
    "S5": ("(sin th - th + th2 * th / 6) / (th2 * th2 * th)", "K_sin5", "T_sin5", "sin5_trunc", "- (eps2 * eps2 * eps2 / 39916800) <= {K} - {T} <= 0"),
}
def coq(src):
    with tempfile.TemporaryDirectory() as d:
        open(os.path.join(d, "X.v"), "w").write(src)
        r = subprocess.run(["coqc", "-Q", COQ, "SV", "X.v"], cwd=d, stdout=subprocess.PIPE, stderr=subprocess.STDOUT, text=True)
        return r.stdout
def gen(spec):
    unit, fn, args, rot, pS, pC, cS, kerns, rtype = (spec[k] for k in ("unit", "fn", "args", "rot", "pS", "pC", "cS", "kerns", "rtype"))
    al = "[" + "; ".join(args) + "]"
    r0 = rot[0]; r1 = rot[1] if len(rot) == 3 else None; r2 = rot[2] if len(rot) == 3 else None
    th2a = f"{r0} * {r0} + ({r1} * {r1} + {r2} * {r2})" if len(rot) == 3 else f"{r0} * {r0}"
    th2n = f"{r0}*{r0} + {r1}*{r1} + {r2}*{r2}" if len(rot) == 3 else f"{r0}*{r0}"
    if kerns == "auto":
        probe = f"""From Coq Require Import Reals List Lra Lia.
From SV Require Import Base.GenPrelude Base.Mat Doc.Groups Base.Tactics Base.Trig Gen.{unit}.
Import ListNotations. Local Open Scope R_scope. Set Printing Width 10000000.
Goal forall {' '.join(args)} : R, {fn}_{pC} {al} = [].
Proof. intros. autounfold with {fn}_db. sv_unfold. set (th2 := {th2a}). set (th := sqrt th2).
  match goal with |- ?l = _ => idtac "RAW" l end. Abort."""
        raw = re.search(r"^RAW (.*)$", coq(probe), re.M).group(1)
        kerns = [k for k in KERN if KERN[k][0] in raw]
        spec["kerns"] = kerns
    sets = " ".join(f"set ({k} := {KERN[k][0]})." for k in kerns)
    src = f"""From Coq Require Import Reals List Lra Lia.
From SV Require Import Base.GenPrelude Base.Mat Doc.Groups Base.Tactics Base.Trig Gen.{unit}.
Import ListNotations. Local Open Scope R_scope. Set Printing Width 10000000.
Goal forall {' '.join(args)} : R, {fn}_{pC} {al} = [].
Proof. intros. autounfold with {fn}_db. sv_unfold. set (th2 := {th2a}). set (th := sqrt th2). {sets}
  match goal with |- ?l = _ => idtac "FORM" l end. Abort."""
    out = coq(src)
    m = re.search(r"^FORM (.*)$", out, re.M)
    assert m, out[-2000:]
    form = m.group(1)
    assert "sin" not in form and "cos" not in form and "th" not in form, "kernels not fully abstracted: " + form[:300]
    ks = " ".join(kerns)
    Ts = " ".join(f"({KERN[k][2]} th2)" for k in kerns)
    Ks = " ".join(f"({KERN[k][1]} th)" for k in kerns)
    bounds = " /\\\n  ".join(KERN[k][4].format(K=f"{KERN[k][1]} th", T=f"{KERN[k][2]} th2") for k in kerns)
    unfT = ", ".join(KERN[k][2] for k in kerns)
    unfK = ", ".join(KERN[k][1] for k in kerns)
    nb = len(kerns)
    bproofs = ""
    for k in kerns:
        bproofs += f"  - pose proof ({KERN[k][3]} th (conj Hth Hle1)) as [L U]. rewrite Hsq in L, U. rewrite ?H6, ?H4 in *. lra.\n"
    splits = "split; [|" * (2 + nb) + "]" * (2 + nb)
    lem = f"""
Definition {fn}_form ({ks} {' '.join(args)} : R) : {rtype} :=
  {form}.

Lemma {fn}_trunc {' '.join(args)} :
  0 < {th2n} < eps2 ->
  let th2 := {th2n} in let th := sqrt th2 in
  Gen.{unit}.{fn}_{pS} {al} = {fn}_form {Ts} {' '.join(args)} /\\
  Gen.{unit}.{fn}_{pC} {al} = {fn}_form {Ks} {' '.join(args)} /\\
  Gen.{unit}.{fn}_{cS} {al} /\\
  {bounds}.
Proof.
  intros [Hpos Hsmall] th2 th. pose proof eps2_pos as He0. assert (He1 : eps2 < 1 / 99999999) by apply eps2_small.
  assert (Hassoc : {th2a} = th2) by (unfold th2; ring).
  assert (Hth : 0 < th) by (apply sqrt_lt_R0; assumption).
  assert (Hsq : th * th = th2) by (apply sqrt_sqrt; unfold th2; lra).
  assert (Hle1 : th <= 1) by (unfold th; rewrite <- sqrt_1; apply sqrt_le_1_alt; lra).
  assert (Hsin : 0 < sin th) by (apply sin_pos_small; split; assumption).
  assert (Hth222 : th2 * th2 * th2 <= eps2 * eps2 * eps2) by (apply Rmult_le_compat; [nra | lra | apply Rmult_le_compat; lra | lra]).
  assert (H6 : th^6 = th2 * th2 * th2) by (rewrite <- Hsq; ring).
  assert (H4 : th^4 = th2 * th2) by (rewrite <- Hsq; ring).
  assert (Hth22 : th2 * th2 <= eps2 * eps2) by (apply Rmult_le_compat; lra).
  {splits}.
  - autounfold with {fn}_db. unfold {fn}_form, {unfT}. sv_unfold. rewrite ?Hassoc. list_eq; field.
  - autounfold with {fn}_db. unfold {fn}_form, {unfK}. sv_unfold. rewrite ?Hassoc. fold th. rewrite <- Hsq.
    list_eq; field; lra.
  - autounfold with {fn}_db. sv_unfold. rewrite ?Hassoc. unfold eps2 in *. repeat split; lra.
{bproofs}Qed.
"""
    thm = f"""Theorem {spec['prop']}_{fn}_trunc : forall {' '.join(args)},
  0 < {th2n} < eps2 ->
  let th2 := {th2n} in let th := sqrt th2 in
  Gen.{unit}.{fn}_{pS} {al} = Proofs.{spec['file']}.{fn}_form {Ts} {' '.join(args)} /\\
  Gen.{unit}.{fn}_{pC} {al} = Proofs.{spec['file']}.{fn}_form {Ks} {' '.join(args)} /\\
  Gen.{unit}.{fn}_{cS} {al} /\\
  {bounds}.
Proof. exact Proofs.{spec['file']}.{fn}_trunc. Qed.
Print Assumptions {spec['prop']}_{fn}_trunc.
"""
    return lem, thm
if __name__ == "__main__":
    import json
    specs = json.load(open(sys.argv[1]))
    lemmas, thms = [], []
    for sp in specs["specs"]:
        l, t = gen(sp)
        lemmas.append(l); thms.append(t)
    units = sorted(set(sp["unit"] for sp in specs["specs"]))
    hdr = f"""(* {specs['title']}
   Written with scripts/author/trunc_gen.py (committed output; the check builds this file against the regenerated Gen).
   For each function: `f_form` is the closed-form path of the traced function with the detail/trig.hpp kernel expressions
   abstracted; the series path is the same expression with the kernels replaced by their Taylor polynomials, and the kernel
   values differ by the bounds of Base/Kernels.v.  A changed series coefficient or switch breaks an equation. *)
From Coq Require Import Reals List Lra Lia.
From SV Require Import Base.GenPrelude Base.Mat Doc.Groups Base.Tactics Base.Trig Base.Kernels Base.KernelQ Base.KernelA.
From SV Require {' '.join('Gen.' + u for u in units)}.
Import ListNotations.
Local Open Scope R_scope.
"""
    open(os.path.join(COQ, "Proofs", specs["file"] + ".v"), "w").write(hdr + "".join(lemmas))
    phdr = f"""(* {specs['title']}: property theorems only. *)
From Coq Require Import Reals List Lra.
From SV Require Import Base.GenPrelude Base.Mat Base.Trig Base.Kernels Base.KernelQ Base.KernelA Doc.Groups.
From SV Require {' '.join('Gen.' + u for u in units)}.
From SV Require Proofs.{specs['file']}.
Import ListNotations.
Local Open Scope R_scope.

"""
    open(os.path.join(COQ, "Props", specs["props"] + ".v"), "w").write(phdr + "\n".join(thms))
    print("wrote", specs["file"], specs["props"])
