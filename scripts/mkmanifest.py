#!/usr/bin/env python3
"""Regenerates MANIFEST.json from scripts/propdefs.py (claimed checks) and properties.jsonl."""
import json, os, sys
sys.path.insert(0, os.path.dirname(os.path.abspath(__file__)))
from propdefs import PROPS, MANIFEST_TEXT
READY = [l.strip() for l in open(os.path.join(os.path.dirname(os.path.abspath(__file__)), 'ready.txt')) if l.strip() and not l.startswith('#')]
V = os.path.dirname(os.path.dirname(os.path.abspath(__file__)))
props = [json.loads(l) for l in open(os.path.join(V, "properties.jsonl"))]
checks, na = [], []
for p in props:
    pid = p["id"]
    if pid in PROPS and pid in MANIFEST_TEXT and pid in READY:
        t = MANIFEST_TEXT[pid]
        checks.append({
            "property_id": pid,
            "quick_cmd": f"./check {pid} --tier quick",
            "thorough_cmd": f"./check {pid} --tier thorough",
            "evidence_file": f"/verif/evidence/{pid}.json",
            "replay_cmd_template": f"./check {pid} --replay {{path}}",
            "engine": t.get("engine", "coq-proof"),
            "level_claimed": {"category": "proof", "text": t["text"], "design_ref": t.get("design_ref", "DESIGN.md section 5")},
            "level_note": t["note"],
            "technique": t["technique"],
        })
    else:
        na.append({"property_id": pid, "reason": "check not built yet (work in progress; see DESIGN.md section 5)"})
m = {
    "version": 1,
    "setup_cmd": "./setup.sh",
    "hooks": {
        "guard": "PETTNI_SMOOTH_VERIF",
        "enable": "-DPETTNI_SMOOTH_VERIF on the tracer compile lines (scripts/vlib.py CXXFLAGS); header-only library, nothing else to rebuild",
        "baseline_off_cmd": "cmake --build /repo/_build && ctest --test-dir /repo/_build -j8 --timeout 900",
        "source_commits": ["7b215c5"],
        "add_only": True,
    },
    "engines": [
        {"name": "coq-proof", "path": "/verif/coq", "serves_properties": [c["property_id"] for c in checks],
         "kind_free_text": "Coq 8.16 theorems over (A) a model regenerated from /repo's headers on every run by instantiating them with a symbolic scalar (tracer/) and (B) hand-written executable Gallina models tied by correspondence runs (extract/, harness/)"},
    ],
    "checks": checks,
    "notes": "All checks: ./check <id> --tier quick|thorough (python3 driver; see DESIGN.md section 2.2). Known findings and fixed entries: /verif/known_findings.jsonl and /verif/known_findings.d/*.jsonl. Seeded breaking changes used to test the checks: /verif/seeded/ (DESIGN.md section 11).",
    "not_applicable": na,
}
json.dump(m, open(os.path.join(V, "MANIFEST.json"), "w"), indent=1)
print("checks:", [c["property_id"] for c in checks], "not claimed:", [x["property_id"] for x in na])
