#!/usr/bin/env python3
"""Warm the caches: build every tracer unit / harness and the whole Coq development once."""
import os, sys, glob
sys.path.insert(0, os.path.dirname(os.path.abspath(__file__)))
import vlib
from propdefs import PROPS
units, harn, targets = [], [], []
for pid, cfg in PROPS.items():
    for u in cfg.get("tracer_units", []):
        if u not in units:
            units.append(u)
    for t in cfg.get("coq_targets", []) + cfg.get("coq_targets_thorough", []):
        if t not in targets:
            targets.append(t)
with vlib.Lock():
    s, probs = vlib.run_tracers(units, 1)
    for p in probs:
        print("prebuild problem:", p.get("kind"), p.get("unit"), file=sys.stderr)
    for pid, cfg in PROPS.items():
        for g in cfg.get("generators", []):
            g(1, "quick")
    for pid, cfg in PROPS.items():
        for h in cfg.get("harnesses", []):
            b, log = vlib.build_one_cxx(os.path.join(vlib.VERIF, "harness", h["name"] + ".cpp"), h["name"], h.get("flags", []))
            if b is None:
                print("prebuild problem: harness", h["name"], log[-500:], file=sys.stderr)
    ok, log, secs = vlib.coq_make(targets)
    print("coq prebuild ok=%s in %.0fs" % (ok, secs))
    if not ok:
        print(log[-3000:])
sys.exit(0)
