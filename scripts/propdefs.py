"""Per-property configuration of the checks (what to translate, what to prove, what to run)."""

GROUP_UNITS = ["SO2", "SO3", "SE2", "SE3", "C1", "Galilei", "SEK3_1", "SEK3_2", "SEK3_3"]

from tb import TB_COMMON

PROPS = {
    "C01": dict(
        tracer_units=GROUP_UNITS,
        coq_targets=["Props/Properties_C01.vo"],
        props_files=["Props/Properties_C01.v"],
        cone=["Proofs/C01_*.v", "Props/Properties_C01.v"],
        harnesses=[dict(name="h_c01")],
        trusted_base=TB_COMMON + ["harness/h_c01.cpp + docmat.hpp: long-double oracle of the documented matrices (accuracy clause and failing-input search)"],
        assumptions=["floating-point rounding is not modelled by the R-model; the 1e-12/1e-5 clause is checked by the long-double harness on stratified inputs, not proved"],
    ),
    "C02": dict(
        tracer_units=GROUP_UNITS + ["Trig"],
        coq_targets=["Props/Properties_C02.vo", "Props/Properties_C02t.vo", "Props/Properties_C02l.vo", "Props/Properties_C02k.vo", "Props/Properties_C02k2.vo"],
        coq_targets_thorough=["Props/Properties_C02x.vo", "Props/Properties_C02lx.vo"],
        props_files=["Props/Properties_C02.v", "Props/Properties_C02t.v", "Props/Properties_C02l.v", "Props/Properties_C02k.v", "Props/Properties_C02k2.v"],
        props_files_thorough=["Props/Properties_C02x.v", "Props/Properties_C02lx.v"],
        cone=["Proofs/C02_*.v", "Props/Properties_C02*.v", "Doc/Exp.v", "Base/Kernels.v", "Base/KernelQ.v", "Base/KernelL.v", "Base/AtanEncl.v", "Base/Trig.v"],
        harnesses=[dict(name="h_c02")],
        trusted_base=TB_COMMON + ["Doc/Exp.v: hand-written closed-form flows t |-> Phi_a(t) (Rodrigues etc.), proved in Coq to solve Phi' = Phi hat(a), Phi(0)=I; `is_mexp` = value at 1 of such a curve (uniqueness of the ODE solution is classical and not formalised)",
                                  "harness/h_c02.cpp + docmat.hpp: long-double scaling-and-squaring Taylor oracle for expm(hat a)"],
        assumptions=["rounding is not modelled: the 1e-9/1e-3 accuracy clause and the log round trips are decided by the oracle harness on stratified inputs",
                     "log: range and both exact round trips are theorems for SO2 and C1 (unconditional), SO3 and SE2 (closed-form branches of exp and log; SO3 on the canonical hemisphere qw >= 0; SE2 for angles strictly inside (-pi, pi); SE3 both round trips in the thorough tier for angles below pi); the series branches of SE2 log and SO3 log are proved to be the closed-form branches with the kernel replaced by its series ((th/2)/tan(th/2) vs 1 - th^2/12, difference <= th^4/600; 2 atan2(n,w)/n vs 2/w - 2n^2/(3w^3), difference <= 2n^4/(5w^5), from an atan enclosure proved with the mean value theorem); the other series branches of log, Galilei/SE_K_3 log and the behaviour at exactly pi are decided by the harness; truncation theorems are at kernel level (trig.hpp) and at function level for the exp of SO3, SE2, SE3, Galilei and SE_K_3<1..3> (rotation and translation parts: series path = closed-form path with the kernels replaced by their Taylor polynomials, kernel differences bounded)"],
    ),
    "C06": dict(
        tracer_units=["SO2", "SO3", "SE2", "SE3", "SE3H", "C1", "Rn", "BA", "BB", "BC", "BD", "BEi", "BE", "BF", "BG"],
        coq_targets=["Props/Properties_C06.vo"],
        coq_targets_thorough=["Props/Properties_C06x.vo"],
        props_files=["Props/Properties_C06.v"],
        props_files_thorough=["Props/Properties_C06x.v"],
        cone=["Proofs/C06_*.v", "Props/Properties_C06*.v"],
        harnesses=[dict(name="h_c06")],
        trusted_base=TB_COMMON + ["harness/h_c06.cpp: bundle-vs-parts equality on the real double instantiation for 11 compositions (5 of them not traced) and vector/scalar additive-group checks"],
        assumptions=["'every composition': theorems cover the traced pool (8 compositions incl. nesting/repetition/commutative members T1xC1xSO2; 2 of them in the thorough tier); further compositions only by the harness pool",
                     "matrix()/hat() of Bundles are not traced (Eigen-vector members have no class API); the direct-product matrix form follows from C01 per part"],
    ),
    "C17": dict(
        tracer_units=["Conv", "SO2", "SO3", "SE3", "SEK3_1", "SEK3_2", "Galilei"],
        coq_targets=["Props/Properties_C17.vo", "Props/Properties_C17b.vo"],
        props_files=["Props/Properties_C17.v", "Props/Properties_C17b.v"],
        cone=["Proofs/C17_*.v", "Props/Properties_C17*.v", "Base/Atan2.v"],
        harnesses=[dict(name="h_c17")],
        trusted_base=TB_COMMON + ["Base/GenPrelude.v: definition of atan2 over R (no signed zeros); Base/Atan2.v its proved properties",
                                  "harness/h_c17.cpp: relations/conversions on the real library incl. signed zeros, +-1, +-pi/2 and neighbouring values, Euler angles"],
        assumptions=["signed zeros do not exist in the R-model: inputs differing only in the sign of zero are covered by the harness stream only",
                     "Euler-angle conversion (Eigen::eulerAngles) and SE3(isometry) are covered by the harness only; SE_K_3<2> exp/log embedding is proved on the closed-form paths (via C02) and by harness elsewhere"],
    ),
    "C04": dict(
        tracer_units=["SO3", "SE2", "SE3", "Galilei", "SEK3_1", "SEK3_2", "SEK3_3"],
        coq_targets=["Props/Properties_C04.vo", "Props/Properties_C04t.vo", "Props/Properties_C04k.vo", "Props/Properties_C04k2.vo"],
        coq_targets_thorough=["Props/Properties_C04x.vo"],
        props_files=["Props/Properties_C04.v", "Props/Properties_C04t.v", "Props/Properties_C04k.v", "Props/Properties_C04k2.v"],
        props_files_thorough=["Props/Properties_C04x.v"],
        cone=["Proofs/C04_*.v", "Props/Properties_C04*.v", "Base/KernelA.v", "Base/Kernels.v"],
        harnesses=[dict(name="h_c04")],
        trusted_base=TB_COMMON + ["Coquelicot's is_derive / auto_derive; Doc/Exp.v flows (proved to be the matrix exponential in the ODE sense, C02)",
                                  "harness/h_c04.cpp + jacoracle.hpp: long-double oracle Jr(a) = int_0^1 expm(-s ad_a) ds and its inverse; action Jacobian from documented matrices"],
        assumptions=["theorems cover the closed-form paths of SO3, SE2 (quick) and SE3 (thorough): inverse relation, right-Jacobian by definition, left variant; for dr_exp and dl_exp of all seven non-commutative groups (kernels of trig.hpp) and for dr_expinv of SO3 and SE2 the series path and the closed-form path are proved to be the same matrix polynomial in the kernel value A, with |K_A(theta) - (1/12 + theta^2/720)| <= 4e-21 below the switch (Base/KernelA.v, from the stdlib alternating-series enclosures); Galilei/SE_K_3, the other series paths, the series identity sum (-1)^k ad^k/(k+1)!, dr_action and dr_rminus* are decided by the oracle harness",
                     "rounding is not modelled"],
    ),
    "C11": dict(
        tracer_units=["CS", "SO3", "SE2"],
        coq_targets=["Props/Properties_C11.vo"],
        props_files=["Props/Properties_C11.v"],
        cone=["Proofs/C11_*.v", "Props/Properties_C11.v"],
        harnesses=[dict(name="h_c11")],
        trusted_base=TB_COMMON + ["Coquelicot's is_derive / auto_derive",
                                  "harness/h_c11.cpp: long-double oracle g(u) = prod_j expm(B~_j(u) hat(v_j)), body velocity/acceleration/jerk and the Jacobians by Richardson-extrapolated central differences"],
        assumptions=["theorems: vector spaces K=1..4 for every basis matrix and every u (value, velocity, acceleration, jerk as successive derivatives); value = product of the library's own exp/composition (themselves C01/C02) for SO3 K=1 and SE2 K=2 incl. the basis-scalar evaluation; derivative outputs and Jacobians on non-commutative groups, K up to 6, cspline_eval_gs and dg_dgs are decided by the oracle harness",
                     "rounding is not modelled"],
    ),
    "C05": dict(
        tracer_units=["SO3", "SE2"],
        coq_targets=["Props/Properties_C05.vo", "Props/Properties_C05t.vo"],
        props_files=["Props/Properties_C05.v", "Props/Properties_C05t.v"],
        cone=["Proofs/C05_*.v", "Props/Properties_C05*.v", "Base/KernelH.v"],
        harnesses=[dict(name="h_c05")],
        trusted_base=TB_COMMON + ["Coquelicot's is_derive / auto_derive (library proofs)",
                                  "harness/h_c05.cpp + jacoracle.hpp: long-double oracle Jr(a) = int_0^1 expm(-s ad_a) ds (composite Gauss-Legendre), Hessians by Richardson-extrapolated central differences; polynomial matrix functions with exact derivatives for d_matrix_product / d2_fog"],
        assumptions=["theorems cover the closed-form paths of SO3 and SE2 (Hessian = derivative of the traced Jacobian, entry by entry, documented layout); for SE2 and SO3 d2r_exp the series path and the closed-form path are proved to be the same table in the four kernel values with the kernels within z^4/720, z^4/5040+1e-17, |z|^3/170, |z|^3/1200 of their series (Base/KernelH.v); SE3, the other series paths, d2l_*, d_matrix_product, d2_fog, d2r_rminus* are decided by the oracle harness; Bundles by C06's placement theorem",
                     "rounding is not modelled"],
    ),
    "C03": dict(
        tracer_units=GROUP_UNITS,
        coq_targets=["Props/Properties_C03.vo", "Props/Properties_C03e.vo"],
        coq_targets_thorough=["Props/Properties_C03x.vo"],
        props_files=["Props/Properties_C03.v", "Props/Properties_C03e.v"],
        props_files_thorough=["Props/Properties_C03x.v"],
        cone=["Proofs/C03_*.v", "Props/Properties_C03*.v"],
        harnesses=[dict(name="h_c03")],
        trusted_base=TB_COMMON + ["harness/h_c03.cpp + docmat.hpp: long-double oracle (conjugation by documented matrices, commutators, scaling-and-squaring matrix exponential)"],
        assumptions=["Ad(exp a) = expm(ad a): theorem in ODE form (is_mexp: Ad of the C02 flow solves Phi' = Phi ad(a), Phi(0) = I, Phi(1) = traced Ad(traced exp a)) for SO3 and SE2, SE3 in the thorough tier, closed-form paths of exp; the other groups, the series paths and rounding are decided by the harness"],
    ),
}

MANIFEST_TEXT = {
    "C11": dict(
        technique="Coq proof over the regenerated model of cspline_eval_vs (symbolic control differences, symbolic basis matrix, symbolic u): polynomial identities and Coquelicot derivatives for vector spaces; path-matching decomposition of the value into the library's traced exp/composition; translator validation; long-double spline oracle harness",
        text="Traced with symbolic basis matrix (so every basis) and symbolic u: for vector-space splines of degree K=1..4 the value is sum_j B~_j(u) v_j with B~_j(u) = sum_r u^r B[r][j], and the velocity, acceleration and jerk outputs are the first, second and third derivatives with respect to u (machine-checked with is_derive for every u); the scalars B~_j(u) the code feeds to exp are proved to be those polynomials; for SO3 (K=1) and SE2 (K=2) the value is proved, path by path (infeasible paths discharged), to be the composition of the library's own traced exp(B~_j(u) v_j) - which C01/C02 prove to be the matrix product / exponential. Non-commutative derivative outputs, K up to 6, cspline_eval_gs and the Jacobians dg_dvs / dvel_dvs / dacc_dvs / dg_dgs / dvel_dgs are checked against an independent long-double oracle for SO3, SE2, SE3, SO2, Bernstein and B-spline bases, u incl. 0, 1, 2^-k.",
        note="Trusted: Coq kernel, Coquelicot; translator (validated each run); rounding not modelled; the acceleration/jerk recursions on non-commutative groups are oracle-checked only.",
        design_ref="DESIGN.md section 5 C11",
    ),
    "C04": dict(
        technique="Coq proof over the regenerated model: Coquelicot auto_derive of the (proved) exponential flow w.r.t. every tangent coordinate equals flow * hat(column of the traced dr_exp) - the defining relation of the right Jacobian; field proofs that the traced dr_expinv is its inverse and dl_exp = Ad(exp) dr_exp; series-side theorems by kernel abstraction with proved kernel enclosures; translator validation; long-double integral oracle harness",
        text="For SO3, SE2 (and SE3 in the thorough tier) and every tangent vector on the closed-form side of the switch: machine-checked that d/da_k exp(a) = exp(a) hat(dr_exp(a) e_k) entry by entry (exp(a) being the flow that C02 proves equal to the traced exp and to be the matrix exponential), that the traced dr_expinv is the two-sided matrix inverse of the traced dr_exp (sin theta <> 0), and that dl_exp(a) = Ad(exp a) dr_exp(a) across both sign-canonicalisation outcomes. The regenerated model makes any changed coefficient or sign in calc_S1/cos_2/sin_3/calculate_q break an obligation. Below the switch the series paths of dr_exp and dl_exp (SO3, SE2, SE3, Galilei, SE_K_3<1..3>) are proved to be the closed-form paths with the trig.hpp kernels replaced by their Taylor polynomials (differences <= 1e-28), and the series path of dr_expinv (SO3, SE2) is proved to be the same matrix polynomial as the closed-form path with the kernel 1/t^2-(1+cos t)/(2t sin t) replaced by 1/12+t^2/720, the two differing by at most 4e-21 (kernel enclosure proved from the alternating series of sin and cos). All groups, float/double, the remaining series branches, dr_action, dr_rminus and dr_rminus_squarednorm are checked against an independent long-double oracle Jr(a)=int_0^1 expm(-s ad a) ds on stratified inputs.",
        note="Trusted: Coq kernel, Coquelicot; translator (validated each run); rounding not modelled. Known findings C04-K1-* (cancellation just above the switch; Galilei double, dr_rminus_squarednorm, single precision).",
        design_ref="DESIGN.md section 5 C04",
    ),
    "C05": dict(
        technique="Coq proof over the regenerated model: Coquelicot auto_derive of every entry of the traced closed-form dr_exp / dr_expinv w.r.t. every tangent coordinate equals the corresponding entry of the traced d2r_exp / d2r_expinv in the documented stacked layout (field with trig atoms); series-side theorems for d2r_exp by kernel abstraction with proved kernel enclosures; translator validation; long-double Richardson oracle harness",
        text="For SO3 and SE2 and every tangent vector on the closed-form side of the switch: machine-checked that (d2r_exp a)[j][Dof*i+k] is the derivative of (dr_exp .)[i][j] with respect to a_k, and likewise d2r_expinv for dr_expinv (sin theta <> 0), for all 27+27 entries and both groups - i.e. the hand-expanded Hessian tables are the true second-order derivatives of the coded Jacobians in the documented layout; the closed-form path of each traced function is pinned by a lemma. The regenerated model makes any changed coefficient, sign or slot in either table break an obligation. Below the switch the series path of SE2 and SO3 d2r_exp is proved to be the same table (SE2: documented 3x9 table; SO3: the closed-form path with its kernels abstracted) as the closed-form path with the four kernels (1-cos z)/z^2, (z-sin z)/z^3 and their derivatives replaced by the Taylor polynomials the code uses (incl. the binary64 literal 1./6), the kernels differing by at most 1e-17-scale bounds (enclosures proved from the alternating series) - the kind of obligation that the repaired -wz/48 coefficient violates. SE3 (216-entry table), the other series branches, the left variants and the generic helpers d_matrix_product / d2_fog are decided by the oracle harness (polynomial maps with exact derivatives; Richardson differences of an independent Jacobian oracle).",
        note="Trusted: Coq kernel, Coquelicot; translator (validated each run); rounding not modelled. A defect found by this check (SE2 small-angle coefficient -wz/48) was repaired in /repo (fix: eb34743). Known finding C05-K1 (cancellation just above the switch).",
        design_ref="DESIGN.md section 5 C05",
    ),
    "C17": dict(
        technique="Coq proof over the regenerated model (ring/field identities, path matching, a proved atan2 library, interval arithmetic for the binary64 value of pi) + translator validation + harness on the real library incl. branch cuts and signed zeros",
        text="Machine-checked for all elements: every traced operation of SE_K_3<1> is the same relation as SE3's (path by path); under the embedding (p1,p2,q)->(v,p,tau=0,q) SE_K_3<2> composition/inverse/identity/Ad/ad/dr_exp/dr_expinv are Galilei's restricted to the zero-time subgroup/subalgebra and exp agrees on the closed-form paths; lift_so3 gives a valid canonical SO3 element with matrix diag(mat g,1) and project_so2 inverts it; C1 = scaling * so2 with scaling>0; rot_x/y/z(t) are valid, canonical and equal the axis rotation matrices for all t; the quaternion constructor normalises, picks q_w>=0 and keeps the direction; angle() in (-pi,pi] reproduces the element, angle_cw() in [-2pi,0] and angle_ccw() in [0,2pi], all congruent mod 2pi (with the code's binary64 pi: slack 2e-15). The model is regenerated every run.",
        note="Trusted: Coq kernel, Coquelicot, Coq-Interval (two numeric facts about pi); translator (validated each run); R has no signed zero (harness covers). A defect found by this check (angle_cw returned +pi at the half turn) was repaired in /repo (fix: d2551ca).",
        design_ref="DESIGN.md section 5 C17",
    ),
    "C06": dict(
        technique="Coq proof over the regenerated model: traced Bundle operation = concatenation / block-diagonal / stacked-Hessian arrangement of the separately traced part operations on the part<i>() segments (path-matching + reflexivity); Eigen vectors and scalars proved additive; translator validation; bundle-vs-parts harness",
        text="For a pool of Bundle compositions (SO3xT3, T2xSE2, SE2xSO3xT1xSO2, SO3xSO3, SO2xT2, T1xC1xSO2, (SO2xT2)xSE3, C1xSE3) traced through the generic LieGroup interface: machine-checked that composition/inverse/log/exp/identity equal the concatenation of the same traced operation of each part on its segment (on every path, paths matched), Ad/ad/dr_exp/dr_expinv equal the block-diagonal arrangement, d2r_exp/d2r_expinv equal the documented stacked-Hessian placement, and part<i>() views the segment at the prefix sum of the RepSizes. For Eigen::Vector<N> (N=1..4), VectorX (n=0,1,3,5) and the scalar type: composition = +, inverse = -, exp = log = id, Ad = dr_exp = dr_expinv = I, ad = 0, Hessians = 0. Offsets are baked into the regenerated model, so a wrong prefix sum or block placement breaks reflexivity.",
        note="Trusted: Coq kernel; translator (validated each run); 'every composition' is a pool of traced instances plus further compositions in the harness.",
        design_ref="DESIGN.md section 5 C06",
    ),
    "C02": dict(
        technique="Coq proof over the regenerated model: traced exp (closed-form path) = hand-written flow Phi_a(1), flows proved to solve the matrix ODE with Coquelicot; series paths proved equal to the closed-form paths with the kernels replaced by their Taylor polynomials (kernel abstraction) and kernel truncation bounds from stdlib alternating-series enclosures; log range and round trips by field/atan2 lemmas; translator validation; long-double expm oracle harness",
        text="For SO2, SO3, SE2, SE3, C1, Galilei, SE_K_3<1..3>: machine-checked that on every closed-form path of the traced exp (rotation norm^2 > eps2, both sign-canonicalisation outcomes) the documented matrix of the result equals the textbook closed-form flow at t=1 and satisfies the representation constraint; that each flow solves Phi'=Phi hat(a), Phi(0)=I for all t (so exp(a) is the matrix exponential, `is_mexp`); that rotation-free tangents are exact on the series path; and that on 0<x^2<=eps2 the series and closed-form paths of every detail/trig.hpp kernel differ by <=1e-24-scale bounds, and the series path of the whole exp function of SO3, SE2, SE3, Galilei, SE_K_3<1..3> (rotation and translation/velocity parts) is the closed-form path with each kernel replaced by its Taylor polynomial (kernels abstracted from the regenerated model). Log: for SO2 and C1 (all inputs), SO3 and SE2 (closed-form branches) the principal range / norm <= pi, exp(log g) = g and log(exp a) = a (rotation norm below pi) are machine-checked coefficient-wise over the traced log and exp. A changed coefficient, Taylor order, threshold or block breaks an obligation. The remaining log cases and the floating-point accuracy clause by oracle harness (stratified incl. both sides of the switch, near pi, norms to 50).",
        note="Trusted: Coq kernel + Coquelicot; translator (validated each run); hand-written flows; uniqueness of ODE solutions not formalised; rounding not modelled. Known findings C02-K1 (Galilei exp just above the switch).",
        design_ref="DESIGN.md section 5 C02",
    ),
    "C03": dict(
        technique="Coq proof over the regenerated model (ring/field identities against documented hat/matrix forms) + translator validation + long-double oracle harness",
        text="Machine-checked theorems for SO2, SO3, SE2, SE3, C1, Galilei, SE_K_3<1..3>, for all elements/tangents: traced hat = documented algebra matrix, vee(hat a)=a and hat(vee A)=A on the algebra, linearity, hat(Ad_g a) mat(g) = mat(g) hat(a) (the conjugation definition; mat(g) invertible by C01), hat(ad_a b) = [hat a, hat b], lie_bracket = ad a * b (incl. the commutative short-cuts of the base class), antisymmetry, Jacobi, Ad(g1 g2)=Ad(g1)Ad(g2). Regenerated model: any changed entry/sign/block of Ad/ad/hat/vee breaks a ring obligation. Ad(exp a) is the matrix exponential of ad(a) (ODE characterisation through the C02 flows) for SO3 and SE2 (SE3 in the thorough tier) on the closed-form paths of exp; for the remaining groups and the series paths by oracle harness.",
        note="Trusted: Coq kernel; translator (validated each run); hand-transcribed documented forms; Galilei Ad is traced through the guarded hook (Scalar t instead of double t) and the double build is compared by the harness. Known finding C03-K1 (inherits C02-K1).",
        design_ref="DESIGN.md section 5 C03",
    ),
    "C01": dict(
        technique="Coq proof over a model regenerated from the headers (symbolic-scalar translator) + translator validation + long-double oracle harness",
        text="Machine-checked theorems (Coq 8.16) that for SO2, SO3, SE2, SE3, C1, Galilei, SE_K_3<1..3> the traced composition/inverse/identity/matrix/action code equals multiplication/inversion/application of the documented matrices for ALL valid coefficient vectors and on every path of the code (incl. both outcomes of SO3's sign canonicalisation and Eigen's quaternion-inverse branch). The model is regenerated from /repo's headers on every run; a changed coefficient, sign, index or block breaks a ring/field obligation. Accuracy clause (1e-12/1e-5) by long-double oracle on stratified inputs (not a theorem).",
        note="Trusted: Coq kernel; the translator (validated each run by binary64 replay against the real instantiation on 400 stratified inputs per function); the hand-transcribed documented matrices; real-number semantics (rounding not modelled). Bundles are covered under C06.",
        design_ref="DESIGN.md section 5 C01",
    ),
}


# per-property modules scripts/props_Cxx.py contribute CFG (check configuration) and TEXT (manifest wording)
import glob as _glob, importlib as _importlib, os as _os
for _f in sorted(_glob.glob(_os.path.join(_os.path.dirname(_os.path.abspath(__file__)), "props_C*.py"))):
    _name = _os.path.basename(_f)[:-3]
    _pid = _name.split("_", 1)[1]
    try:
        _m = _importlib.import_module(_name)
        _cfg = _m.CFG
    except Exception as _e:  # a module still being written must not break the other checks
        import sys as _sys
        print(f"propdefs: skipping {_name}: {_e!r}", file=_sys.stderr)
        continue
    PROPS[_pid] = _cfg
    if hasattr(_m, "TEXT"):
        MANIFEST_TEXT[_pid] = _m.TEXT
