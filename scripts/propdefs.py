"""Per-property configuration of the checks (what to translate, what to prove, what to run)."""

GROUP_UNITS = ["SO2", "SO3", "SE2", "SE3", "C1", "Galilei", "SEK3_1", "SEK3_2", "SEK3_3"]

TB_COMMON = [
    "Coq 8.16.1 kernel incl. its vm_compute machine; no native_compute; full .vo build (no -vos)",
    "Engine A translator: tracer/sym.hpp + emit.hpp (operator overloads, exact constant folding of integer +,-,*, sign normalisation of products, relation store, path enumeration, Coq emitter) and g++ instantiating the same template source for the symbolic scalar as for float/double - validated every run by replaying each DAG in binary64 against the real instantiation",
    "Doc/Groups.v: documented matrix / algebra forms transcribed by hand from the header comments",
]

PROPS = {
    "C01": dict(
        tracer_units=GROUP_UNITS,
        coq_targets=["Props/Properties_C01.vo"],
        props_files=["Props/Properties_C01.v"],
        cone=["Proofs/C01_*.v", "Props/Properties_C01.v"],
        harnesses=[dict(name="h_c01")],
        trusted_base=TB_COMMON + ["harness/h_c01.cpp + docmat.hpp: long-double oracle of the documented matrices (accuracy clause and failing-input search)"],
        assumptions=["floating-point rounding is not modelled by the R-model; the 1e-12/1e-5 clause is checked by the long-double harness on stratified inputs, not proved"],
    ),
}

MANIFEST_TEXT = {
    "C01": dict(
        technique="Coq proof over a model regenerated from the headers (symbolic-scalar translator) + translator validation + long-double oracle harness",
        text="Machine-checked theorems (Coq 8.16) that for SO2, SO3, SE2, SE3, C1, Galilei, SE_K_3<1..3> the traced composition/inverse/identity/matrix/action code equals multiplication/inversion/application of the documented matrices for ALL valid coefficient vectors and on every path of the code (incl. both outcomes of SO3's sign canonicalisation and Eigen's quaternion-inverse branch). The model is regenerated from /repo's headers on every run; a changed coefficient, sign, index or block breaks a ring/field obligation. Accuracy clause (1e-12/1e-5) by long-double oracle on stratified inputs (not a theorem).",
        note="Trusted: Coq kernel; the translator (validated each run by binary64 replay against the real instantiation on 400 stratified inputs per function); the hand-transcribed documented matrices; real-number semantics (rounding not modelled). Bundles are covered under C06.",
        design_ref="DESIGN.md section 5 C01",
    ),
}


# per-property modules scripts/props_Cxx.py contribute CFG (check configuration) and TEXT (manifest wording)
import glob as _glob, importlib as _importlib, os as _os
for _f in sorted(_glob.glob(_os.path.join(_os.path.dirname(_os.path.abspath(__file__)), "props_C*.py"))):
    _name = _os.path.basename(_f)[:-3]
    _m = _importlib.import_module(_name)
    _pid = _name.split("_", 1)[1]
    PROPS[_pid] = _m.CFG
    if hasattr(_m, "TEXT"):
        MANIFEST_TEXT[_pid] = _m.TEXT
