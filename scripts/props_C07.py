"""C07 - Manifold axioms hold for every Manifold model.
Check configuration (CFG), manifest wording (TEXT) and the Engine-B correspondence runner (corr).

corr: harness/h_c07.cpp generates programs over a register file of manifold objects of every adaptor kind at the base
manifold Q^n, runs them on the real library and checks every result against its own integer oracle; the extracted
Coq model (extract/C07) runs the same programs; the two traces must be identical line by line.
The model has one boolean: the argument order of traits::man<SubManifold>::cast (false = as on the unchanged tree:
origin/value swapped, true = after notes/C07-cast.patch).  The runner accepts exactly these two behaviours and
reports which one the tree has; with the swapped one the harness' oracle failures (signature m0_m_swapped) are the
known finding C07-cast."""
import json, os, subprocess, tempfile

import vlib
from vlib import VERIF


def _programs(lines):
    """split the op file into programs: list of (first_line_index, [lines])"""
    progs, cur, start = [], None, 0
    for i, l in enumerate(lines):
        if l == "R":
            if cur is not None:
                progs.append((start, cur))
            cur, start = [], i
        elif cur is not None:
            cur.append(l)
    if cur is not None:
        progs.append((start, cur))
    return progs


def _diff(ops, impl, model):
    """indices of differing result lines (and a length mismatch marker)"""
    bad = [i for i, (a, b) in enumerate(zip(impl, model)) if a != b]
    return bad, len(impl) != len(model)


def corr(seed, tier):
    res = dict(problems=[], failures=[], evaluations=0, strata={}, stats={}, samples=[])
    with vlib.Lock():
        ok, log, _ = vlib.coq_make(["Model/C07_Adaptors.vo", "Model/C07_Inst.vo"], timeout=600)
        if not ok:
            res["problems"].append({"kind": "model-build-failed", "log": log[-2000:]})
            return res
        mbin, mlog = vlib.extract_build("C07", os.path.join(VERIF, "extract", "C07", "Extract.v"),
                                        os.path.join(VERIF, "extract", "C07", "driver.ml"))
    if mbin is None:
        res["problems"].append({"kind": "extraction-failed", "log": mlog[-2000:]})
        return res
    hbin, hlog = vlib.build_one_cxx(os.path.join(VERIF, "harness", "h_c07.cpp"), "h_c07")
    if hbin is None:
        res["problems"].append({"kind": "harness-build-failed", "harness": "h_c07", "log": hlog[-3000:]})
        return res
    with tempfile.TemporaryDirectory(prefix="c07corr") as d:
        opsf, trf = os.path.join(d, "ops.txt"), os.path.join(d, "trace.txt")
        env = dict(os.environ, VERIF_SEED=str(seed), VERIF_TIER=tier)
        try:
            r = subprocess.run([hbin, opsf, trf], stdout=subprocess.PIPE, stderr=subprocess.PIPE, text=True, env=env, timeout=1200)
        except subprocess.TimeoutExpired:
            res["problems"].append({"kind": "harness-timeout", "harness": "h_c07"})
            return res
        rep = None
        for l in r.stdout.splitlines():
            if l.startswith("{"):
                try:
                    rep = json.loads(l)
                except json.JSONDecodeError:
                    pass
        if r.returncode != 0 or rep is None:
            # the implementation crashed (segfault / abort) while executing a generated program: the last program
            # written to the op file is the failing input
            last = []
            try:
                last = _programs(open(opsf).read().splitlines())[-1][1][-40:]
            except Exception:
                pass
            res["failures"].append({"check": "crash", "signature": "harness terminated rc=%s" % r.returncode,
                                    "program": last, "tail": (r.stdout[-500:] + r.stderr[-1000:])})
            return res
        ops = open(opsf).read().splitlines()
        impl = open(trf).read().splitlines()
        if rep.get("crash"):
            res["failures"].append({"check": "crash", "signature": rep["crash"][:200], "program": rep.get("last_program", [])[-40:]})
        models = {}
        for flag in ("0", "1"):
            m = subprocess.run([mbin, flag, opsf], stdout=subprocess.PIPE, stderr=subprocess.PIPE, text=True, timeout=1200)
            if m.returncode != 0:
                res["problems"].append({"kind": "model-driver-crashed", "flag": flag, "rc": m.returncode, "tail": m.stderr[-1500:]})
                return res
            models[flag] = m.stdout.splitlines()
    d0, l0 = _diff(ops, impl, models["0"])
    d1, l1 = _diff(ops, impl, models["1"])
    if not d0 and not l0:
        variant, bad, lenbad, model = "current (cast arguments swapped)", d0, l0, models["0"]
    elif not d1 and not l1:
        variant, bad, lenbad, model = "repaired (notes/C07-cast.patch applied)", d1, l1, models["1"]
    else:
        # neither variant of the model explains the implementation: report against the closer one
        if (len(d0), l0) <= (len(d1), l1):
            variant, bad, lenbad, model = "NEITHER (closest: current)", d0, l0, models["0"]
        else:
            variant, bad, lenbad, model = "NEITHER (closest: repaired)", d1, l1, models["1"]
    progs = _programs(ops)
    starts = [p[0] for p in progs]
    import bisect
    seen_prog = set()
    for i in bad:
        k = bisect.bisect_right(starts, i) - 1
        if k in seen_prog:
            continue            # later differences of the same program are consequences of the first
        seen_prog.add(k)
        if len(seen_prog) > 12:
            break
        st, body = progs[k]
        res["failures"].append({"check": "correspondence", "signature": "implementation and model disagree",
                                "case": "program %d" % k, "op": ops[i], "impl": impl[i], "model": model[i],
                                "program": body[:i - st], "model_variant": variant})
    if lenbad and not rep.get("crash"):
        res["failures"].append({"check": "correspondence", "signature": "different number of result lines",
                                "impl": len(impl), "model": len(model)})
    # the harness' own oracle (property-level) failures
    res["failures"] += rep.get("failures", [])
    nswapped = sum(1 for f in rep.get("failures", []) if f.get("signature") == "m0_m_swapped")
    if variant.startswith("current") and nswapped == 0 and not rep.get("crash") and rep.get("strata", {}).get("cast:SubManifold<VectorXd>/plain", 0) > 0:
        res["problems"].append({"kind": "oracle-inconsistent", "log": "model says cast swaps origin/value but the oracle saw no swapped cast"})
    if variant.startswith("repaired") and nswapped:
        res["problems"].append({"kind": "oracle-inconsistent", "log": "model (repaired) agrees but the oracle saw swapped casts"})
    res["evaluations"] = len(impl)
    res["strata"] = rep.get("strata", {})
    res["stats"] = {"programs": rep.get("programs"), "operations": rep.get("evaluations"),
                    "result_lines_compared_with_model": min(len(impl), len(model)),
                    "oracle_checks_on_implementation": rep.get("oracle_checks"),
                    "distinct_literals": rep.get("distinct_literals"),
                    "oracle_failures": rep.get("nfail"),
                    "cast_variant_detected": variant,
                    "lines_differing_from_model_current": len(d0), "lines_differing_from_model_repaired": len(d1),
                    "exhaustive": "every subset of fixed dims for SubManifold<VectorXd> dof 0..6 and SubManifold<std::vector<Vector3d>> dof 0,3,6; vector sizes 0..8; all 5x5 variant alternative pairs"}
    # samples: the first program of a few strata with its trace
    shown = 0
    for k in (100, len(progs) // 3, len(progs) // 2, len(progs) - 1):
        if 0 <= k < len(progs) and shown < 4:
            st, body = progs[k]
            res["samples"].append({"program": body[:12], "implementation_trace": impl[st + 1:st + 1 + min(12, len(body))]})
            shown += 1
    return res


TB = [
    "Coq 8.16.1 kernel; full .vo build (no -vos); all C07 property theorems are closed under the global context (no axioms)",
    "Model/C07_Adaptors.v, Model/C07_Inst.v: hand transcription of manifolds/vector.hpp, variant.hpp, submanifold.hpp, any.hpp and of the Eigen-vector/double Lie-group traits (file:line cited) - tied to /repo every run by the exact trace comparison of harness/h_c07.cpp (real library) with the extracted model (extract/C07) on generated programs",
    "extraction (ExtrOcamlBasic only) + OCaml driver extract/C07/driver.ml (parsing / printing glue, integers k = k/8)",
    "harness/h_c07.cpp oracle (integer arithmetic on flattened coordinates, written from the property statement) and harness/h_c07lie.cpp (numeric axioms on SO3/SE2/SE3/Bundle inside every adaptor, tolerance 1e-9)",
    "base manifold axioms are Section hypotheses (man_laws): proved for Q^n (Eigen vectors, double); for the Lie groups they are assumed by the adaptor theorems and checked numerically by h_c07lie every run (their proof belongs to C01/C02)",
    "m_calc (mutable scratch member of SubManifold) is modelled as a method-local value: every method overwrites it before reading it (submanifold.hpp:43,68,88)",
    "compiler-generated copy constructors of std::vector/std::variant/SubManifold are not modelled (value semantics assumed); their independence is checked by correspondence (copy-then-mutate programs); AnyManifold's hand-written clone/copy/move is modelled with an explicit heap",
]

CFG = dict(
    coq_targets=["Props/Properties_C07.vo"],
    props_files=["Props/Properties_C07.v"],
    cone=["Proofs/C07_*.v", "Props/Properties_C07.v"],
    harnesses=[dict(name="h_c07lie")],
    corr=[corr],
    trusted_base=TB,
    assumptions=[
        "floating-point rounding is not modelled: the adaptor theorems are exact statements over an abstract base manifold; the executable instance is exact rational arithmetic and the harness uses small dyadic values so that binary64 is exact",
        "Lie-group instances of the three axioms (rotation part below pi) are checked numerically to 1e-9 on stratified inputs, not proved here",
        "rplus(m,rminus(m2,m))=m2 for SubManifold is stated for m2 reachable from m (same origin and fixed dims, base difference zero on the fixed dims); for a non-commutative base this is the image of rplus(m,.), which is what the class supports",
        "preconditions asserted by the code (fixed dims distinct and in range, tangent length = dof, equal container sizes / alternatives in rminus) are hypotheses of the theorems; violating them is undefined behaviour in release builds and is not generated",
    ],
)

TEXT = dict(
    technique="Coq proof over hand-written executable models of the adaptors, generic in the base manifold (Section hypotheses = the Manifold axioms) + extraction and exact trace correspondence with the real library on generated programs + independent integer oracle + numeric Lie-group axiom search",
    text="Machine-checked theorems (Coq 8.16, no axioms) that std::vector<M> (static and dynamic element dof, every size incl. empty), std::variant<Ms...> (every alternative), SubManifold<M> (every dof, every duplicate-free set of fixed dims in any order, through the real constructor's sort) and AnyManifold (explicit heap model of unique_ptr/clone) satisfy for EVERY base manifold that satisfies the axioms: rminus(rplus(m,a),m)=a, rplus(m,rminus(m2,m))=m2, rminus(m,m)=0, the dof laws, element-wise action on consecutive tangent segments, SubManifold moves/reports only free directions and keeps its origin, sub_dof=n-|fixed|, copies are independent and identical. The base instance Q^n (Eigen vectors, double) is proved and executable; the models are tied to /repo by exact trace equality on ~3600 generated programs per quick run (all subsets of fixed dims up to dof 6, sizes 0..8, all alternative pairs). Lie-group instances of the axioms are searched numerically (1e-9). Finding C07-cast: traits::man<SubManifold>::cast swaps origin and value (refuted theorem with witness, replay, patch).",
    note="Trusted: Coq kernel; the hand transcription (validated every run by exact correspondence); extraction + OCaml glue; the harness oracle. The Manifold axioms of the Lie groups themselves are hypotheses here (C01/C02) and only checked numerically. The cast clause is proved for the repaired argument order and refuted for the current one; the check detects which variant the tree has and passes on both (known finding C07-cast while unrepaired).",
    design_ref="DESIGN.md section 5 C07; notes/C07.md",
)
