"""C08 - tangent-space differentiation (smooth::diff::dr): check configuration, correspondence runner, manifest text."""
import os, subprocess, json, glob
from fractions import Fraction as Fr
import vlib

NSHARD = 16
U = Fr(1, 2 ** 53)
EPS1 = Fr(1, 2 ** 26)
EPS2 = Fr(1, 2 ** 13)
TOL_J = Fr(1, 10 ** 4)
TOL_H = Fr(5, 100)
TOL_RESTORE = Fr(1, 10 ** 15)


def _flag(name):
    """version flag of the model (coq/Model/C08_DiffLayout.v; both true = the code as it is since 59fd5d3 / 41b038a).
    c08_fix_k2jac: the J output of the K=2 routine is the K=1 Jacobian (first-order step, whose squares do not fit 53
    bits: J of K=2 is compared with the rounding allowance also on the exact stream - and bit for bit with the J of a
    dr<1> call).  c08_fix_restore: the model hands the arguments back bit-identical on every stream."""
    import re
    try:
        src = open(os.path.join(vlib.COQ, "Model", "C08_DiffLayout.v")).read()
    except OSError:
        return False
    return re.search(r"Definition\s+" + name + r"\s*:\s*bool\s*:=\s*true\s*\.", src) is not None


# ------------------------------------------------------------------------------------------- parsing
def _parse_case(line):
    t = line.split()
    p = [0]

    def nx():
        p[0] += 1
        return t[p[0] - 1]

    def exp(s):
        g = nx()
        if g != s:
            raise ValueError(f"case syntax: expected {s} got {g}")
    c = {"id": nx()}
    exp("K"); c["K"] = int(nx())
    exp("IDX"); n = int(nx())
    c["idx"] = None if n < 0 else [int(nx()) for _ in range(n)]
    exp("ARGS"); na = int(nx())
    c["args"] = []
    for _ in range(na):
        v = int(nx()); m = int(nx())
        c["args"].append((v == 1, [Fr(nx()) for _ in range(m)]))
    exp("NY"); ny = c["ny"] = int(nx())
    exp("N"); n = c["n"] = int(nx())
    exp("CONST"); c["c"] = [Fr(nx()) for _ in range(ny)]
    exp("LIN"); c["L"] = [[Fr(nx()) for _ in range(n)] for _ in range(ny)]
    exp("QUAD"); c["Q"] = [[[Fr(nx()) for _ in range(n)] for _ in range(n)] for _ in range(ny)]
    exp("CMASK"); c["cmask"] = int(nx())
    exp("RK"); c["rk"] = int(nx())
    return c


def _num_impl(s):
    v = float.fromhex(s)
    if v != v or v in (float("inf"), float("-inf")):
        return None  # NaN / inf (e.g. a cell the implementation never wrote): never equal to anything
    return Fr(v)


HUGE = Fr(10 ** 30)


def _dist(a, b):
    return HUGE if (a is None or b is None) else abs(a - b)


def _flt(a):
    return None if a is None else float(a)


def _num_model(s):
    if s == "U":
        return None
    a, b = s.split("/")
    neg = a.startswith("-")
    v = Fr(int(a.lstrip("-"), 2), int(b, 2))
    return -v if neg else v


def _parse_res(line, num):
    t = line.split()
    r = {"id": t[0]}
    if len(t) > 1 and t[1] == "ILLFORMED":
        r["ill"] = True
        return r
    p = [1]

    def nx():
        p[0] += 1
        return t[p[0] - 1]
    assert nx() == "V"
    r["V"] = [num(nx()) for _ in range(int(nx()))]

    def parse_J():
        assert nx() == "J"
        n = int(nx())
        if n < 0:
            return None
        cols = []
        for _ in range(n):
            tag = nx()
            if tag == "U":
                cols.append(None)
            else:
                cols.append([num(nx()) for _ in range(int(nx()))])
        return cols
    r["J"] = parse_J()
    assert nx() == "H"
    n = int(nx())
    if n < 0:
        r["H"] = None
    else:
        rows = []
        for _ in range(n):
            assert nx() == "R"
            rows.append([num(nx()) for _ in range(int(nx()))])
        r["H"] = rows
    assert nx() == "A"
    r["A"] = []
    for _ in range(int(nx())):
        assert nx() == "X"
        r["A"].append([num(nx()) for _ in range(int(nx()))])
    if p[0] < len(t):
        # implementation only, K = 2: the J of a dr<1> call on the same map and point (diff_impl.hpp:79)
        assert nx() == "K1J"
        r["K1J"] = parse_J()
    return r


# ------------------------------------------------------------------------------------------- oracle (closed forms)
def _step(e, isvec, x):
    if isvec:
        h = e * abs(x)
        return e if h == 0 else h
    return e


def _oracle(c):
    """closed-form value / Jacobian / Hessian of the polynomial probe at the case's point, restricted to the
    selected arguments; plus the step sizes (only used for the rounding allowance and the classification)."""
    z = [x for (_, cs) in c["args"] for x in cs]
    offs, o = [], 0
    for (_, cs) in c["args"]:
        offs.append(o)
        o += len(cs)
    sel = list(range(len(c["args"]))) if c["idx"] is None else c["idx"]
    cols = [offs[i] + k for i in sel for k in range(len(c["args"][i][1]))]
    isv = [c["args"][i][0] for i in sel for k in range(len(c["args"][i][1]))]
    n, ny = c["n"], c["ny"]
    val = [c["c"][j] + sum(c["L"][j][a] * z[a] for a in range(n))
           + sum(c["Q"][j][a][b] * z[a] * z[b] for a in range(n) for b in range(n)) for j in range(ny)]
    fabs = max([abs(c["c"][j]) + sum(abs(c["L"][j][a]) * (abs(z[a]) + 1) for a in range(n))
                + sum(abs(c["Q"][j][a][b]) * (abs(z[a]) + 1) * (abs(z[b]) + 1) for a in range(n) for b in range(n))
                for j in range(ny)] + [Fr(1)])
    J = [[c["L"][j][a] + sum((c["Q"][j][a][b] + c["Q"][j][b][a]) * z[b] for b in range(n)) for a in cols] for j in range(ny)]
    H = [[[c["Q"][j][a][b] + c["Q"][j][b][a] for b in cols] for a in cols] for j in range(ny)]
    return dict(z=z, cols=cols, isvec=isv, val=val, J=J, H=H, fabs=fabs, sel=sel)


# ------------------------------------------------------------------------------------------- build / run
def _build_shards():
    # binary names carry no '-' on purpose: vlib.gc_bins of a concurrently running check for a different VERIF_REPO
    # deletes every "*-*-*" binary of another repo hash, including ones that were just built here
    rh = vlib.repo_hash()
    import time
    for old in glob.glob(os.path.join(vlib.BUILD, "bin", "h_c08_*_*_*")):
        try:
            if f"_{rh}_" not in old and time.time() - os.path.getmtime(old) > 6 * 3600:
                os.remove(old)
        except OSError:
            pass
    src = os.path.join(vlib.VERIF, "harness", "h_c08.cpp")
    hh = vlib.file_hash(glob.glob(f"{vlib.VERIF}/harness/*.hpp") + [src])
    jobs = []
    for k in range(NSHARD):
        out = os.path.join(vlib.BUILD, "bin", f"h_c08_s{k}of{NSHARD}_{rh}_{hh}")
        jobs.append((src, out, ["-O0", f"-I{vlib.VERIF}/harness", f"-DC08_SHARD={k}", f"-DC08_NSHARD={NSHARD}"]))
    asrc = os.path.join(vlib.VERIF, "harness", "h_c08_acc.cpp")
    ah = vlib.file_hash(glob.glob(f"{vlib.VERIF}/harness/*.hpp") + [asrc])
    acc = os.path.join(vlib.BUILD, "bin", f"h_c08_acc_{rh}_{ah}")
    jobs.append((asrc, acc, ["-O0", f"-I{vlib.VERIF}/harness"]))
    fails = vlib.build_cxx(jobs)
    return [j[1] for j in jobs[:-1]], acc, fails


def _run_parallel(cmds, inputs=None, env=None, timeout=1500):
    procs = []
    for i, cmd in enumerate(cmds):
        procs.append(subprocess.Popen(cmd, stdin=subprocess.PIPE if inputs else None, stdout=subprocess.PIPE,
                                      stderr=subprocess.PIPE, text=True, env=env))
    outs = []
    import threading
    res = [None] * len(procs)

    def work(i):
        try:
            o, e = procs[i].communicate(inputs[i] if inputs else None, timeout=timeout)
            res[i] = (procs[i].returncode, o, e)
        except subprocess.TimeoutExpired:
            procs[i].kill()
            res[i] = (-9, "", "timeout")
    th = [threading.Thread(target=work, args=(i,)) for i in range(len(procs))]
    for t in th:
        t.start()
    for t in th:
        t.join()
    return res


def _analyse(order, cases, impl, mres, have_model):
    problems, failures, samples = [], [], []
    strata = {}
    stats = {"exact_stream_bit_exact_cases": 0, "general_stream_cases": 0, "max_relerr_J_K1": 0.0, "max_relerr_J_K2": 0.0,
             "max_relerr_H": 0.0, "max_restore_rel": 0.0, "model_vs_impl_entries": 0,
             "exact_stream_K2_J_entries": 0, "exact_stream_K2_J_entries_bit_exact": 0, "k2_jac_vs_k1_jac_entries": 0, "k2_jac_bit_identical_to_k1_jac_cases": 0}
    model = True if have_model else None
    fixj = _flag("c08_fix_k2jac")
    fixr = _flag("c08_fix_restore")

    def bump(k, n=1):
        strata[k] = strata.get(k, 0) + n

    def fail(rec):
        if len(failures) < 200:
            failures.append(rec)

    nev = 0
    for cid in order:
        c = cases[cid]
        r = impl.get(cid)
        if r is None:
            problems.append({"kind": "harness-no-result", "case": cid})
            continue
        nev += 1
        K = c["K"]
        stream = "exact" if "_t0_" in cid else "general"
        o = _oracle(c)
        nsel = len(o["sel"])
        kinds = "".join("v" if v else "t" for (v, _) in c["args"])
        bump(f"K{K}"); bump(f"stream_{stream}"); bump(f"arity{len(c['args'])}")
        bump("idx_full" if c["idx"] is None else ("idx_all_args" if nsel == len(c["args"]) and c["idx"] == sorted(c["idx"]) else ("idx_permuted" if c["idx"] != sorted(c["idx"]) else "idx_proper_subset")))
        bump(f"result_kind_{['double','Vector2d','VectorXd'][c['rk']]}")
        bump("const_args", bin(c["cmask"] & ((1 << len(c["args"])) - 1)).count("1"))
        bump("nonconst_args", len(c["args"]) - bin(c["cmask"] & ((1 << len(c["args"])) - 1)).count("1"))
        if any(len(cs) == 0 for (_, cs) in c["args"]):
            bump("has_empty_dynamic_arg")
        base = {"case": cid, "K": K, "mode": "Numerical", "stream": stream, "idx": c["idx"], "case_line": c["line"][:1500]}
        if len(samples) < 6 and K == 2 and stream == "exact" and c["idx"] is not None and len(c["args"]) >= 2:
            samples.append({"case": c["line"][:600], "impl_J": [[_flt(v) for v in col] for col in r["J"]][:4]})
        nx = len(o["cols"])
        ny = c["ny"]
        scaleJ = max([Fr(1)] + [abs(v) for row in o["J"] for v in row])
        scaleH = max([Fr(1)] + [abs(v) for Hj in o["H"] for row in Hj for v in row])
        steps1 = [_step(EPS1 if (K == 1 or fixj) else EPS2, o["isvec"][k], o["z"][o["cols"][k]]) for k in range(nx)]
        stepsH = [_step(EPS2, o["isvec"][k], o["z"][o["cols"][k]]) for k in range(nx)]

        # ---------- (a) model == implementation
        m = mres.get(cid)
        if m is None or m.get("ill"):
            if model is not None:
                problems.append({"kind": "model-no-result", "case": cid})
        else:
            def cmp(what, a, b, tol, pos):
                stats["model_vs_impl_entries"] += 1
                if b is None or a is None or abs(a - b) > tol:
                    fail(dict(base, check="model_vs_impl", what=what, pos=pos, impl=(None if a is None else float(a)),
                              model=(None if b is None else float(b)), tol=float(tol)))
                    return False
                return True
            ex = stream == "exact"
            ok = True
            if len(m["V"]) != len(r["V"]):
                fail(dict(base, check="model_vs_impl", what="value-size"))
            else:
                for j in range(len(r["V"])):
                    ok &= cmp("value", r["V"][j], m["V"][j], 0 if ex else 64 * U * o["fabs"], [j])
            if (m["J"] is None) != (r["J"] is None) or (m["H"] is None) != (r["H"] is None):
                fail(dict(base, check="model_vs_impl", what="presence of J/H"))
                ok = False
            if r["J"] is not None and m["J"] is not None:
                if len(r["J"]) != len(m["J"]) or any(mc is None or len(mc) != len(rc) for mc, rc in zip(m["J"], r["J"])):
                    fail(dict(base, check="model_vs_impl", what="J-shape", impl=[len(r["J"])], model=[len(m["J"])]))
                    ok = False
                else:
                    for cc in range(len(r["J"])):
                        for j in range(len(r["J"][cc])):
                            ok &= cmp("J", r["J"][cc][j], m["J"][cc][j], 0 if (ex and not (K == 2 and fixj)) else 64 * U * o["fabs"] / steps1[cc], [j, cc])
                            if ex and K == 2 and fixj:
                                stats["exact_stream_K2_J_entries"] += 1
                                stats["exact_stream_K2_J_entries_bit_exact"] += int(r["J"][cc][j] is not None and r["J"][cc][j] == m["J"][cc][j])
            if r["H"] is not None and m["H"] is not None:
                if len(r["H"]) != len(m["H"]) or any(len(a) != len(b) for a, b in zip(r["H"], m["H"])):
                    fail(dict(base, check="model_vs_impl", what="H-shape"))
                    ok = False
                else:
                    for rr in range(len(r["H"])):
                        for cc in range(len(r["H"][rr])):
                            tol = 0 if ex else 256 * U * o["fabs"] / (stepsH[rr] * stepsH[cc % nx] if nx else 1)
                            ok &= cmp("H", r["H"][rr][cc], m["H"][rr][cc], tol, [rr, cc])
            if len(m["A"]) == len(r["A"]):
                for i, (ma, ra) in enumerate(zip(m["A"], r["A"])):
                    if len(ma) != len(ra):
                        fail(dict(base, check="model_vs_impl", what="args-shape", pos=[i]))
                        ok = False
                        continue
                    mx = max([abs(v) for v in c["args"][i][1]] + [Fr(0)])
                    for k in range(len(ma)):
                        ok &= cmp("args_after", ra[k], ma[k], 0 if (ex or fixr) else TOL_RESTORE * mx, [i, k])
            if ex and ok:
                stats["exact_stream_bit_exact_cases"] += 1
            if not ex:
                stats["general_stream_cases"] += 1

        # ---------- (b) the property itself against the closed forms (independent of model and library)
        # value
        if len(r["V"]) != ny:
            fail(dict(base, check="value", what="size", got=len(r["V"]), want=ny))
        else:
            for j in range(ny):
                if _dist(r["V"][j], o["val"][j]) > 64 * U * o["fabs"]:
                    fail(dict(base, check="value", pos=[j], got=_flt(r["V"][j]), want=float(o["val"][j])))
        if K == 0:
            if r["J"] is not None or r["H"] is not None:
                fail(dict(base, check="k0_value_only"))
        if K >= 1:
            if r["J"] is None or len(r["J"]) != nx or any(len(col) != ny for col in r["J"]):
                fail(dict(base, check="J_shape", got=None if r["J"] is None else len(r["J"]), want=nx))
            else:
                worst = None
                for cc in range(nx):
                    for j in range(ny):
                        e = _dist(r["J"][cc][j], o["J"][j][cc])
                        rel = e / scaleJ
                        key = "max_relerr_J_K1" if K == 1 else "max_relerr_J_K2"
                        stats[key] = max(stats[key], float(rel))
                        if rel > TOL_J and (worst is None or rel > worst[0]):
                            # is the error the first-order truncation term h/2 * f'' of the step actually used?
                            # (diagnosis only; for K = 2 also against the second-order step the routine used for J
                            # before 41b038a)
                            pred = o["J"][j][cc] + steps1[cc] / 2 * o["H"][j][cc][cc]
                            pred2 = o["J"][j][cc] + stepsH[cc] / 2 * o["H"][j][cc][cc]
                            cause = ("step-truncation" if _dist(r["J"][cc][j], pred) <= Fr(1, 10 ** 6) * scaleJ else
                                     "second-order-step-truncation" if K == 2 and _dist(r["J"][cc][j], pred2) <= Fr(1, 10 ** 6) * scaleJ
                                     else "other")
                            worst = (rel, cc, j, cause)
                if worst is not None:
                    rel, cc, j, cause = worst
                    fail(dict(base, check="accuracy_J", cause=(f"k{K}-" + cause), pos=[j, cc], relerr=float(rel),
                              got=_flt(r["J"][cc][j]), want=float(o["J"][j][cc]), step=float(steps1[cc])))
        if K == 2:
            # diff_impl.hpp:79 (theorem C08_k2_jac_is_k1_jac): the J of the K = 2 routine is the J of the K = 1 routine on
            # the same map and point - the SAME floating-point operations, so the two must agree bit for bit
            j1 = r.get("K1J")
            if j1 is None or r["J"] is None:
                fail(dict(base, check="k2_jac_is_k1_jac", what="missing", have_K1J=j1 is not None, have_J=r["J"] is not None))
            elif len(j1) != len(r["J"]) or any(len(a) != len(b) for a, b in zip(j1, r["J"])):
                fail(dict(base, check="k2_jac_is_k1_jac", what="shape", k1=[len(j1)], k2=[len(r["J"])]))
            else:
                bad = [(cc, j) for cc in range(len(j1)) for j in range(len(j1[cc]))
                       if j1[cc][j] is None or r["J"][cc][j] is None or j1[cc][j] != r["J"][cc][j]]
                stats["k2_jac_vs_k1_jac_entries"] += sum(len(col) for col in j1)
                if bad:
                    cc, j = bad[0]
                    fail(dict(base, check="k2_jac_is_k1_jac", pos=[j, cc], n_entries_differ=len(bad),
                              J_from_dr2=_flt(r["J"][cc][j]), J_from_dr1=_flt(j1[cc][j]),
                              true_J=float(o["J"][j][cc]) if cc < nx and j < ny else None))
                else:
                    stats["k2_jac_bit_identical_to_k1_jac_cases"] += 1
            if r["H"] is None or len(r["H"]) != nx or any(len(row) != nx * ny for row in r["H"]):
                fail(dict(base, check="H_shape", want=[nx, nx * ny]))
            else:
                worst = None
                for rr in range(nx):
                    for j in range(ny):
                        for cc in range(nx):
                            e = _dist(r["H"][rr][j * nx + cc], o["H"][j][rr][cc])
                            rel = e / scaleH
                            stats["max_relerr_H"] = max(stats["max_relerr_H"], float(rel))
                            if rel > TOL_H and (worst is None or rel > worst[0]):
                                worst = (rel, rr, j, cc)
                if worst is not None:
                    rel, rr, j, cc = worst
                    fail(dict(base, check="accuracy_H", pos=[rr, j * nx + cc], block=j, entry=[rr, cc], relerr=float(rel),
                              got=_flt(r["H"][rr][j * nx + cc]), want=float(o["H"][j][rr][cc])))
        # restore: the caller's objects after the call
        for i, (isv, cs) in enumerate(c["args"]):
            after = r["A"][i] if i < len(r["A"]) else None
            is_const = (c["cmask"] >> i) & 1
            touched = (i in o["sel"]) and not is_const and K >= 1
            if after is None or len(after) != len(cs):
                fail(dict(base, check="restore", what="shape", arg=i))
                continue
            mx = max([abs(v) for v in cs] + [Fr(0)])
            for k in range(len(cs)):
                d = _dist(after[k], cs[k])
                if mx:
                    stats["max_restore_rel"] = max(stats["max_restore_rel"], float(d / mx))
                lim = TOL_RESTORE * mx if touched else 0
                if d > lim:
                    fail(dict(base, check="restore", arg=i, coord=k, const=bool(is_const), selected=(i in o["sel"]),
                              before=float(cs[k]), after=_flt(after[k]), change=float(d)))
    return dict(problems=problems, failures=failures, evaluations=nev, strata=strata, stats=stats, samples=samples)


def corr(seed, tier):
    problems = []
    model, mlog = vlib.extract_build("C08", os.path.join(vlib.VERIF, "extract", "C08", "Extract.v"),
                                     os.path.join(vlib.VERIF, "extract", "C08", "driver.ml"))
    if model is None:
        problems.append({"kind": "model-extraction-failed", "log": mlog[-2000:]})
    bins, accbin, bfails = _build_shards()
    for out, log in bfails.items():
        problems.append({"kind": "harness-build-failed", "harness": os.path.basename(out), "log": log[-3000:]})
    bins = [b for b in bins if os.path.exists(b)]
    env = dict(os.environ, VERIF_SEED=str(seed), VERIF_TIER=tier)
    allruns = _run_parallel([[b] for b in bins] + ([[accbin]] if os.path.exists(accbin) else []), env=env)
    runs = allruns[:len(bins)]
    accrep = None
    if len(allruns) > len(bins):
        rc, out, err = allruns[-1]
        for line in out.splitlines():
            if line.startswith("{"):
                import re
                line = re.sub(r'(?<=[:\[,])\s*(-?nan|-?inf)(?=[,\]}])', 'null', line)  # printf of a NaN entry
                try:
                    accrep = json.loads(line)
                except json.JSONDecodeError:
                    pass
        if accrep is None:
            problems.append({"kind": "harness-crashed", "harness": "h_c08_acc", "rc": rc, "tail": (out[-800:] + err[-800:])})
    cases, impl = {}, {}
    order = []
    crashes = []
    for b, (rc, out, err) in zip(bins, runs):
        crashed = rc != 0 or "DONE" not in out
        if crashed:
            problems.append({"kind": "harness-crashed", "harness": os.path.basename(b), "rc": rc, "tail": (out[-300:] + err[-800:])})
        last_case = None
        for line in out.splitlines():
            try:
                if line.startswith("CASE "):
                    c = _parse_case(line[5:])
                    c["line"] = line[5:]
                    cases[c["id"]] = c
                    order.append(c["id"])
                    last_case = c
                elif line.startswith("RES "):
                    r = _parse_res(line[4:], _num_impl)
                    impl[r["id"]] = r
                    if last_case is not None and last_case["id"] == r["id"]:
                        last_case = None
            except (ValueError, IndexError, AssertionError):
                continue  # truncated last line of a crashed shard
        if crashed and last_case is not None:
            # the call described by the last CASE line never returned: that input crashes the implementation
            crashes.append({"check": "crash", "case": last_case["id"], "K": last_case["K"], "idx": last_case["idx"],
                            "case_line": last_case["line"][:1500], "stderr": err[-600:]})
            order.remove(last_case["id"])
    # ---- run the extracted model on the same cases
    mres = {}
    if model is not None and order:
        chunks = [order[i::NSHARD] for i in range(NSHARD)]
        chunks = [ch for ch in chunks if ch]
        mr = _run_parallel([[model]] * len(chunks), inputs=["\n".join(cases[i]["line"] for i in ch) + "\n" for ch in chunks])
        for (rc, out, err) in mr:
            if rc != 0:
                problems.append({"kind": "model-run-failed", "rc": rc, "tail": err[-1500:]})
            for line in out.splitlines():
                r = _parse_res(line, _num_model)
                mres[r["id"]] = r

    res = _analyse(order, cases, impl, mres, model is not None)
    res["problems"] = problems + res["problems"]
    res["failures"] = crashes + res["failures"]
    if not order:
        res["problems"].append({"kind": "harness-produced-no-cases", "harness": "h_c08"})
    if accrep is not None:
        for f in accrep.get("failures", []):
            f["harness"] = "h_c08_acc"
            res["failures"].append(f)
        res["evaluations"] += accrep.get("evaluations", 0)
        for k, v in accrep.get("strata", {}).items():
            res["strata"]["acc_" + k] = v
        res["stats"]["acc_maxerr"] = accrep.get("maxerr_sci")
        res["stats"]["acc_fail_by_key"] = accrep.get("fail_by_key")
        res["stats"]["acc_nfail"] = accrep.get("nfail")
        res["samples"] += accrep.get("samples", [])[:3]
    return res


TB = [
    "Coq 8.16.1 kernel incl. its vm_compute machine (Examples / refutation witnesses); full .vo build; Coquelicot (Taylor-Lagrange, MVT, Schwarz) for the error bounds",
    "coq/Model/C08_DiffLayout.v: hand transcription of detail/diff_impl.hpp (dr_numerical, dr, index-subset overload) and of the wrt helpers; tied to /repo every run by running the extracted model (ExtrOcamlBasic only; nat/positive/Z/Q stay Coq datatypes) and the real diff::dr on the same cases: bit-exact on the stream whose floating-point operations are all exact, rounding allowance otherwise",
    "extract/C08/driver.ml (parsing / printing, ~90 lines), OCaml 4.13; harness/h_c08.cpp + scripts/props_C08.py comparator (exact rational arithmetic via fractions.Fraction)",
    "harness/h_c08_acc.cpp: hand-written closed-form derivative oracle (rotation matrix from quaternion, SE2 matrix, hat maps, SO3 log / dr_expinv) - nothing in it calls the library's derivative code",
    "modelled, not verified: the callable f (pure function of its arguments), the Manifold operations rplus / rminus / dof of the argument and result types (abstract in the theorems; C06/C07 cover them), Eigen's dense assignment, std::tuple / std::apply plumbing (wrt_copy_if_const aliasing is modelled by caller_view)",
]
ASSUME = [
    "layout / subset / restore theorems: hypothesis current_code o = the model instance carries the version flags recorded in coq/Model/C08_DiffLayout.v (c08_fix_restore = c08_fix_k2jac = true: restore from a saved copy, commit 59fd5d3; J of K=2 from the K=1 routine, commit 41b038a); NO assumption on the group operations (rplus may round, need not be invertible). That the flags describe /repo is checked every run: model vs implementation bit for bit (arguments after the call on every stream and every argument kind incl. SO3/SE2/Bundle, J of dr<2> == J of dr<1>)",
    "restore_float_bound / restore_k1_within_1e15 / restore_float_bound_n (x+h-h in floating point) are kept as analysis of the inverse-perturbation scheme; the current code does not rely on them",
    "accuracy theorems are per matrix entry for a scalar coordinate function of the step (each J/H entry is one by jac_entry_is_quotient / jac_entry_error) with explicit smoothness class: |f''| <= 100, evaluation error <= 2^-46 (first), mixed third derivatives <= 10, numerator error <= 4*2^-46 (second); relative means relative to max(1, |true value|)",
    "autodiff / ceres modes are absent from this sandbox build (static_assert branches); not modelled beyond 'ill-formed', not exercised",
    "K = 2 on group-valued or vector-valued results: the documented note says scalar functions only; the code and the model handle any ny, the harness exercises ny <= 3",
]

CFG = dict(
    tracer_units=[],
    coq_targets=["Props/Properties_C08.vo"],
    props_files=["Props/Properties_C08.v"],
    cone=["Model/C08_*.v", "Proofs/C08_*.v", "Props/Properties_C08.v"],
    harnesses=[],
    corr=[corr],
    trusted_base=TB,
    assumptions=ASSUME,
)

TEXT = dict(
    technique="Coq proof over a hand-written executable model of diff_impl.hpp (Engine B) + Coquelicot error analysis; model tied to /repo by running the extracted model against the real diff::dr (bit-exact stream) and by a closed-form-derivative oracle harness",
    text="Machine-checked theorems (Coq 8.16) about a line-by-line model of dr_numerical / dr / the index-subset overload, for ALL argument lists (any number and mix of static/dynamic Manifold kinds), callables and duplicate-free index lists: every J column and H cell is characterised (column offset_i + j holds the forward quotient with the code's step rule; H(offset_i0+k0, j*nx+offset_i1+k1) holds the second difference), the cell addressing is a bijection onto block j / entry (r,c) of the documented stacked layout, subset derivatives are exactly the selected columns / cells of the full ones, the argument tuple is handed back unchanged - bit-identical, whatever rplus does (the code restores from saved copies; no exact-group hypothesis) -, the J of the K=2 routine is the J of the K=1 routine, Analytic / Default pass the callable's jacobian()/hessian() through verbatim, K=0 returns the value only. Coquelicot: forward-difference error <= h*M2/2 + 2*eps_f/h (+ step rounding), <= 1e-4 relative with the code's step 2^-26*|x| on the property's function class; second-difference bound <= 5e-2 with step 2^-13*|x|; Schwarz for the order of the mixed partial; x+h-h perturbation <= 3u|x|. The J output of the K=2 routine meets the 1e-4 clause with the first-order step (k2_jac_entry_error, k2_jac_accuracy_current). Two former findings (J of K=2 formed with step 2^-13*|x|; arguments of non-commutative group type restored only to ~1e-15..1e-14) are fixed in /repo (41b038a, 59fd5d3); their refutations remain as historical lemmas over the parametrised model (fix flags false), outside the property theorems.",
    note="Trusted: Coq kernel, extraction (ExtrOcamlBasic only), the transcription (validated every run: 3 000+ cases over all kind pairs / const masks / index subsets / K, bit-exact on the exact-arithmetic stream), the closed-form oracle harness. Accuracy clause proved per entry for an explicit smoothness class, not for 'every smooth f'. Autodiff/Ceres modes absent from the sandbox. No open findings (C08-k2-jac-step, C08-restore-drift: fixed, listed as such in known_findings.d/C08.jsonl, suppress nothing).",
    design_ref="DESIGN.md section 5 C08; notes/C08.md",
)
