"""C09 - minimize never makes things worse, terminates, and finds the minimiser.
Check configuration (CFG), manifest wording (TEXT) and the Engine-B correspondence runner (corr):
the C++ harness (harness/h_c09.cpp, two parts built in parallel) runs smooth::minimize on generated families and
records, through the public API only, every rho / Delta / strategy answer / residual evaluation / callback; the
extracted Coq model (Model/C09_Minimize.v, Model/C09_TrStrategy.v) replays the recorded oracle values and must
reproduce iteration count, callback count, status, accept/reject pattern exactly and the Delta sequence to 1e-9."""
import json, math, os, subprocess, tempfile, glob

import vlib
from vlib import VERIF

# The repair notes/C09-zero-residual.patch is in /repo (commit 16638da), so the model of the code that exists is the
# instance [fixed := code_now] (= true) of Model/C09_Minimize.v; the extracted driver replays it by default and the
# property theorems are stated for it.  Nothing has to be set.  C09_FIXED=0 is a diagnostic switch only: it replays
# the historical model of the code before 16638da (a tree in which the fix was reverted then corresponds again, while
# the property checks of the harness still report the violation); on the current tree it yields a correspondence
# failure, so it can never hide anything.
PRE_FIX_MODEL = os.environ.get("C09_FIXED", "1") == "0"

DELTA_TOL = 1e-9


def _me(tok, allow_nonfinite):
    """hex double -> 'm:e' (value m * 2^e) or nan/inf/-inf"""
    v = float.fromhex(tok) if tok not in ("nan", "-nan", "inf", "-inf") else float(tok.replace("-nan", "nan"))
    if v != v:
        return "nan" if allow_nonfinite else "0:0"
    if math.isinf(v):
        return ("inf" if v > 0 else "-inf") if allow_nonfinite else "0:0"
    if v == 0:
        return "0:0"
    m, e = math.frexp(v)
    mi = int(m * (1 << 53))
    e -= 53
    while mi % 2 == 0:
        mi //= 2
        e += 1
    return f"{mi}:{e}"


def _f(tok):
    if tok in ("nan", "-nan"):
        return float("nan")
    if tok in ("inf", "-inf"):
        return float(tok)
    return float.fromhex(tok)


def parse_trace(line):
    """R id fam mode strat cont maxit ptol ftol c0 delta0 nscript {take delta}* niter {10 fields}* status iter ncb fdelta"""
    t = line.split()
    c = dict(id=t[1], fam=t[2], mode=t[3], strat=t[4], cont=t[5], max_iter=int(t[6]), ptol=t[7], ftol=t[8], c0=t[9],
             delta0=t[10])
    ns = int(t[11])
    i = 12
    c["script"] = [(t[i + 2 * k], t[i + 2 * k + 1]) for k in range(ns)]
    i += 2 * ns
    n = int(t[i])
    i += 1
    its = []
    for k in range(n):
        f = t[i + 10 * k: i + 10 * k + 10]
        its.append(dict(delta=f[0], rho=f[1], take=f[2], rnz=f[3], actu=f[4], pred=f[5], dnorm=f[6], n=f[7],
                        norm_new=f[8], stepped=f[9]))
    i += 10 * n
    c["its"] = its
    c["status"], c["iter"], c["ncb"], c["fdelta"] = t[i], int(t[i + 1]), int(t[i + 2]), t[i + 3]
    return c


def model_line(c):
    parts = [c["id"], c["strat"], c["cont"], str(c["max_iter"]), _me(c["ptol"], False), _me(c["ftol"], False),
             _me(c["c0"], False), _me(c["delta0"], False), "2:0", str(len(c["script"]))]
    for tk, d in c["script"]:
        parts += [tk, _me(d, False)]
    parts.append(str(len(c["its"])))
    for it in c["its"]:
        nn = _f(it["norm_new"])
        cn = nn * nn if math.isfinite(nn) and math.isfinite(nn * nn) else 0.0
        parts += [it["rnz"], _me(it["actu"], True), _me(it["pred"], True), _me(it["rho"], True), _me(it["dnorm"], True),
                  it["n"], _me(cn.hex(), False)]
    return " ".join(parts)


def _normal(v):
    return math.isfinite(v) and 1e-290 < abs(v) < 1e290


def compare(c, mline):
    """returns (list of differences, number of Delta values compared, max relative Delta error)"""
    diffs = []
    t = mline.split()
    if t[0] != c["id"]:
        return [f"model answered case {t[0]}"], 0, 0.0
    mstatus, miter, mncb = t[1], int(t[2]), int(t[3])
    pat = t[4].strip("[]")
    mfd = float(t[5])
    mdel = [float(x) for x in t[6:]]
    if mstatus != c["status"]:
        diffs.append(f"status impl={c['status']} model={mstatus}")
    if miter != c["iter"]:
        diffs.append(f"iterations impl={c['iter']} model={miter}")
    if mncb != c["ncb"]:
        diffs.append(f"callbacks impl={c['ncb']} model={mncb}")
    ipat = "".join(("T" if it["take"] == "1" else "F") + ("S" if it["stepped"] == "1" else "-") for it in c["its"])
    mpat = "".join(pat[3 * k: 3 * k + 2] for k in range(len(pat) // 3))
    if ipat != mpat:
        k = next((j for j in range(min(len(ipat), len(mpat))) if ipat[j] != mpat[j]), min(len(ipat), len(mpat)))
        diffs.append(f"accept/reject pattern differs at iteration {k // 2}: impl={ipat[:60]} model={mpat[:60]}")
    # convergence letter of the model must be consistent with the status
    nd, maxe = 0, 0.0
    for k, (it, md) in enumerate(zip(c["its"], mdel)):
        dv = _f(it["delta"])
        if _normal(dv):
            nd += 1
            e = abs(md - dv) / abs(dv)
            maxe = max(maxe, e)
            if e > DELTA_TOL:
                diffs.append(f"Delta of iteration {k}: impl={dv!r} model={md!r}")
                break
    fd = _f(c["fdelta"])
    if _normal(fd) and c["strat"] != "S":
        nd += 1
        e = abs(mfd - fd) / abs(fd)
        maxe = max(maxe, e)
        if e > DELTA_TOL:
            diffs.append(f"Delta left in the strategy object: impl={fd!r} model={mfd!r}")
    return diffs, nd, maxe


def _build_harness():
    rh = vlib.repo_hash()
    src = os.path.join(VERIF, "harness", "h_c09.cpp")
    hh = vlib.file_hash(glob.glob(f"{VERIF}/harness/*.hpp") + [src])
    outs = [os.path.join(vlib.BUILD, "bin", f"h_c09p{k}-{rh}-{hh}") for k in (1, 2)]
    fails = vlib.build_cxx([(src, outs[k - 1], ["-O1", f"-I{VERIF}/harness", f"-DC09_PART={k}"]) for k in (1, 2)])
    return outs, fails


def _private_copies(d):
    """build the two harness parts and copy them into the private directory d (a concurrent check run for another
    VERIF_REPO garbage-collects build/bin entries of other repo hashes; retry when that happens in between)"""
    import shutil
    for attempt in range(3):
        try:
            outs, fails = _build_harness()
        except FileNotFoundError:   # two runs building the same binary at once: the other one moved the .tmp away
            continue
        if fails:
            return None, fails
        try:
            priv = []
            for o in outs:
                dst = os.path.join(d, os.path.basename(o))
                shutil.copy2(o, dst)
                priv.append(dst)
            return priv, {}
        except FileNotFoundError:
            continue
    return None, {"h_c09": "harness binaries disappeared from build/bin three times in a row (concurrent gc)"}


def corr(seed, tier):
    res = dict(problems=[], failures=[], evaluations=0, strata={}, stats={}, samples=[])
    with vlib.Lock():
        ok, log, _ = vlib.coq_make(["Model/C09_TrStrategy.vo", "Model/C09_Minimize.vo"], timeout=600)
        if not ok:
            res["problems"].append({"kind": "model-build-failed", "log": log[-2000:]})
            return res
        mbin, mlog = vlib.extract_build("C09", os.path.join(VERIF, "extract", "C09", "Extract.v"),
                                        os.path.join(VERIF, "extract", "C09", "driver.ml"))
    if mbin is None:
        res["problems"].append({"kind": "extraction-failed", "log": mlog[-2000:]})
        return res
    privdir = tempfile.TemporaryDirectory(prefix="c09bin")
    outs, fails = _private_copies(privdir.name)
    for o, lg in fails.items():
        res["problems"].append({"kind": "harness-build-failed", "harness": os.path.basename(o), "log": lg[-3000:]})
    if fails:
        return res
    env = dict(os.environ, VERIF_SEED=str(seed), VERIF_TIER=tier)
    procs = [subprocess.Popen([o], stdout=subprocess.PIPE, stderr=subprocess.PIPE, text=True, env=env) for o in outs]
    cases, reports = [], []
    for o, p in zip(outs, procs):
        try:
            out, err = p.communicate(timeout=2400)
        except subprocess.TimeoutExpired:
            p.kill()
            res["problems"].append({"kind": "harness-timeout", "harness": os.path.basename(o)})
            continue
        rep = None
        for line in out.splitlines():
            if line.startswith("R "):
                try:
                    cases.append(parse_trace(line))
                except Exception as e:
                    res["problems"].append({"kind": "trace-unparsable", "line": line[:300], "err": repr(e)})
            elif line.startswith("{"):
                try:
                    rep = json.loads(line)
                except json.JSONDecodeError:
                    pass
        if p.returncode != 0 or rep is None:
            res["problems"].append({"kind": "harness-crashed", "harness": os.path.basename(o), "rc": p.returncode,
                                    "tail": (out[-800:] + err[-800:])})
            continue
        reports.append(rep)
    # ---- property checks on the real code (done by the harness)
    nfail_h = 0
    stats = {}
    for rep in reports:
        res["evaluations"] += rep.get("evaluations", 0)
        nfail_h += rep.get("nfail", 0)
        for k, v in rep.get("strata", {}).items():
            res["strata"][k] = res["strata"].get(k, 0) + v
        for f in rep.get("failures", []):
            res["failures"].append(f)
        for k, v in rep.get("checks", {}).items():
            s = stats.setdefault(k, {"n": 0, "max": "0"})
            s["n"] += v["n"]
            m = rep.get("maxerr_sci", {}).get(k, "0")
            try:
                if not (float(m) <= float(s["max"])):
                    s["max"] = m
            except ValueError:
                s["max"] = m
        res["samples"] += rep.get("samples", [])[:3]
    stats["harness_failures_total"] = nfail_h
    # ---- replay through the extracted model
    inexact = [f["case"] for f in res["failures"] if f.get("check") == "oracle_recompute"]
    with tempfile.TemporaryDirectory(prefix="c09corr") as d:
        cf = os.path.join(d, "cases.txt")
        with open(cf, "w") as fh:
            for c in cases:
                fh.write(model_line(c) + "\n")
        cmd = f"ulimit -s 1000000 2>/dev/null; exec {mbin} {cf}" + (" pre-16638da" if PRE_FIX_MODEL else "")
        m = subprocess.run(["bash", "-c", cmd], stdout=subprocess.PIPE, stderr=subprocess.PIPE, text=True, timeout=2400)
        if m.returncode != 0:
            res["problems"].append({"kind": "model-driver-crashed", "rc": m.returncode, "tail": m.stderr[-1500:]})
            return res
        mlines = [l for l in m.stdout.splitlines() if l.strip()]
    if len(mlines) != len(cases):
        res["problems"].append({"kind": "model-driver-output", "what": "number of result lines differs",
                                "cases": len(cases), "lines": len(mlines)})
    ncmp = ndelta = 0
    maxe = 0.0
    iters = 0
    for c, ml in zip(cases, mlines):
        diffs, nd, e = compare(c, ml)
        ncmp += 1
        ndelta += nd
        maxe = max(maxe, e)
        iters += len(c["its"])
        if diffs:
            res["failures"].append({"check": "correspondence", "case": c["id"], "fam": c["fam"], "mode": c["mode"],
                                    "strategy": c["strat"], "max_iter": c["max_iter"], "ptol": _f(c["ptol"]),
                                    "ftol": _f(c["ftol"]), "what": "; ".join(diffs)[:600],
                                    "oracle_recompute_inexact": c["id"] in inexact,
                                    "impl": f"{c['status']} iter={c['iter']} callbacks={c['ncb']}", "model": ml[:200],
                                    "rho": [_f(it["rho"]) for it in c["its"][:12]]})
    stats["model_replays"] = ncmp
    stats["iterations_replayed"] = iters
    stats["delta_values_compared"] = ndelta
    stats["delta_max_rel_err"] = maxe
    res["evaluations"] += ncmp
    res["maxerr"] = {"Delta model vs implementation (relative)": maxe}
    res["stats"] = stats
    res["stats"]["model_instance"] = "pre-16638da (fixed = false, diagnostic)" if PRE_FIX_MODEL else "code_now (fixed = true, /repo since 16638da)"
    res["stats"]["distinct_nontrivial"] = sum(1 for c in cases if len(c["its"]) >= 2)
    res["stats"]["rule"] = ("one case = one minimize call on a generated problem/start/options; non-trivial = at least two loop "
                            "iterations executed; ids are unique per run")
    if cases:
        c = next((c for c in cases if 3 <= len(c["its"]) <= 8), cases[0])
        res["samples"].append({"trace": {"case": c["id"], "fam": c["fam"], "mode": c["mode"], "strategy": c["strat"],
                                         "max_iter": c["max_iter"], "status": c["status"], "iter": c["iter"],
                                         "callbacks": c["ncb"],
                                         "iterations": [{"Delta": _f(it["delta"]), "rho": _f(it["rho"]),
                                                         "take_step": it["take"] == "1", "stepped": it["stepped"] == "1"}
                                                        for it in c["its"]]}})
    return res


CFG = dict(
    coq_targets=["Props/Properties_C09.vo"],
    props_files=["Props/Properties_C09.v"],
    cone=["Model/C09_*.v", "Proofs/C09_*.v", "Props/Properties_C09.v"],
    corr=[corr],
    trusted_base=[
        "Coq 8.16.1 kernel incl. its vm_compute machine; full .vo build (no -vos); extraction to OCaml (ExtrOcamlBasic only) and ocamlopt for the replay driver",
        "Model/C09_Minimize.v + Model/C09_TrStrategy.v: hand transcription of optim.hpp:63-173 (instance code_now: with the r_n == 0 disjunct of :147, /repo since 16638da) and tr_strategy.hpp (file:line cited), tied to /repo every run by replaying the recorded runs of the real code (status, iteration count, callbacks, accept/reject pattern exact; Delta to 1e-9)",
        "oracle contract (Section hypothesis exact_oracle): pred_red >= 0, pred_red = 0 or r = 0 -> zero step (C10's theorem, C07 rplus(x,0)=x) - checked at run time on every iteration as fl_contract_a/b/c",
        "harness/h_c09.cpp: recomputes the numerical sub-results of each iteration with the library's dr / solve_trust_region as oracle and checks the recomputed rho against the rho the library hands to the strategy (bitwise); planted minimisers (long-double QR for linear LS) independent of smooth",
    ],
    assumptions=[
        "exact arithmetic in the cost_monotone theorem; the floating-point variant cost_monotone_fl assumes monotone rounding, the IEEE sign rule of division and a relative slack on the r_n == 0 / pred_red <= 0 branches, all checked at run time by the harness on every iteration of every run",
        "convergence clause (Ftol/Ptol within 1e-3 of the planted minimiser) is checked by the harness on generated well-conditioned problems for tolerances <= 1e-6 and a fresh strategy object; it is not a theorem",
        "differentiation modes available in this build: Numerical, Analytic, Default (autodiff / Ceres are not installed)",
    ],
)

TEXT = dict(
    technique="Coq proof over a hand-written executable model of the minimize loop and both trust-region strategies (oracle record for the numerics) + replay of recorded real runs through the extracted model + property harness on the real code",
    text="Machine-checked theorems (Coq 8.16, no axioms) over EVERY oracle sequence, option record, start and initial strategy state: callback points have non-increasing cost and the result is never worse than the start (exact arithmetic, any strategy that only takes steps with rho>0 - proved for Ceres and Disney; refuted for arbitrary user strategies), floating-point variant with relative slack; iter <= max_iter, callbacks = 1 + accepted steps <= max_iter+1; MaxIters iff no convergence test fired (then iter = max_iter), a Ftol/Ptol status is the verdict of the last executed iteration, which took a step; final arguments = last callback point; Delta>0 preserved, rejection at least halves (Ceres) / divides by 10 (Disney) Delta, acceptance bounds; an iteration that sees a zero residual is the last one and the run reports Ftol (C09_zero_residual_stops, C09_zero_residual_ends_run; also checked on the real code as zero_residual_stops). All loop theorems are stated for the model instance code_now = the code since 16638da. The model is tied to /repo by replaying ~1000 recorded minimize runs per tier unit (linear LS static/dynamic/sparse, polynomial, SO3/SE2/SE3/Bundle alignment, multi-argument, sparse Jacobian, curve fitting; Numerical/Analytic/Default; Ceres/Disney/scripted/reused strategy; all option boundaries incl. max_iter 0/1, tolerances 0 and negative; degenerate starts). Convergence within 1e-3 of planted minimisers by harness (partial: correspondence only).",
    note="Finding C09-zero-residual-nan (with ptol <= 0 and an exactly zero residual the loop spun, Delta underflowed, lambda = 1/Delta = inf, the solver returned NaN and the r_n == 0 branch stored NaN into the arguments) is FIXED in /repo by 16638da (notes/C09-zero-residual.patch); the entry in known_findings.d/C09.jsonl has status fixed and suppresses nothing, so a return of the behaviour is a VIOLATION (property checks monotone / fl_contract_b / not_worse_than_start / zero_residual_stops plus correspondence status impl=MaxIters model=Ftol). C09_zero_residual_spin_refuted is kept as a historical lemma about the pre-fix instance (fixed = false) of the parametrised model.",
    design_ref="DESIGN.md section 5 C09; notes/C09.md",
)
