"""C10 - the trust-region step solver returns the regularised least-squares minimiser.

CFG: what ./check C10 runs.  corr(): real solve_linear_ldlt / solve_trust_region / colwise_norm (dense and sparse J)
against the extracted exact model (Coq Q arithmetic, Gauss-Jordan as the `solve` instance, every model answer
certified exactly by sll_certified) on small dyadic-rational inputs."""
import math, os, subprocess, tempfile, concurrent.futures
from fractions import Fraction

import vlib
from vlib import VERIF

TB = [
    "Coq 8.16.1 kernel incl. its vm_compute machine; Coquelicot 3.x (is_derive); full .vo build (no -vos)",
    "Model/C10_Assembly.v: hand transcription of tr_solver.hpp:67-78,136-140 and math.hpp:28-46 into Gallina over Q "
    "(tied to /repo on every run by the correspondence check against the real dense and sparse instantiations)",
    "Eigen::LDLT / Eigen::SimplicialLDLT factor+solve: Section variable `solve` with contract 'H (solve H b) = b for "
    "symmetric positive definite H' (theorems C10_model_solve_linear_ldlt / _trust_region); checked at run time on every "
    "harness input as the 1e-8 backward-error clause.  The certificate theorem C10_model_certified needs no such contract.",
    "Coq extraction to OCaml (ExtrOcamlBasic only; nat/positive/Z/Q stay Coq's datatypes) + extract/C10/driver.ml (parsing/printing)",
    "harness/h_c10.cpp: long-double oracle written with plain loops (H, b, residuals, Cholesky for the finite-difference "
    "reference of dphi, Eigen SelfAdjointEigenSolver<long double> only for the condition-number gate)",
    "real-number semantics: rounding is not modelled; the numeric clauses (1e-8 backward error, 1e-6 dense/sparse, dphi vs "
    "finite difference) are measured on the real code, not proved",
]

CFG = dict(
    coq_targets=["Props/Properties_C10.vo"],
    props_files=["Props/Properties_C10.v"],
    cone=["Model/C10_*.v", "Proofs/C10_*.v", "Props/Properties_C10.v"],
    harnesses=[dict(name="h_c10")],
    corr=[],  # filled below
    trusted_base=TB,
    assumptions=[
        "the dphi theorem assumes a differentiable curve of solutions lambda |-> x(lambda) (it exists by Cramer's rule; "
        "existence is not proved) and shows the code's expression is its d/dlambda |D x(lambda)|",
        "backward error is measured as |H x - b|_inf / (|H|_inf |x|_inf + | |J|'|r| |_inf): b = -J'r is formed in binary64, "
        "so its rounding error is relative to the data |J|'|r|, not to |b| (which cancels to 0 when r is orthogonal to range J)",
        "dense/sparse agreement (1e-6, cond <= 1e8) is relative to |x| plus the rounding-noise floor 1e-9 cond/|H| | |J|'|r| |",
        "dphi is compared with a Richardson central difference (long double) on the scale phi/lambda when cond <= 1e8 and "
        "J'r is not rounding noise; for an exactly zero J'r the code must return dphi == 0",
        "model correspondence: shapes 1..8 (thorough 1..10), entries k/2^s, agreement 1e-9 relative when cond <= 1e6 "
        "(cond*1e-14 above, skipped when that exceeds 1e-3)",
    ],
)

TEXT = dict(
    technique="Coq proof (real linear algebra over finite sums + executable Q model with the LDLT solve as a contracted Section "
              "variable and an exact certificate check) + extracted-model correspondence + long-double property harness on the real code",
    text="Machine-checked (Coq 8.16, Coquelicot): for every shape m x n, every J (rank-deficient included), lambda > 0 and "
         "positive d, a solution of (J'J + lambda D^2) x = -J'r is the unique minimiser of |J y + r|^2 + lambda |D y|^2 "
         "(completing the square; strict inequality for y <> x), |J x + r| <= |r|, pred_red >= 0 and = 0 iff x = 0, H is SPD, and "
         "the code's dphi expression (second solve with right-hand side d.*(-d.*x), normalised dot product, Eigen's normalized() "
         "zero case included) is d/dlambda |D x(lambda)| for every differentiable solution curve.  The smooth-authored assembly "
         "(H = J'J, the diagonal loop, rhs -J'r, lambda = 1/Delta, dphi post-processing, colwise_norm dense/sparse) is transcribed "
         "to an executable model over Q; theorems show the model's H/rhs are J'J + lambda D^2 / -J'r, so under the LDLT contract - "
         "or whenever the exact certificate check passes, which the extracted driver evaluates on every case - its output "
         "satisfies all of the above.  The model is compared on every run with the real dense and sparse instantiations "
         "(small dyadic inputs, 1e-9), and the property itself (1e-8 backward error = Eigen contract check, dense/sparse 1e-6, "
         "dphi vs finite difference, descent, lambda = 1/Delta, direct minimiser test, colwise_norm) is checked on the real code "
         "for shapes up to 40 x 40, lambda/Delta in 1e-6..1e6, seven J families incl. rank-deficient/zero.",
    note="Trusted: Coq kernel + stdlib real axioms; the hand transcription (checked by correspondence); Eigen's LDLT contract "
         "(checked numerically on every input); rounding not modelled - numeric tolerances are measured, not proved.",
    design_ref="DESIGN.md section 5 C10; notes/C10.md",
)


def _parse_q(tok):
    a, b = tok.split("/")
    neg = a.startswith("-")
    if neg:
        a = a[1:]
    v = Fraction(int(a, 2), int(b, 2))
    return -v if neg else v


def _strict(o):
    """strict-JSON copy: nan/inf become strings"""
    if isinstance(o, float) and (math.isnan(o) or math.isinf(o)):
        return str(o)
    if isinstance(o, dict):
        return {k: _strict(v) for k, v in o.items()}
    if isinstance(o, (list, tuple)):
        return [_strict(v) for v in o]
    return o


def _take_vec(toks, i, conv):
    n = int(toks[i + 1])
    return [conv(t) for t in toks[i + 2:i + 2 + n]], i + 2 + n


def _run_model(binp, lines, nshards=8):
    """run the extracted driver on shards of the case list in parallel; returns result lines in order"""
    shards = [lines[k::nshards] for k in range(nshards)]
    outs = [None] * nshards

    def one(k):
        if not shards[k]:
            return k, "", 0
        with tempfile.NamedTemporaryFile("w", suffix=".cases", delete=False) as f:
            f.write("\n".join(shards[k]) + "\n")
            name = f.name
        try:
            r = subprocess.run([binp, name], stdout=subprocess.PIPE, stderr=subprocess.PIPE, text=True, timeout=3000)
        finally:
            os.unlink(name)
        return k, r.stdout, r.returncode

    with concurrent.futures.ThreadPoolExecutor(nshards) as ex:
        for k, out, rc in ex.map(one, range(nshards)):
            outs[k] = (out.splitlines(), rc)
    res = [None] * len(lines)
    for k in range(nshards):
        ol, rc = outs[k]
        if rc != 0 or len(ol) != len(shards[k]):
            return None
        for t, l in enumerate(ol):
            res[k + t * nshards] = l
    return res


def corr(seed, tier):
    problems, failures, samples = [], [], []
    strata, stats = {}, {}
    hb, hlog = vlib.build_one_cxx(os.path.join(VERIF, "harness", "h_c10.cpp"), "h_c10")
    if hb is None:
        return dict(problems=[{"kind": "harness-build-failed", "harness": "h_c10(corr)", "log": hlog[-3000:]}])
    mb, mlog = vlib.extract_build("C10", os.path.join(VERIF, "extract", "C10", "Extract.v"),
                                  os.path.join(VERIF, "extract", "C10", "driver.ml"))
    if mb is None:
        return dict(problems=[{"kind": "model-extraction-failed", "log": mlog[-3000:]}])
    with tempfile.TemporaryDirectory() as td:
        cf = os.path.join(td, "cases.txt")
        env = dict(os.environ, VERIF_SEED=str(seed), VERIF_TIER=tier)
        r = subprocess.run([hb, "corr", cf], stdout=subprocess.PIPE, stderr=subprocess.PIPE, text=True, env=env, timeout=3000)
        if r.returncode != 0:
            return dict(problems=[{"kind": "harness-crashed", "harness": "h_c10(corr)", "rc": r.returncode,
                                   "log": (r.stdout[-1500:] + r.stderr[-1500:])}])
        impl = r.stdout.splitlines()
        cases = open(cf).read().splitlines()
    model = _run_model(mb, cases)
    if model is None or len(model) != len(impl) or len(impl) != len(cases):
        return dict(problems=[{"kind": "model-driver-failed", "log": "line counts differ or driver crashed"}])

    def bump(d, k, v=1):
        d[k] = d.get(k, 0) + v

    def mx(k, v):
        stats[k] = max(stats.get(k, 0.0), v)

    def fail(check, idx, it, extra):
        rec = {"check": check, "case": idx, "mode": it[0], "m": int(it[2]), "n": int(it[3]), "Jkind": it[4],
               "lamkind": it[5], "case_line": cases[idx][:2000]}
        rec.update(extra)
        failures.append(_strict(rec))

    for idx, (il, ml) in enumerate(zip(impl, model)):
        it, mt = il.split(), ml.split()
        mode = it[0]
        bump(strata, "mode." + mode)
        bump(strata, "J." + it[4])
        bump(strata, "lam." + it[5])
        bump(strata, "n=%s" % it[3])
        if mt[0] != mode:
            problems.append({"kind": "correspondence-desync", "case": idx})
            break
        if mode in ("L", "T"):
            cert = mt[3] == "1"
            if not cert:
                fail("model_certificate", idx, it, {"what": "gauss_solve answer did not pass sll_certified"})
                continue
            xm, p = _take_vec(mt, 4, _parse_q)
            cond = float.fromhex(it[7])
            xd, q = _take_vec(it, 8, float.fromhex)
            xs, q = _take_vec(it, q, float.fromhex)
            tol = 1e-9 if cond <= 1e6 else cond * 1e-14
            bump(strata, "cond<=1e6" if cond <= 1e6 else "cond>1e6")
            if tol > 1e-3:
                bump(strata, "skipped_illconditioned")
                continue
            scale = max([abs(v) for v in xm] + [Fraction(0)])
            for name, xv in (("dense", xd), ("sparse", xs)):
                if len(xv) != len(xm):
                    fail("x_size", idx, it, {"variant": name})
                    continue
                if any(math.isnan(v) or math.isinf(v) for v in xv):
                    fail("x_model_vs_impl", idx, it, {"variant": name, "err": "nan/inf", "impl": xv})
                    continue
                err = max(abs(Fraction(v) - w) for v, w in zip(xv, xm))
                e = float(err / scale) if scale > 0 else float(err)
                mx("x_relerr." + name, e)
                if (scale > 0 and e > tol) or (scale == 0 and err != 0):
                    fail("x_model_vs_impl", idx, it, {"variant": name, "err": e, "tol": tol, "cond": cond,
                                                      "impl": xv, "model": [float(w) for w in xm]})
            if mode == "L":
                num, sq = _parse_q(mt[p + 1]), _parse_q(mt[p + 3])
                dm = float(num) / math.sqrt(float(sq)) if sq > 0 else float(num)
                dd, ds = float.fromhex(it[q + 1]), float.fromhex(it[q + 2])
                bump(strata, "dphi.zero" if sq == 0 else "dphi.generic")
                for name, v in (("dense", dd), ("sparse", ds)):
                    if dm == 0:
                        ok, e = (v == 0), abs(v)
                    else:
                        e = abs(v - dm) / abs(dm)
                        ok = e <= 4 * tol
                    mx("dphi_relerr." + name, e if not math.isnan(e) else 1e300)
                    if not ok:
                        fail("dphi_model_vs_impl", idx, it, {"variant": name, "err": e, "tol": 4 * tol, "cond": cond,
                                                             "impl": v, "model": dm})
            else:
                lm = _parse_q(mt[p + 1])
                l1, l2 = float.fromhex(it[q + 1]), float.fromhex(it[q + 2])
                want = float(lm)  # correctly rounded 1/Delta, as IEEE division is
                if not (l1 == want and l2 == want):
                    fail("lambda_model_vs_impl", idx, it, {"impl": [l1, l2], "model": want})
            if len(samples) < 4:
                samples.append({"case": idx, "mode": mode, "m": int(it[2]), "n": int(it[3]), "Jkind": it[4],
                                "case_line": cases[idx][:400], "model_x": [str(w) for w in xm][:4],
                                "impl_x_dense": xd[:4], "cond": cond})
        else:
            cdm, p = _take_vec(mt, 2, _parse_q)
            csm, p = _take_vec(mt, p, _parse_q)
            cdi, q = _take_vec(it, 6, float.fromhex)
            csi, q = _take_vec(it, q, float.fromhex)
            if cdm != csm:
                fail("colwise_model_dense_vs_sparse", idx, it, {})
            for name, cv in (("dense", cdi), ("sparse", csi)):
                if len(cv) != len(cdm):
                    fail("colwise_size", idx, it, {"variant": name})
                    continue
                for j, (v, w) in enumerate(zip(cv, cdm)):
                    if w == 0:
                        e = abs(v)
                    else:
                        e = abs(float((Fraction(v) ** 2 - w) / w)) / 2 if not (math.isnan(v) or math.isinf(v)) else 1e300
                    mx("colwise_relerr." + name, e)
                    if e > 1e-14:
                        fail("colwise_model_vs_impl", idx, it, {"variant": name, "col": j, "impl": v,
                                                                "model_sq": float(w), "err": e})
    stats = {k: float("%.3e" % v) for k, v in stats.items()}
    return dict(problems=problems, failures=failures[:40], evaluations=len(cases), strata=strata, stats=stats,
                samples=samples, maxerr=stats)


CFG["corr"] = [corr]
