"""C12 - Spline construction, concatenation and cropping preserve the curve.
Check configuration (CFG), manifest wording (TEXT) and the Engine-B correspondence runner (corr)."""
import json, math, os, subprocess, tempfile
from fractions import Fraction

import vlib
from vlib import VERIF

TOL = 1e-12       # values / derivatives, relative to max(1,|v|)
TOL_ARC = 1e-9    # arclength: python's own integral of |quadratic| vs integrate_absolute_polynomial


def _hexq(s):
    n, d = s.split("/")
    neg = n.startswith("-")
    if neg:
        n = n[1:]
    v = Fraction(int(n, 16), int(d, 16))
    return -v if neg else v


def _abs_int_poly(coefs, a, b):
    """integral over [a,b] of |c0 + c1 u + c2 u^2| (independent of the library: roots by the quadratic formula,
    antiderivative evaluated piecewise)"""
    c = [float(x) for x in coefs] + [0.0, 0.0, 0.0]
    c0, c1, c2 = c[0], c[1], c[2]
    if any(abs(x) > 0 for x in c[3:]):
        raise ValueError("degree > 2")
    a, b = float(a), float(b)
    sign = 1.0
    if b < a:
        a, b, sign = b, a, -1.0
    roots = []
    if c2 != 0:
        disc = c1 * c1 - 4 * c2 * c0
        if disc > 0:
            sq = math.sqrt(disc)
            q = -0.5 * (c1 + math.copysign(sq, c1))
            roots = [q / c2] + ([c0 / q] if q != 0 else [])
    elif c1 != 0:
        roots = [-c0 / c1]
    pts = [a] + sorted(r for r in roots if a < r < b) + [b]
    P = lambda u: c0 * u + c1 * u * u / 2 + c2 * u * u * u / 3
    return sign * sum(abs(P(pts[i + 1]) - P(pts[i])) for i in range(len(pts) - 1))


def _close(model, cpp, tol):
    if not math.isfinite(cpp):
        return False
    m = float(model)
    return abs(m - cpp) <= tol * max(1.0, abs(m))


def compare(ops_lines, cpp_lines, ml_lines):
    """returns (failures, ncompared, maxerr)"""
    failures = []
    maxerr = 0.0
    n = 0
    skipped = {}
    if len(cpp_lines) != len(ml_lines):
        failures.append({"check": "correspondence", "what": "different number of result lines",
                         "impl": len(cpp_lines), "model": len(ml_lines)})
    for lc, lm in zip(cpp_lines, ml_lines):
        tc, tm = lc.split(), lm.split()
        n += 1
        ln = int(tc[0])
        opline = ops_lines[ln - 1] if 0 < ln <= len(ops_lines) else "?"
        bad = None
        if tc[0] != tm[0] or tc[1] != tm[1]:
            bad = "line/kind mismatch"
        elif tc[1] in ("flags", "crop"):
            if tc[2:] != tm[2:]:
                bad = "discrete result differs"
        elif tc[1] == "obs":
            if int(tc[2]) != int(tm[2]):
                bad = "size() differs"
            elif Fraction(float(tc[3])) != _hexq(tm[3]):
                bad = "t_max() differs (exact comparison)"
            else:
                for a, b in zip(tc[4:], tm[4:]):
                    if not _close(_hexq(b), float(a), TOL):
                        bad = "start()/end() differ"
        elif tc[1] == "eval":
            for k, (a, b) in enumerate(zip(tc[2:], tm[2:])):
                mv = _hexq(b)
                av = float(a)
                if math.isfinite(av):
                    maxerr = max(maxerr, abs(float(mv) - av) / max(1.0, abs(float(mv))))
                if not _close(mv, av, TOL):
                    bad = ["value", "value", "velocity", "velocity", "acceleration", "acceleration"][k] + " differs"
                    break
        elif tc[1] == "arc":
            want = [0.0, 0.0]
            reversed_part = False
            for part in tm[2:]:
                ua, ub, px, py = part.split(";")
                ua, ub = _hexq(ua), _hexq(ub)
                if ub < ua:
                    # only reachable from states that violate the invariant (negative Del after the known crop
                    # defect): std::clamp(mid, t0, t1) with t1 < t0 has no defined meaning -> not compared
                    reversed_part = True
                    break
                want[0] += _abs_int_poly([_hexq(x) for x in px.split(",") if x], ua, ub)
                want[1] += _abs_int_poly([_hexq(x) for x in py.split(",") if x], ua, ub)
            if reversed_part:
                skipped["arclength_reversed_interval_not_compared"] = skipped.get("arclength_reversed_interval_not_compared", 0) + 1
            else:
                for a, w in zip(tc[2:], want):
                    av = float(a)
                    if not (math.isfinite(av) and abs(av - w) <= TOL_ARC * max(1.0, abs(w))):
                        bad = "arclength differs from the integral over the model's parts"
        if bad:
            # find the history (degree) this line belongs to
            K = None
            for j in range(ln - 1, -1, -1):
                if ops_lines[j].startswith("K "):
                    K = int(ops_lines[j].split()[1])
                    start = j
                    break
            failures.append({"check": "correspondence", "what": bad, "op": opline, "op_line": ln, "K": K,
                             "impl": lc, "model": lm,
                             "history": ops_lines[start:ln][:60] if K is not None else None})
            if tc[0] != tm[0]:
                break
    return failures, n, maxerr, skipped


def corr(seed, tier):
    res = dict(problems=[], failures=[], evaluations=0, strata={}, stats={}, samples=[])
    # model must be compiled (it is a dependency of the proofs; build it explicitly so that a broken proof file
    # does not take the correspondence down with it)
    def _fresh(name):
        v, vo = os.path.join(vlib.COQ, "Model", name + ".v"), os.path.join(vlib.COQ, "Model", name + ".vo")
        return os.path.exists(vo) and os.path.getmtime(vo) >= os.path.getmtime(v)
    with vlib.Lock():
        if not (_fresh("C12_SplineBook") and _fresh("C12_Inst")):
            ok, log, _ = vlib.coq_make(["Model/C12_SplineBook.vo", "Model/C12_Inst.vo"], timeout=600)
            if not ok:
                res["problems"].append({"kind": "model-build-failed", "log": log[-2000:]})
                return res
        mbin, mlog = vlib.extract_build("C12", os.path.join(VERIF, "extract", "C12", "Extract.v"),
                                        os.path.join(VERIF, "extract", "C12", "driver.ml"))
    if mbin is None:
        res["problems"].append({"kind": "extraction-failed", "log": mlog[-2000:]})
        return res
    hbin, hlog = vlib.build_one_cxx(os.path.join(VERIF, "harness", "h_c12corr.cpp"), "h_c12corr")
    if hbin is None:
        res["problems"].append({"kind": "harness-build-failed", "harness": "h_c12corr", "log": hlog[-3000:]})
        return res
    with tempfile.TemporaryDirectory(prefix="c12corr") as d:
        opsf = os.path.join(d, "ops.txt")
        env = dict(os.environ, VERIF_SEED=str(seed), VERIF_TIER=tier)
        r = subprocess.run([hbin, opsf], stdout=subprocess.PIPE, stderr=subprocess.PIPE, text=True, env=env, timeout=1200)
        if r.returncode != 0:
            res["problems"].append({"kind": "harness-crashed", "harness": "h_c12corr", "rc": r.returncode,
                                    "tail": r.stdout[-1000:] + r.stderr[-1000:]})
            return res
        out = r.stdout.splitlines()
        summary = json.loads(out[-1])
        cpp_lines = out[:-1]
        m = subprocess.run([mbin, opsf], stdout=subprocess.PIPE, stderr=subprocess.PIPE, text=True, timeout=1200)
        if m.returncode != 0:
            res["problems"].append({"kind": "model-driver-crashed", "rc": m.returncode, "tail": m.stderr[-1500:]})
            return res
        ml_lines = m.stdout.splitlines()
        ops_lines = open(opsf).read().splitlines()
    fails, n, maxerr, skipped = compare(ops_lines, cpp_lines, ml_lines)
    res["failures"] = fails[:20]
    res["evaluations"] = n
    res["strata"] = summary["strata"]
    flags = cpp_lines[0].split()[2:]
    res["stats"] = {"result_lines_compared": n, "operations": len(ops_lines),
                    "flags_detected(crop_idx,crop_frame,cv,make_local)": " ".join(flags),
                    "max_rel_err_values": "%.3e" % maxerr, "mismatches": len(fails), **skipped}
    res["maxerr"] = {"corr.values": "%.3e" % maxerr}
    # real samples: an op with both outputs
    for want in ("crop", "eval", "obs"):
        for lc, lm in zip(cpp_lines, ml_lines):
            if lc.split()[1] == want:
                ln = int(lc.split()[0])
                res["samples"].append({"op": ops_lines[ln - 1], "impl": lc, "model": lm})
                break
    return res


TB = [
    "Coq 8.16.1 kernel incl. its vm_compute machine (witness computations of the _refuted theorems and Examples); full .vo build",
    "Model/C12_SplineBook.v: hand transcription of spline_impl.hpp / utils.hpp binary_interval_search (cited line by line); "
    "tied to the code on every run by the correspondence below, not by proof",
    "extraction (ExtrOcamlBasic only) + extract/C12/driver.ml + OCaml 4.13; harness/h_c12corr.cpp (reads the private segment "
    "vectors through '#define private public' around spline.hpp, no source change); the python comparator in scripts/props_C12.py",
    "harness/h_c12.cpp + docmat.hpp: long-double matrix oracle (documented matrices, scaling-and-squaring expm) for the "
    "property checks on SO3/SE2/SE3/R2 splines (failing-input search)",
    "segment evaluator cspline_eval_vs is a Section variable with contract seg V 0 = e (and, for ConstantVelocity/FixedCubic, "
    "seg V u = prod_j exp(B~_j(u) V_j)): that contract is property C11; at the vector instance it is proved (C12_Inst)",
    "interpolating search: the pivot is computed in binary64 by the code and in Q by the model; the theorem bis_spec holds "
    "for every pivot in range, so the result is pivot independent",
]

CFG = dict(
    coq_targets=["Props/Properties_C12.vo"],
    props_files=["Props/Properties_C12.v"],
    cone=["Proofs/C12_*.v", "Props/Properties_C12.v"],
    harnesses=[dict(name="h_c12")],
    corr=[corr],
    trusted_base=TB,
    assumptions=[
        "exact rational time arithmetic: binary64 rounding of u = T0 + Del (t - ta)/T and of the crop re-parameterisation is not modelled "
        "(correspondence uses dyadic knots so that all comparisons of times are exact; values agree to 1e-12)",
        "operands of += / concat_global are values: aliasing (x += x with x.start() != identity) is outside the model (see notes/C12.md)",
        "arclength: bookkeeping (which sub-interval of which segment is integrated) is modelled and proved; the integral of |quadratic| "
        "itself (integrate_absolute_polynomial) belongs to C20 and is a Section variable here",
        "degree K = 0 (piecewise constant) is excluded (the property quantifies over degrees 1..5)",
    ],
)

TEXT = dict(
    technique="Coq proof over a hand-transcribed executable model of the Spline bookkeeping (abstract group + abstract segment evaluator), "
              "extracted-model-vs-implementation correspondence on random operation histories, long-double oracle harness on SO3/SE2/SE3",
    text="Machine-checked theorems (Coq 8.16) about a line-by-line Gallina model of smooth::Spline (five parallel per-segment vectors, "
         "interpolating interval search, operator(), concat_local/+=, concat_global, crop, make_local, ConstantVelocity, FixedCubic, arclength), "
         "parametric in an arbitrary group and segment evaluator: the well-formedness invariant (equal lengths, strictly increasing knots, "
         "0<=T0, 0<Del, T0+Del<=1, continuity equation) holds after EVERY operation list (fold_left); evaluation is the segment curve on the "
         "segment containing t and start()/end() with zero derivatives outside; concat_local/concat_global/crop/make_local satisfy their "
         "documented equations incl. identical velocity/acceleration data; ConstantVelocity(v,T,ga)(t)=ga*exp(t v) for every degree K; "
         "FixedCubic meets end poses and end velocities. The model carries one flag per genuine defect of the unchanged tree "
         "(crop index offset, crop frame, ConstantVelocity T/3, make_local): theorems hold with the flag set (repaired code), "
         "_refuted theorems with concrete witnesses hold with it cleared (current code). The correspondence run detects the flags from the "
         "real code and compares the extracted model against Spline<K,Vector2d>, K=1..5 on random histories (exact size()/t_max(), values to 1e-12).",
    note="Trusted: Coq kernel; the hand transcription (tied by correspondence only); extraction + drivers; cspline_eval_vs contract (C11); "
         "integrate_absolute_polynomial (C20). Known findings C12-crop-index, C12-crop-frame, C12-constant-velocity, C12-make-local "
         "(patches in notes/).",
    design_ref="DESIGN.md section 5 C12; notes/C12.md",
)
