"""C14 - curve construction meets its specification: check configuration, generator and correspondence runner."""
import json, os, subprocess, tempfile, shutil, glob, math
import vlib
from vlib import VERIF, COQ, BUILD

TOL_RESID = 1e-6      # the property's tolerance on every linear constraint of fit_spline_1d (relative)
TOL_MODEL_ORACLE = 1e-9   # agreement of the model's constraint rows with the independent finite-difference oracle


def _harness(name):
    src = os.path.join(VERIF, "harness", name + ".cpp")
    return vlib.build_one_cxx(src, name)


def gen_basis(seed, tier):
    """regenerate coq/Gen/BasisC14.v from /repo's constexpr basis code (every run)"""
    rh = vlib.repo_hash()
    src = os.path.join(VERIF, "harness", "h_c14_basisdump.cpp")
    hh = vlib.file_hash([src])
    out = os.path.join(BUILD, "bin", f"h_c14_basisdump-{rh}-{hh}")
    fails = vlib.build_cxx([(src, out, ["-O0"])])
    if out in fails:
        return [{"kind": "generator-build-failed", "unit": "h_c14_basisdump", "log": fails[out][-3000:]}]
    os.makedirs(vlib.GEN, exist_ok=True)
    tmp = os.path.join(vlib.GEN, "BasisC14.v.tmp")
    r = vlib.sh([out, tmp])
    if r.returncode != 0:
        return [{"kind": "generator-run-failed", "unit": "h_c14_basisdump", "log": r.stdout[-2000:]}]
    dst = os.path.join(vlib.GEN, "BasisC14.v")
    # keep the timestamp when nothing changed so that make does not rebuild the cone needlessly
    if not os.path.exists(dst) or open(dst).read() != open(tmp).read():
        os.replace(tmp, dst)
    else:
        os.remove(tmp)
    return []


def _fh(s):
    return float("inf") if s == "inf" else float.fromhex(s)


def _fhs(s):
    return float("inf") if s == "inf" else float("-inf") if s == "-inf" else float.fromhex(s)


def _run(cmd, env, timeout=1500):
    try:
        return subprocess.run(cmd, stdout=subprocess.PIPE, stderr=subprocess.PIPE, text=True, env=env, timeout=timeout)
    except subprocess.TimeoutExpired as ex:
        # a timed-out stage is reported as a crashed stage (rc 124); the failures collected so far are kept
        out = ex.stdout.decode() if isinstance(ex.stdout, bytes) else (ex.stdout or "")
        return subprocess.CompletedProcess(cmd, 124, out, f"timeout after {timeout} s")


def _last_json(text):
    rep = None
    for line in text.splitlines():
        line = line.strip()
        if line.startswith("{"):
            try:
                rep = json.loads(line)
            except json.JSONDecodeError:
                pass
    return rep


def corr(seed, tier):
    problems, failures, samples = [], [], []
    strata, stats = {}, {}
    evaluations = 0
    env = dict(os.environ, VERIF_SEED=str(seed), VERIF_TIER=tier)
    # ---- build everything (harnesses in parallel, model driver)
    rh = vlib.repo_hash()
    names = ["h_c14_fit1d", "h_c14_fit", "h_c14_misc"]
    jobs, outs = [], {}
    for n in names:
        src = os.path.join(VERIF, "harness", n + ".cpp")
        hh = vlib.file_hash(glob.glob(f"{VERIF}/harness/*.hpp") + [src])
        out = os.path.join(BUILD, "bin", f"{n}-{rh}-{hh}")
        outs[n] = out
        jobs.append((src, out, ["-O1", f"-I{VERIF}/harness"]))
    fails = vlib.build_cxx(jobs)
    for out, log in fails.items():
        problems.append({"kind": "harness-build-failed", "harness": os.path.basename(out), "log": log[-3000:]})
    drv, dlog = vlib.extract_build("C14", os.path.join(VERIF, "extract", "C14", "Extract.v"),
                                   os.path.join(VERIF, "extract", "C14", "driver.ml"))
    if drv is None:
        problems.append({"kind": "model-extraction-failed", "log": dlog[-3000:]})
    work = tempfile.mkdtemp(prefix="c14-", dir=BUILD)
    try:
        # run private copies: other checks running concurrently (other VERIF_REPO hashes) garbage-collect build/bin
        for n in names:
            if outs[n] in fails:
                continue
            dst = os.path.join(work, n)
            for attempt in range(3):
                try:
                    shutil.copy2(outs[n], dst)
                    break
                except OSError:
                    f2 = vlib.build_cxx([j for j in jobs if j[1] == outs[n]])
                    if outs[n] in f2:
                        problems.append({"kind": "harness-build-failed", "harness": n, "log": f2[outs[n]][-3000:]})
                        fails[outs[n]] = f2[outs[n]]
                        break
            else:
                problems.append({"kind": "harness-build-failed", "harness": n, "log": "binary vanished repeatedly"})
                fails[outs[n]] = "vanished"
            if outs[n] not in fails:
                outs[n] = dst
        if drv:
            try:
                d2 = os.path.join(work, "model_driver")
                shutil.copy2(drv, d2)
                drv = d2
            except OSError:
                drv, dlog = vlib.extract_build("C14", os.path.join(VERIF, "extract", "C14", "Extract.v"),
                                               os.path.join(VERIF, "extract", "C14", "driver.ml"))
        # ------------------------------------------------------------------ fit_spline_1d vs model + oracle
        ok = {n: (os.path.dirname(outs[n]) == work) for n in names}
        if ok["h_c14_fit1d"] and drv:
            f1 = os.path.join(work, "f1d.txt")
            r = _run([outs["h_c14_fit1d"], f1], env)
            rep = _last_json(r.stdout)
            if r.returncode != 0 or rep is None:
                problems.append({"kind": "harness-crashed", "harness": "h_c14_fit1d", "rc": r.returncode, "tail": (r.stdout + r.stderr)[-1500:]})
            else:
                for k, v in rep["strata"].items():
                    strata["fit1d/" + k] = v
                m = _run([drv, f1], env, timeout=300)
                if m.returncode != 0:
                    problems.append({"kind": "model-driver-crashed", "stage": "fit1d", "tail": (m.stdout + m.stderr)[-1500:]})
                else:
                    _cmp_fit1d(f1, m.stdout, failures, problems, stats, samples)
                    evaluations += rep["evaluations"]
        # ------------------------------------------------------------------ fit_spline on groups
        if ok["h_c14_fit"]:
            r = _run([outs["h_c14_fit"]], env)
            rep = _last_json(r.stdout)
            if r.returncode != 0 or rep is None:
                problems.append({"kind": "harness-crashed", "harness": "h_c14_fit", "rc": r.returncode, "tail": (r.stdout + r.stderr)[-1500:]})
            else:
                evaluations += rep["evaluations"]
                for k, v in rep["strata"].items():
                    strata["fit/" + k] = v
                stats["fit_spline_maxerr"] = rep.get("maxerr_sci")
                stats["fit_spline_fail_by_key"] = rep.get("fail_by_key")
                failures += rep.get("failures", [])
                samples += rep.get("samples", [])[:2]
        # ------------------------------------------------------------------ dubins / bspline / reparam
        if ok["h_c14_misc"] and drv:
            f3 = os.path.join(work, "misc.txt")
            r = _run([outs["h_c14_misc"], f3], env)
            rep = _last_json(r.stdout)
            if r.returncode != 0 or rep is None:
                problems.append({"kind": "harness-crashed", "harness": "h_c14_misc", "rc": r.returncode, "tail": (r.stdout + r.stderr)[-1500:]})
            else:
                evaluations += rep["evaluations"]
                for k, v in rep["strata"].items():
                    strata[k] = v
                stats["misc_maxerr"] = rep.get("maxerr_sci")
                stats["misc_fail_by_key"] = rep.get("fail_by_key")
                failures += rep.get("failures", [])
                samples += rep.get("samples", [])[:3]
                m = _run([drv, f3], env, timeout=300)
                if m.returncode != 0:
                    problems.append({"kind": "model-driver-crashed", "stage": "misc", "tail": (m.stdout + m.stderr)[-1500:]})
                else:
                    _cmp_misc(f3, m.stdout, failures, problems, stats, strata)
    finally:
        shutil.rmtree(work, ignore_errors=True)
    return dict(problems=problems, failures=failures, evaluations=evaluations, strata=strata, stats=stats, samples=samples[:8])


def _cmp_fit1d(path, model_out, failures, problems, stats, samples):
    meta, orc = {}, {}
    for l in open(path):
        t = l.split(" ", 2)
        if t[0] == "META":
            meta[int(t[1])] = json.loads(t[2])
        elif t[0] == "ORC":
            tt = l.split()
            orc[int(tt[1])] = [float.fromhex(v) for v in tt[3:]]
    worst_agree, worst_exact, nrows = 0.0, 0.0, 0
    worst_rel = {"interpolating": 0.0, "MinDerivative": 0.0}
    bad_dt = []     # dt_min of failing MinDerivative cases
    seen = set()
    nfail = 0
    for l in model_out.splitlines():
        tt = l.split()
        if not tt or tt[0] != "F1D":
            continue
        c = int(tt[1])
        seen.add(c)
        m = meta[c]
        if tt[2] == "NONFINITE":
            nfail += 1
            bad_dt.append(m["dt_min"])
            failures.append(dict(check="fit1d_residual", case=c, spec=m["spec"], family=m["family"], N=m["N"], dt_min=m["dt_min"],
                                 dt_max=m["dt_max"], ratio_max=m["ratio_max"], rel_residual="non-finite", row=-1, seed_case=f"fit1d:{c}"))
            continue
        neq, ncoef, nrow = int(tt[2]), int(tt[3]), int(tt[4])
        vals = tt[5:5 + 2 * nrow]
        r = [float.fromhex(v) for v in vals[0::2]]
        sc = [float.fromhex(v) for v in vals[1::2]]
        o = orc[c]
        if not (len(o) == nrow == neq):
            problems.append({"kind": "correspondence-mismatch", "what": "row count: model n_eq vs rows vs oracle", "case": m,
                             "n_eq": neq, "rows": nrow, "oracle_rows": len(o)})
            continue
        if ncoef != (int(m["spec"].split("<")[1][0]) + 1 if m["spec"].startswith("MinDer") else (2 if m["spec"].startswith("Piece") else 4)) * m["N"]:
            problems.append({"kind": "correspondence-mismatch", "what": "n_coef", "case": m, "n_coef": ncoef})
        nrows += nrow
        rel, arg = 0.0, -1
        for i, (a, b, s) in enumerate(zip(r, o, sc)):
            den = s if s > 0 else 1.0
            ag = abs(a - b) / den
            worst_agree = max(worst_agree, ag)
            if ag > TOL_MODEL_ORACLE:
                problems.append({"kind": "correspondence-mismatch", "what": "model constraint row differs from the finite-difference oracle",
                                 "case": m, "row": i, "model_residual": a, "oracle_residual": b, "scale": s})
                break
            rr = abs(a) / den
            if rr > rel:
                rel, arg = rr, i
        if "EXACT" in tt:
            k = tt.index("EXACT")
            ex = [float.fromhex(v) for v in tt[k + 1:]]
            for a, b, s in zip(r, ex, sc):
                worst_exact = max(worst_exact, abs(a - b) / (s if s > 0 else 1.0))
        worst_rel[m["family"]] = max(worst_rel[m["family"]], rel)
        if not (rel <= TOL_RESID):
            nfail += 1
            bad_dt.append(m["dt_min"])
            failures.append(dict(check="fit1d_residual", case=c, spec=m["spec"], family=m["family"], N=m["N"], dt_min=m["dt_min"],
                                 dt_max=m["dt_max"], ratio_max=m["ratio_max"], rel_residual=rel, row=arg, seed_case=f"fit1d:{c}"))
        if len(samples) < 3:
            samples.append(dict(harness="fit1d", **m, rel_residual=rel))
    missing = set(meta) - seen
    if missing:
        problems.append({"kind": "correspondence-mismatch", "what": "model driver produced no line for cases", "cases": sorted(missing)[:10]})
    if worst_exact > 1e-12:
        problems.append({"kind": "correspondence-mismatch", "what": "binary64 residual path of the driver differs from the model's exact-Q residual", "err": worst_exact})
    stats["fit1d"] = dict(cases=len(meta), constraint_rows=nrows, model_vs_oracle_max=worst_agree, float_vs_exactQ_max=worst_exact,
                          max_rel_residual=worst_rel, failing_cases=nfail,
                          failing_dt_min_range=[min(bad_dt), max(bad_dt)] if bad_dt else None)
    # keep the evidence / replay files small: the failures with the smallest and largest dt_min plus a few
    f1 = [f for f in failures if f.get("check") == "fit1d_residual"]
    if len(f1) > 12:
        f1s = sorted(f1, key=lambda f: f["dt_min"])
        keep = f1s[:4] + f1s[-6:]
        # anything outside the MinDerivative family is always kept
        keep += [f for f in f1 if f["family"] != "MinDerivative" and f not in keep]
        for f in f1:
            if f not in keep:
                failures.remove(f)


WORD = {"LSL": 0, "LSR": 1, "RSL": 2, "RSR": 3, "RLR": 4, "LRL": 5}


def _cmp_misc(path, model_out, failures, problems, stats, strata):
    impl_d, impl_r, impl_b, impl_lp = {}, {}, {}, {}
    for l in open(path):
        t = l.split()
        if not t:
            continue
        if t[0] == "LPR":
            # ... ROWS n [c0 c1 b]*n OBJ cx cy SOL status x y : the rows the library handed to lp2d::solve (observed)
            k = t.index("ROWS")
            n = int(t[k + 1])
            vals = [_fhs(v) for v in t[k + 2:k + 2 + 3 * n]]
            o = t.index("OBJ")
            impl_lp[(int(t[1]), int(t[2]))] = dict(rows=[tuple(vals[3 * j:3 * j + 3]) for j in range(n)], ynext=t[4], dof=int(t[5]),
                                                   obj=(float.fromhex(t[o + 1]), float.fromhex(t[o + 2])), status=int(t[o + 4]),
                                                   sol=(float.fromhex(t[o + 5]), float.fromhex(t[o + 6])))
        elif t[0] == "DUBIMPL":
            impl_d[int(t[1])] = ("".join(t[2::2]), [float.fromhex(v) for v in t[3::2]])
        elif t[0] == "REPIMPL":
            n = int(t[2])
            vals = t[3:3 + 4 * n]
            impl_r[int(t[1])] = ([tuple(float.fromhex(v) for v in vals[4 * k:4 * k + 4]) for k in range(n)], float.fromhex(t[-1]))
        elif t[0] == "BSPIMPL":
            impl_b[int(t[1])] = (int(t[2]), float.fromhex(t[3]), float.fromhex(t[4]))
    nd = ties = nr = nb = nlp = nlp_skip = 0
    worst_rep = worst_lp = 0.0
    numpts_diff = 0
    lp_seen = set()
    lp_status = {0: 0, 1: 0, 2: 0}
    for l in model_out.splitlines():
        t = l.split()
        if not t:
            continue
        if t[0] == "LPR":
            key = (int(t[1]), int(t[2]))
            lp_seen.add(key)
            im = impl_lp.get(key)
            if im is None:
                problems.append({"kind": "correspondence-mismatch", "what": "model LPR line without harness line", "case": key[0], "grid_point": key[1]})
                continue
            lp_status[im["status"]] += 1
            if im["obj"] != (-1.0, 0.0):      # :110  lp2d::solve(-1, 0, ineq): maximise y
                failures.append(dict(check="reparam_lp_rows_mismatch", case=key[0], grid_point=key[1], what="objective", impl=list(im["obj"]), model=[-1.0, 0.0]))
            if t[3] == "skip":
                nlp_skip += 1      # v2max(i+1) was left unassigned by the library (PrimaryInfeasible at i+1): no model input
                continue
            nlp += 1
            n = int(t[3])
            mrows = [tuple(_fhs(v) for v in t[4 + 3 * j:7 + 3 * j]) for j in range(n)]
            irows = im["rows"]
            bad = None
            if len(mrows) != len(irows):
                bad = dict(what="row count", model=len(mrows), impl=len(irows))
            else:
                for j, (a, b) in enumerate(zip(mrows, irows)):
                    for c in range(3):
                        x, y = a[c], b[c]
                        if x == y:
                            continue
                        # products vel*vel, vmax*vmax are rounded once in binary64 and exact in the model: a few ulp
                        e = abs(x - y) / max(abs(x), abs(y)) if math.isfinite(x) and math.isfinite(y) else float("inf")
                        worst_lp = max(worst_lp, e)
                        if not (e <= 1e-14) and bad is None:
                            bad = dict(what="row entry", row=j, column=c, model=x, impl=y)
            if bad:
                failures.append(dict(check="reparam_lp_rows_mismatch", case=key[0], grid_point=key[1], rows_model=len(mrows), rows_impl=len(irows), **bad))
        elif t[0] == "DUB":
            c = int(t[1])
            nd += 1
            if t[2] == "none":
                failures.append(dict(check="dubins_word_mismatch", case=c, what="model: all six words infeasible"))
                continue
            w = int(t[2])
            mtypes = "".join(t[4:10:2])
            mlens = [float.fromhex(v) for v in t[5:10:2]]
            lens = [_fh(v) for v in t[10:16]]
            ityp, ilen = impl_d[c]
            if WORD.get(mtypes) != w:
                problems.append({"kind": "correspondence-mismatch", "what": "model description does not match its word index", "case": c})
            if ityp == mtypes and ilen == mlens:
                continue
            iw = WORD.get(ityp, -1)
            li, lm = (lens[iw] if iw >= 0 else float("nan")), lens[w]
            if iw >= 0 and abs(li - lm) <= 1e-12 * (1 + abs(lm)):
                ties += 1          # binary64 rounding of the length decided a (near-)tie differently from exact Q
                continue
            failures.append(dict(check="dubins_word_mismatch", case=c, impl_word=ityp, model_word=mtypes, impl_len=li, model_len=lm))
        elif t[0] == "REP":
            c = int(t[1])
            nr += 1
            segs = []
            i = 2
            while t[i] != "end":
                if t[i] == "skip":
                    i += 1
                else:
                    segs.append(tuple(float.fromhex(v) for v in t[i + 1:i + 5]))
                    i += 5
            isegs, iend = impl_r[c]
            if len(segs) != len(isegs):
                failures.append(dict(check="reparam_model_mismatch", case=c, what="segment count", model=len(segs), impl=len(isegs)))
                continue
            span = max(1e-300, abs(isegs[-1][3] - isegs[0][3])) if isegs else 1.0
            bad = None
            for k, (a, b) in enumerate(zip(segs, isegs)):
                # (dt, v1, v2, g0); v1, v2, g0 are values of s (scale: span), dt compared relatively
                errs = [abs(a[0] - b[0]) / max(abs(b[0]), 1e-300), abs(a[1] - b[1]) / span, abs(a[2] - b[2]) / span, abs(a[3] - b[3]) / span]
                e = max(errs)
                worst_rep = max(worst_rep, e if e == e else float("inf"))
                if not (e <= 1e-6) and bad is None:
                    bad = (k, a, b)
            if bad:
                failures.append(dict(check="reparam_model_mismatch", case=c, segment=bad[0], model=list(bad[1]), impl=list(bad[2])))
            if abs(_fh(t[i + 1]) - iend) > 1e-12 * (1 + abs(iend)):
                failures.append(dict(check="reparam_model_mismatch", case=c, what="end value", model=_fh(t[i + 1]), impl=iend))
        elif t[0] == "BSP":
            c = int(t[1])
            nb += 1
            np_, tmin, tmax = int(t[2]), float.fromhex(t[3]), float.fromhex(t[4])
            inp, itmin, itmax = impl_b[c]
            if inp != np_:
                numpts_diff += 1     # binary64 floor vs exact floor at an integer ratio; span itself is checked by the harness
                if abs(inp - np_) > 1:
                    failures.append(dict(check="bspline_model_mismatch", case=c, model_num_pts=np_, impl_num_pts=inp))
            elif abs(tmax - itmax) > 1e-12 * (1 + abs(tmax)) or tmin != itmin:
                failures.append(dict(check="bspline_model_mismatch", case=c, model=[tmin, tmax], impl=[itmin, itmax]))
    # keep the evidence / replay files small: the first few row mismatches carry the information, the total goes to stats
    lpm = [f for f in failures if f.get("check") == "reparam_lp_rows_mismatch"]
    for f in lpm[6:]:
        failures.remove(f)
    if lpm:
        lpm[0]["mismatching_calls_total"] = len(lpm)
    missing_lp = set(impl_lp) - lp_seen
    if missing_lp:
        problems.append({"kind": "correspondence-mismatch", "what": "model driver produced no LPR line for observed lp2d calls", "calls": sorted(missing_lp)[:10]})
    stats["model_correspondence"] = dict(dubins_cases=nd, dubins_near_ties=ties, reparam_cases=nr, reparam_max_rel_diff=worst_rep,
                                         bspline_cases=nb, bspline_numpts_rounding_differences=numpts_diff,
                                         lp_calls_compared=nlp, lp_calls_without_model_input=nlp_skip, lp_calls_mismatching=len(lpm), lp_rows_max_rel_diff=worst_lp,
                                         lp_status_counts=dict(optimal=lp_status[0], primary_infeasible=lp_status[1], dual_infeasible=lp_status[2]))
    strata["model/reparam_backward_lp_rows"] = nlp
    strata["model/dubins_select"] = nd
    strata["model/reparam_forward"] = nr
    strata["model/bspline_span"] = nb


TB = [
    "Coq 8.16.1 kernel incl. vm_compute; full .vo build",
    "Model/C14_Fit1d.v: hand transcription of fit_spline_1d's assembly of A, b, the cost blocks and the full KKT matrix [Q A^T; A 0] (fit_impl.hpp:61-223; both off-diagonal blocks are written explicitly since 7781770) and of the basis recursions (basis.hpp); tied to the code by (i) Gen/BasisC14.v regenerated from the library's constexpr basis code every run and compared entry-wise in Coq, (ii) the constraint residual of the real coefficient vectors under the model's rows, (iii) an independent finite-difference oracle of the same constraints (model rows = oracle rows to 1e-9)",
    "Eigen::SparseLU (the one solver of both branches): modelled as an argument of the model function with the contract 'returns a solution of the system' as theorem premise; checked at run time through the residual of the returned coefficients (1e-6 relative)",
    "Model/C14_Dubins.v (word selection), Model/C14_Reparam.v (forward pass; std::sqrt is a parameter with non-negativity + exactness on the radicands of the run as premises; rows of the backward LP incl. row [4] of 80e48c1), Model/C14_Misc.v (fix-up over an abstract group, fit_bspline point count K+1+istar(t1)): hand transcriptions, tied by extraction (ExtrOcamlBasic only) and comparison with the real code on the same inputs; the LP rows are compared with the rows the library itself passes to lp2d::solve (observed by redirecting the token lp2d to a recording wrapper while reparameterize.hpp is compiled - harness/h_c14_misc.cpp)",
    "lp2d::solve (external code): not modelled; its contract 'Optimal => the returned point satisfies the rows' is the premise of reparam_lp_row4_radicand_nonneg and is checked at run time on the library's own rows (it was violated on the pinned tree - finding C14-lp2d-infeasible-optimum, repaired by 5c36a6e; a violation is reported again if it returns)",
    "extract/C14/driver.ml: exact conversion binary64 -> Q; residual dot products and printed results in binary64; reparameterisation state rounded to binary64 between steps; sqrt argument of the model = binary64 sqrt",
    "harness/h_c14_*.cpp + scripts/props_C14.py: generators, long-double finite-difference oracle (fit_spline_1d constraints), closed-form Dubins word-length oracle, group-product oracle for interpolation / velocity continuity, comparators",
    "Dubins feasibility geometry (tangent circles: each word, when declared feasible, reaches the target) is NOT modelled: checked numerically only (end pose, length vs oracle)",
]

CFG = dict(
    generators=[gen_basis],
    coq_targets=["Props/Properties_C14.vo"],
    props_files=["Props/Properties_C14.v"],
    cone=["Model/C14_*.v", "Proofs/C14_*.v", "Props/Properties_C14.v"],
    corr=[corr],
    coq_timeout=1500,
    trusted_base=TB,
    assumptions=[
        "floating-point rounding and the accuracy of the sparse solver are not modelled: the exact-Q model satisfies every constraint, the implementation is compared against it (1e-6 relative) on stratified inputs",
        "fit1d_rows_meaning is proved for every N and the specs PiecewiseLinear, FixedDerCubic<1|2,1|2>, MinDerivative<5|6,3,3> (basis lemma per degree; the row-structure theorem is generic in the degree)",
        "reparam_* theorems: ds <= 1, start_vel^2 >= 1e-8, v2max(0) >= 1e-8, sqrt exact on the radicands of the run; the corners outside (proved *_refuted examples) are listed in notes/C14.md",
        "reparam_lp_row4_radicand_nonneg (no negative radicand in the forward pass) assumes lp2d's contract at the grid point concerned; reparam_clamp_gap_partial bounds the remaining gap by eps/(2|a|) only",
        "fit_bspline: num_pts theorems are over exact rationals (there the repaired and the old formula coincide, num_pts_eq_old); the binary64 index arithmetic is checked on the library's own NumPts/istar expressions (6000 / 40000 cases on spans that are multiples of dt)",
    ],
)

TEXT = dict(
    technique="Coq proofs about executable Gallina models (exact-Q constraint system and KKT matrix of fit_spline_1d, abstract-group interpolation fix-up, Dubins word selection, reparameterisation backward-LP rows and forward pass, B-spline point count) + extraction-based correspondence against the real code + independent numeric oracles",
    text="Theorems (Coq 8.16, for all inputs of the models): A x = b of fit_spline_1d means exactly p_i(0)=0, p_i(dt_i)=dx_i, scaled derivative continuity up to InnCnt and the boundary derivatives (every N; PiecewiseLinear, FixedDerCubic<1|2>, MinDerivative<5|6>); row/column counts; the KKT matrix has A and A^T in its off-diagonal blocks and every solution of the KKT system satisfies the constraints; the log fix-up of fit_spline makes every segment end at the next data point in any group and leaves first/last control velocities untouched; the Dubins description returned is the first minimiser among the six candidate words, angles in [0,2pi), straight length >= 0; reparameterisation segments are monotone, start on the grid, start speed <= requested (with explicit hypotheses, and proved counterexamples without them); with row [4] of the backward LP every LP-feasible state keeps the forward radicand non-negative (and without it not); fit_bspline's control-point count K+1+istar(t1) covers the data span and the index of every data time. The real code is run against the models and against independent oracles on stratified inputs (sampling intervals 1e-2..1e2, ratios up to 1e3/10, SO3/SE2/SE3/R^n data, pose/radius grid incl. the d=2R/4R boundaries; every lp2d call of reparameterize_spline observed).",
    note="Solver accuracy, Dubins feasibility geometry and lp2d are correspondence-only. Fixed since the first round (regression-checked: reverting any one of the commits makes the check fail): MinDerivative KKT system (7781770), reparameterisation gap after an eps-clamped deceleration (80e48c1), fit_bspline NumPts one short (435fdfb), dubins_curve<K!=3> (8514426), lp2d returning infeasible 'optimal' points (5c36a6e; it also re-opened the reparameterisation gap at the grid points concerned). Still known: dubins at exact circle tangency returns a non-minimal word (2*pi wrap).",
    design_ref="DESIGN.md section 5 C14; notes/C14.md",
)
