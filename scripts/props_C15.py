"""C15 - representation invariants and accuracy survive any history of operations.
Configuration of the check, manifest wording, and the correspondence / search runner."""
import glob, json, os, subprocess, time

import vlib
from vlib import VERIF, BUILD

UNITS = ["SO2", "SO3", "SE2", "SE3", "Galilei", "SEK3_1", "SEK3_2", "SEK3_3"]


def _build():
    """both harness binaries, in parallel, cached on the hash of /repo/include and of the harness sources"""
    rh = vlib.repo_hash()
    srcs = [f"{VERIF}/harness/h_c15.cpp", f"{VERIF}/harness/h_c15_odeint.cpp"]
    hh = vlib.file_hash(glob.glob(f"{VERIF}/harness/*.hpp") + srcs)   # the odeint unit includes h_c15.cpp
    flags = ["-O1", f"-I{VERIF}/harness", "-Wl,--no-as-needed", "-lquadmath"]
    outs = [os.path.join(BUILD, "bin", f"{os.path.basename(s)[:-4]}-{rh}-{hh}") for s in srcs]
    fails = vlib.build_cxx([(s, o, flags) for s, o in zip(srcs, outs)])
    return outs, fails


def _run(binp, seed, tier, args=(), timeout=3000):
    env = dict(os.environ, VERIF_SEED=str(seed), VERIF_TIER=tier)
    r = subprocess.run([binp] + list(args), stdout=subprocess.PIPE, stderr=subprocess.PIPE, text=True, env=env, timeout=timeout)
    rep = None
    for line in r.stdout.splitlines():
        line = line.strip()
        if line.startswith("{"):
            try:
                rep = json.loads(line)
            except json.JSONDecodeError:
                pass
    return rep, r.returncode, (r.stdout[-1500:] + r.stderr[-1500:])


def corr(seed, tier):
    problems, failures, samples, strata, stats = [], [], [], {}, {}
    evaluations = 0
    outs, fails = _build()
    for o, log in fails.items():
        problems.append({"kind": "harness-build-failed", "harness": os.path.basename(o), "log": log[-3000:]})
    tmp = os.path.join(BUILD, "tmp", f"C15-{os.getpid()}")
    os.makedirs(tmp, exist_ok=True)
    shapes, trace = os.path.join(tmp, "shapes.txt"), os.path.join(tmp, "trace.txt")

    # ---- 1. programs on the real library: property + model hypotheses/predictions; writes shapes and its bookkeeping
    if outs[0] not in fails:
        try:
            rep, rc, tail = _run(outs[0], seed, tier, ["--shapes", shapes, "--trace", trace])
        except subprocess.TimeoutExpired:
            rep, rc, tail = None, -1, "timeout"
        if rep is None:
            problems.append({"kind": "harness-crashed", "harness": "h_c15", "rc": rc, "tail": tail})
        else:
            evaluations += rep.get("evaluations", 0)
            failures += rep.get("failures", [])
            for k, v in rep.get("strata", {}).items():
                strata[k] = strata.get(k, 0) + v
            sm = [s for s in rep.get("samples", []) if s.get("stat") == "summary"]
            if sm:
                stats["programs"] = sm[0]
            stats["history_checks_maxratio"] = {k: v for k, v in rep.get("maxerr_sci", {}).items()}
            stats["history_failure_records"] = {"total": rep.get("nfail", 0), "kept": len(rep.get("failures", []))}
            samples += [s for s in rep.get("samples", []) if s.get("stat") != "summary"][:3]
            # anything outside the three listed classes must surface even when the record list is capped
            if sm and sm[0].get("other_failures", 0) > 0 and not any(
                    not (f.get("shape") == "operand-reuse" and f.get("check") in ("constraint", "accuracy")) and not f.get("local")
                    for f in rep.get("failures", [])):
                problems.append({"kind": "harness-other-failures-not-recorded", "count": sm[0]["other_failures"]})

    # ---- 2. the extracted Coq bookkeeping (tsize_trace, rdepth_trace, linear) on the same program shapes
    model_bin, mlog = vlib.extract_build("C15", os.path.join(VERIF, "extract", "C15", "Extract.v"),
                                         os.path.join(VERIF, "extract", "C15", "driver.ml"))
    if model_bin is None:
        problems.append({"kind": "extraction-failed", "log": mlog[-3000:]})
    elif os.path.exists(shapes) and os.path.exists(trace):
        r = subprocess.run([model_bin, shapes], stdout=subprocess.PIPE, stderr=subprocess.PIPE, text=True, timeout=3000)
        if r.returncode != 0:
            problems.append({"kind": "model-driver-crashed", "tail": (r.stdout[-500:] + r.stderr[-1500:])})
        else:
            ml = r.stdout.splitlines()
            hl = open(trace).read().splitlines()
            nops = sum(1 for l in hl if l.startswith("t "))
            nprog = sum(1 for l in hl if l.startswith("prog "))
            stats["bookkeeping_correspondence"] = {"programs": nprog, "operations": nops, "model_lines": len(ml)}
            evaluations += nops
            strata["bookkeeping.ops_compared_with_extracted_model"] = nops
            if ml != hl:
                first = next((i for i, (a, b) in enumerate(zip(ml, hl)) if a != b), min(len(ml), len(hl)))
                prog = next((l for l in reversed(hl[:first + 1]) if l.startswith("prog ")), "?")
                d = {"check": "bookkeeping-correspondence", "line": first, "program": prog,
                     "model": ml[first] if first < len(ml) else None, "harness": hl[first] if first < len(hl) else None}
                failures.append(d)
                problems.append({"kind": "correspondence-mismatch", "detail": d})
    for f in (shapes, trace):
        try:
            os.remove(f)
        except OSError:
            pass
    try:
        os.rmdir(tmp)
    except OSError:
        pass

    # ---- 3. boost::odeint fixed-step runs with constant body velocity; scale_sum of every arity
    if outs[1] not in fails:
        try:
            rep, rc, tail = _run(outs[1], seed, tier)
        except subprocess.TimeoutExpired:
            rep, rc, tail = None, -1, "timeout"
        if rep is None:
            problems.append({"kind": "harness-crashed", "harness": "h_c15_odeint", "rc": rc, "tail": tail})
        else:
            evaluations += rep.get("evaluations", 0)
            failures += rep.get("failures", [])
            for k, v in rep.get("strata", {}).items():
                strata[k] = strata.get(k, 0) + v
            sm = [s for s in rep.get("samples", []) if s.get("stat") == "odeint-summary"]
            if sm:
                stats["odeint"] = sm[0]
            stats["odeint_failure_records"] = {"total": rep.get("nfail", 0), "kept": len(rep.get("failures", []))}
            samples += [s for s in rep.get("samples", []) if not s.get("stat")][:1]
    return dict(problems=problems, failures=failures, evaluations=evaluations, strata=strata, stats=stats, samples=samples)


TB = [
    "Coq 8.16.1 kernel incl. its vm_compute machine (used to rearrange let-bindings/list selections of the generated definitions in Proofs/C15_Q_*.v and for one Z computation); no native_compute; full .vo build",
    "Engine A translator (tracer/sym.hpp + emit.hpp) producing coq/Gen/<G>.v for SO2, SO3, SE2, SE3, Galilei, SE_K_3<1..3> - validated every run by binary64 replay against the real instantiation",
    "Doc/Groups.v (documented matrices / constraints) and C01's lemmas *_comp_hom, *_inv_doc, *_identity_doc (re-proved in this build from the regenerated model)",
    "hand transcriptions in Model/C15_History.v (dispatch of lie_group_base.hpp operator*, *=, +, +=, inverse, exp, cast; compat/odeint.hpp scale_sum incl. the Is+1 shift) and Model/C15_Groups.v (SO3/SO2 normalising constructors incl. Eigen's MatrixBase::normalized, rot_x/y/z, lift_so3, project_so2, lift_se3, project_se2): tied by the harness running the same operations on the real classes",
    "perturbation model: every stored result is a norm-wise relative perturbation e <= 1e-15 of the exact result of the generated operation applied to the stored operands (sign decided on the rounded value). This is a Section hypothesis (D_store etc.), CHECKED AT RUN TIME for every operation of every program by harness/h_c15.cpp (check model-store-hypothesis: |d ln N| <= eR(1e-15), measured max about 7e-16) together with the tree bound it implies (check model-tree-bound)",
    "extraction: ExtrOcamlBasic only; extract/C15/driver.ml (50 lines); OCaml 4.13.1",
    "oracle of the harness: documented matrices written from the header comments, matrix product, Gauss-Jordan inverse, scaling-and-squaring Taylor exponential in long double / __float128 (libquadmath); g++ 12, Eigen 3.4, boost::odeint (steppers themselves are not modelled, only scale_sum)",
]

CFG = dict(
    tracer_units=UNITS,
    coq_targets=["Props/Properties_C15.vo"],
    props_files=["Props/Properties_C15.v"],
    cone=["Proofs/C15_*.v", "Props/Properties_C15.v"],
    harnesses=[],
    corr=[corr],
    trusted_base=TB,
    assumptions=[
        "exact-semantics theorems hold for exp arguments on the closed-form path (|omega|^2 >= eps2 or = 0); on the Taylor path the traced exp is off the manifold by <= theta^4/192 (proved, covered by the perturbation theorems)",
        "floating-point rounding is modelled as a norm-wise relative perturbation (hypothesis checked at run time), not derived from IEEE semantics",
        "the accuracy clause ((n+1)*1e-13 against the exact group-theoretic value) is decided by correspondence only (long-double/__float128 oracle), not by a theorem",
        "the one-parameter-subgroup law used by odeint_const_velocity is proved for the generated SO2 exp; for the other groups it is the content of C02 and is checked here on the real code through the odeint runs",
        "Bundle, C1 and T(n) members are covered by the harness only (Bundle's direct-product structure is C06)",
    ],
    coq_timeout=3000,
)

TEXT = dict(
    technique="Coq proof by induction over arbitrary register programs, instantiated with the model regenerated from the headers and C01's lemmas; perturbation model with run-time-checked hypothesis; extracted bookkeeping vs harness; long-double/__float128 oracle search on the real code incl. boost::odeint",
    text="Machine-checked theorems (Coq 8.16) over ALL programs on a register file (compose, inverse, exp, rplus, *=, +=, cast, lift/project, odeint scale_sum) for the generated code of SO2, SO3, SE2, SE3, Galilei, SE_K_3<1..3>: (i) exact semantics - every reachable element has unit constraint and q_w >= 0 and its documented matrix is the value of the same program over matrices (C15_history_exact); (ii) perturbation semantics - the constraint deviation is bounded by (size of the unfolded expression tree) * eps (C15_norm_dev_tree), which gives the property's (n+1)*1e-14 for histories where every composition has a fresh operand (C15_norm_dev_linear_histories) and is REFUTED for x := x*x (C15_norm_dev_squaring_refuted, growth 2^n); (iii) any explicit Runge-Kutta tableau with sum b = 1 through the scale_sum adaptor integrates a constant body velocity to x0*exp(T v) (C15_odeint_const_velocity, unconditional for SO2). The real library is run on random programs up to 1e3/1e5 operations, chains, squaring/tree programs and five boost::odeint steppers for all groups and three Bundles; every intermediate is checked for finiteness, constraint, sign and accuracy against an independent long-double/__float128 matrix oracle, and for the model's hypothesis and predicted bound.",
    note="Findings on the unchanged tree (listed in known_findings.d/C15.jsonl): constraint drift and loss of accuracy under operand-reusing histories (x := x*x fails (n+1)*1e-14 from n = 11..14; the library never re-normalises) and exp of SE2/SE3/Galilei/SE_K_3 being less accurate than 1e-13 just above the small-angle switch (same cause as C02's kernel cancellation). The accuracy clause is correspondence-only. Trusted: Coq kernel, translator (validated each run), Doc/Groups.v, hand transcriptions of dispatch/constructors/conversions (tied by the harness), the perturbation hypothesis (checked at run time), the oracle.",
    design_ref="DESIGN.md section 5 C15; notes/C15.md",
)
