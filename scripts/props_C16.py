"""C16 - Map views are interchangeable with values and write only their own memory.

generator  gen_layout : builds + runs harness/h_c16_layout.cpp (and the compile probes harness/h_c16_probe.cpp)
                        against vlib.REPO and writes coq/Gen/LayoutC16.v (git-ignored, regenerated every run)
corr                  : runs harness/h_c16.cpp (real Map classes, guard zones, shadow-buffer oracle) and feeds its
                        operation trace to the OCaml program extracted from Model/C16_Layout.v; every difference
                        between model and implementation, and every violation of the property found by the
                        harness' own library-independent oracle, is reported."""
import json, os, subprocess, glob, re, time
import vlib
from vlib import VERIF, COQ, GEN, BUILD

PROBE_GROUPS = [("SO2", "SO2<S>"), ("SO3", "SO3<S>"), ("SE2", "SE2<S>"), ("SE3", "SE3<S>"), ("C1", "C1<S>"),
                ("Galilei", "Galilei<S>"), ("SEK3_1", "SE_K_3<S,1>"), ("SEK3_2", "SE_K_3<S,2>"), ("SEK3_3", "SE_K_3<S,3>"),
                ("B(SO3,E3,SE2)", "Bundle<SO3<S>,V3,SE2<S>>"),
                ("B(SE3,B(SO2,E2),Galilei)", "Bundle<SE3<S>,Bundle<SO2<S>,V2>,Galilei<S>>")]
PROBE_STMTS = ["setIdentity", "setRandom", "assign_same_storage", "read_api"]

EXPECTED_GROUPS = ["SO2", "SO3", "SE2", "SE3", "C1", "Galilei", "SEK3_1", "SEK3_2", "SEK3_3", "SEK3_5",
                   "B(SO3,E3,SE2)", "B(SO2,E2)", "B(SE3,B(SO2,E2),Galilei)", "B(E1,C1,SEK3_2,E4,SO2)", "B(SE2)",
                   "B(SO3,E2)", "B(B(SO3,E2),SE2)", "B(B(B(SO3,E2),SE2),E3)", "B(E2,E3)"]


def _cq(s):
    return '"' + s.replace('"', '""') + '"'


def _b(x):
    return "true" if x else "false"


def run_probes():
    """compile probes (syntax only, parallel, cached on the repo hash); returns (rows, problems)"""
    rh = vlib.repo_hash()
    src = os.path.join(VERIF, "harness", "h_c16_probe.cpp")
    hh = vlib.file_hash([src])
    cache = os.path.join(BUILD, "bin", f"c16probe-{rh}-{hh}")
    if os.path.exists(cache):
        return json.load(open(cache)), []
    jobs = []
    for gname, gtype in PROBE_GROUPS:
        for storage in (0, 1):
            for pi, stmt in enumerate(PROBE_STMTS):
                if storage == 0 and stmt == "read_api":
                    continue
                jobs.append((gname, gtype, storage, pi, stmt))
    rows, running, problems = [], [], []
    i = 0
    while i < len(jobs) or running:
        while i < len(jobs) and len(running) < vlib.NPROC:
            gname, gtype, storage, pi, stmt = jobs[i]
            i += 1
            cmd = ["g++"] + vlib.CXXFLAGS + ["-fsyntax-only", f"-DGROUP={gtype}", f"-DSTORAGE={storage}", f"-DPROBE={pi}", src]
            running.append((subprocess.Popen(cmd, stdout=subprocess.PIPE, stderr=subprocess.STDOUT, text=True), jobs[i - 1]))
        for r in list(running):
            p, job = r
            if p.poll() is not None:
                out = p.stdout.read()
                running.remove(r)
                gname, gtype, storage, pi, stmt = job
                # a probe that fails for a reason unrelated to constness (e.g. a missing header) would still read
                # "does not compile"; the read_api control on the same storage guards against that
                rows.append(dict(group=gname, storage="map" if storage == 0 else "cmap", stmt=stmt, compiles=(p.returncode == 0)))
        time.sleep(0.02)
    rows.sort(key=lambda r: (r["group"], r["storage"], r["stmt"]))
    os.makedirs(os.path.dirname(cache), exist_ok=True)
    json.dump(rows, open(cache + ".tmp", "w"))
    os.replace(cache + ".tmp", cache)
    return rows, problems


def dump_layout():
    """returns (records, problems)"""
    src = os.path.join(VERIF, "harness", "h_c16_layout.cpp")
    binp, log = vlib.build_one_cxx(src, "h_c16_layout")
    if binp is None:
        return None, [{"kind": "layout-dumper-build-failed", "log": log[-3000:]}]
    r = subprocess.run([binp], stdout=subprocess.PIPE, stderr=subprocess.PIPE, text=True, timeout=120)
    recs = []
    for l in r.stdout.splitlines():
        l = l.strip()
        if l.startswith("{"):
            recs.append(json.loads(l))
    if r.returncode != 0 or not recs or recs[-1].get("t") != "end":
        return None, [{"kind": "layout-dumper-run-failed", "log": (r.stdout[-1500:] + r.stderr[-1500:])}]
    return recs, []


def layout_json_path():
    return os.path.join(GEN, "LayoutC16.json")


def gen_layout(seed, tier):
    recs, problems = dump_layout()
    out_v = os.path.join(GEN, "LayoutC16.v")
    os.makedirs(GEN, exist_ok=True)
    if recs is None:
        # leave no stale table behind: the proofs must not be checked against an old measurement
        for p in (out_v, layout_json_path()):
            if os.path.exists(p):
                os.remove(p)
        return problems
    probes, pp = run_probes()
    problems += pp
    groups = [r for r in recs if r["t"] == "group"]
    accs = [r for r in recs if r["t"] == "acc"]
    caps = [r for r in recs if r["t"] == "caps"]
    bases = [r for r in recs if r["t"] == "base"]
    kinds = ["val_mut", "val_const", "map_mut", "map_const", "cmap", "cmap_lv"]
    L = []
    L.append("(* GENERATED by scripts/props_C16.py from the output of harness/h_c16_layout.cpp and h_c16_probe.cpp run against")
    L.append(f"   {vlib.REPO} (repo hash {vlib.repo_hash()}).  Every number below was measured on the real classes.")
    L.append("   Definitions only; the statements about this table are in Proofs/C16_Tables.v. *)")
    L.append("From Coq Require Import String.")
    L.append("From Coq Require Import List Bool.")
    L.append("From SV Require Import Model.C16_Layout.")
    L.append("Import ListNotations.")
    L.append("Local Open Scope string_scope.")
    L.append("")
    L.append("Definition layout_table : list gentry := [")
    ents = []
    for g in groups:
        for k in kinds:
            rows = [a for a in accs if a["group"] == g["group"] and a["scalar"] == g["scalar"] and a["kind"] == k]
            rs = []
            for a in rows:
                off = a["off"]
                if off < 0:
                    # an accessor that points BEFORE the object: not representable as a nat offset; report and clamp
                    problems.append({"kind": "layout-negative-offset", "row": a})
                    off = 10 ** 6
                rs.append(f"    mkRow {_cq(a['path'])} {_cq(a['parent'])} {_cq(a['name'])} (mkView {off} {a['size']}) {_b(a['writable'])} {_cq(a['sub'])}")
            ents.append(f"  mkEntry {_cq(g['group'])} {_cq(g['type'])} {_cq(g['scalar'])} {_cq(k)} {g['repsize']} "
                        f"[{'; '.join(str(x) for x in g['parts'])}] [\n" + ";\n".join(rs) + "]")
    L.append(";\n".join(ents))
    L.append("].")
    L.append("")
    L.append("Definition caps_table : list gcaps := [")
    L.append(";\n".join(
        f"  mkCaps {_cq(c['group'])} {_cq(c['scalar'])} {_cq(c['kind'])} {_b(c['assign_from_val'])} {_b(c['assign_from_map'])} "
        f"{_b(c['muleq'])} {_b(c['pluseq'])} {_b(c['coeffs_write'])} {_b(c['data_write'])} {_b(c['read_api'])}" for c in caps))
    L.append("].")
    L.append("")
    L.append("Definition probe_table : list gprobe := [")
    L.append(";\n".join(f"  mkProbe {_cq(p['group'])} {_cq(p['storage'])} {_cq(p['stmt'])} {_b(p['compiles'])}" for p in probes))
    L.append("].")
    L.append("")
    L.append("Definition base_table : list (gbase * nat) := [")
    rep = {(g["group"], g["scalar"]): g["repsize"] for g in groups}
    L.append(";\n".join(
        f"  (mkBase {_cq(b['group'])} {_cq(b['scalar'])} {max(0, b['map_data_minus_ptr'])} {max(0, b['cmap_data_minus_ptr'])} "
        f"{b['map_coeffs_size']} {b['cmap_coeffs_size']} {b['val_coeffs_size']}, {rep[(b['group'], b['scalar'])]})" for b in bases))
    L.append("].")
    L.append("")
    text = "\n".join(L) + "\n"
    old = open(out_v).read() if os.path.exists(out_v) else None
    if old != text:  # keep the timestamp when nothing changed so that make does not rebuild the proofs
        with open(out_v, "w") as f:
            f.write(text)
    vlib.write_json(layout_json_path(), {"groups": groups, "acc": accs, "caps": caps, "probes": probes, "bases": bases})
    for b in bases:
        if b["map_data_minus_ptr"] != 0 or b["cmap_data_minus_ptr"] != 0:
            problems.append({"kind": "layout-map-base-moved", "row": b})
    return problems


def write_driver_table(layout, scalar, path):
    with open(path, "w") as f:
        for g in layout["groups"]:
            if g["scalar"] == scalar:
                f.write(f"G\t{g['group']}\t{g['repsize']}\n")
        for a in layout["acc"]:
            if a["scalar"] == scalar and a["kind"] == "map_mut":
                f.write(f"A\t{a['group']}\t{a['path']}\t{a['off']}\t{a['size']}\n")


SAN_FLAGS = ["-fsanitize=address,undefined", "-fno-sanitize-recover=all", "-fno-omit-frame-pointer", "-g1"]


def corr(seed, tier):
    problems, failures, samples = [], [], []
    strata, stats = {}, {}
    evaluations = 0
    rh = vlib.repo_hash()
    src = os.path.join(VERIF, "harness", "h_c16.cpp")
    hh = vlib.file_hash(glob.glob(f"{VERIF}/harness/*.hpp") + [src])
    variants = [("d", "double", []), ("f", "float", [])]
    if tier == "thorough":
        variants += [("d_san", "double", SAN_FLAGS), ("f_san", "float", SAN_FLAGS)]
    jobs, outs = [], {}
    for tag, scalar, extra in variants:
        out = os.path.join(BUILD, "bin", f"h_c16{tag}-{rh}-{hh}")
        outs[tag] = out
        jobs.append((src, out, ["-O1", f"-I{VERIF}/harness", f"-DC16_SCALAR={scalar}"] + extra))
    fails = {}
    for _attempt in range(3):
        # (binaries are cached per repo hash; a concurrent check run on another VERIF_REPO garbage-collects
        #  them, so make sure they are all still there when the build returns)
        fails = vlib.build_cxx(jobs)
        if all(os.path.exists(j[1]) or j[1] in fails for j in jobs):
            break
    for out, log in fails.items():
        problems.append({"kind": "harness-build-failed", "harness": os.path.basename(out), "log": log[-3000:]})
    # the extracted model
    drv, dlog = vlib.extract_build("C16", os.path.join(VERIF, "extract", "C16", "Extract.v"), os.path.join(VERIF, "extract", "C16", "driver.ml"))
    if drv is None:
        problems.append({"kind": "model-extraction-failed", "log": dlog[-3000:]})
    try:
        layout = json.load(open(layout_json_path()))
    except Exception:
        layout = None
        problems.append({"kind": "layout-table-missing"})
    work = os.path.join(BUILD, "c16")
    os.makedirs(work, exist_ok=True)
    nscen = {"quick": 300, "thorough": 2000}.get(tier, 300)
    env = dict(os.environ, VERIF_SEED=str(seed), VERIF_TIER=tier, ASAN_OPTIONS="detect_leaks=0:abort_on_error=0", UBSAN_OPTIONS="print_stacktrace=1")
    procs = []
    for tag, scalar, extra in variants:
        if outs[tag] in fails:
            continue
        tr = os.path.join(work, f"trace_{tag}_{seed}.txt")
        n = nscen if not extra else max(20, nscen // 10)
        procs.append((tag, scalar, tr, subprocess.Popen([outs[tag], tr, str(n), "30"], stdout=subprocess.PIPE, stderr=subprocess.PIPE, text=True, env=env)))
    drvprocs = []
    for tag, scalar, tr, p in procs:
        try:
            out, err = p.communicate(timeout=1500)
        except subprocess.TimeoutExpired:
            p.kill()
            problems.append({"kind": "harness-timeout", "harness": "h_c16" + tag})
            continue
        rep = None
        for line in out.splitlines():
            line = line.strip()
            if line.startswith("{"):
                try:
                    rep = json.loads(line)
                except json.JSONDecodeError:
                    pass
        if rep is None:
            problems.append({"kind": "harness-crashed", "harness": "h_c16" + tag, "rc": p.returncode, "tail": (out[-1500:] + err[-2500:])})
            continue
        if p.returncode != 0 and not rep.get("failures"):
            problems.append({"kind": "harness-crashed", "harness": "h_c16" + tag, "rc": p.returncode, "tail": err[-2500:]})
        evaluations += rep.get("evaluations", 0)
        for k, v in (rep.get("strata") or {}).items():
            strata[f"{scalar}:{k}" if not extra else f"{scalar}:san:{k}"] = strata.get(f"{scalar}:{k}" if not extra else f"{scalar}:san:{k}", 0) + v
        for f in rep.get("failures", []):
            f["harness"] = "h_c16" + tag
            failures.append(f)
        if rep.get("nfail", 0) > len(rep.get("failures", [])):
            stats["failures_truncated_" + tag] = rep["nfail"] - len(rep["failures"])
        worst = 0.0
        for k, v in (rep.get("maxerr_sci") or {}).items():
            try:
                worst = max(worst, float(v))
            except ValueError:
                worst = float("inf")
        stats["max_ulps_" + tag] = worst
        samples += rep.get("samples", [])[:2]
        # replay on the extracted model
        if drv is not None and layout is not None and p.returncode == 0:
            tbl = os.path.join(work, f"table_{scalar}.txt")
            write_driver_table(layout, scalar, tbl)
            drvprocs.append((tag, tr, subprocess.Popen([drv, tr, tbl], stdout=subprocess.PIPE, stderr=subprocess.STDOUT, text=True)))
    for tag, tr, p in drvprocs:
        try:
            out, _ = p.communicate(timeout=1500)
        except subprocess.TimeoutExpired:
            p.kill()
            problems.append({"kind": "model-driver-timeout", "trace": tag})
            continue
        summ = None
        for line in out.splitlines():
            if line.startswith("DIFF "):
                parts = line.split(" ", 4)
                failures.append({"check": "model_vs_impl:" + parts[3], "scenario": int(parts[1]), "opindex": int(parts[2]),
                                 "detail": parts[4] if len(parts) > 4 else "", "trace": tag, "seed": seed})
            elif line.startswith("SUMMARY"):
                summ = dict(kv.split("=") for kv in line.split()[1:])
        if summ is None or p.returncode != 0:
            problems.append({"kind": "model-driver-crashed", "trace": tag, "tail": out[-2000:]})
        else:
            for k, v in summ.items():
                stats[f"model_{k}_{tag}"] = int(v)
            evaluations += int(summ.get("ops", 0))
        try:
            os.remove(tr)
        except OSError:
            pass
    # when the generated table disagrees with the documented layout (a proof broke), say which rows
    if layout is not None:
        for bad in layout_vs_doc(layout):
            failures.append(bad)
    return dict(problems=problems, failures=failures, evaluations=evaluations, strata=strata, stats=stats, samples=samples)


# documented layouts once more, for the failing-input report only (the proof is Proofs/C16_Tables.v)
DOC = {"SO2": [], "C1": [], "SO3": [("quat", 0, 4)], "SE2": [("r2", 0, 2), ("so2", 2, 2)], "SE3": [("r3", 0, 3), ("so3", 3, 4)],
       "Galilei": [("r3_v", 0, 3), ("r3_p", 3, 3), ("r1_t", 6, 1), ("so3", 7, 4)]}
for _k in (1, 2, 3, 5):
    DOC[f"SEK3_{_k}"] = [(f"r3<{j}>", 3 * j, 3) for j in range(_k)] + [(f"r3({j})", 3 * j, 3) for j in range(_k)] + [("so3", 3 * _k, 4)]


def layout_vs_doc(layout):
    out = []
    parts = {(g["group"], g["scalar"]): g for g in layout["groups"]}
    for a in layout["acc"]:
        if a["parent"] != "":
            continue
        g = parts[(a["group"], a["scalar"])]
        if g["type"] == "Bundle":
            i = int(a["name"][5:-1])
            want = (sum(g["parts"][:i]), g["parts"][i])
        else:
            want = next(((o, n) for nm, o, n in DOC.get(a["group"], []) if nm == a["name"]), None)
        if want is None or (a["off"], a["size"]) != want:
            out.append({"check": "measured_layout_vs_documented", "group": a["group"], "scalar": a["scalar"], "kind": a["kind"],
                        "accessor": a["path"], "measured": [a["off"], a["size"]], "documented": list(want) if want else None})
    return out[:20]


CFG = dict(
    generators=[gen_layout],
    coq_targets=["Props/Properties_C16.vo"],
    props_files=["Props/Properties_C16.v"],
    cone=["Proofs/C16_*.v", "Props/Properties_C16.v"],
    corr=[corr],
    trusted_base=[
        "Coq 8.16.1 kernel incl. its vm_compute machine; full .vo build (no -vos); all C16 theorems are closed under the global context (no axioms)",
        "harness/h_c16_layout.cpp + h_c16_probe.cpp (layout dumper = translator of this property): pointer differences accessor().data() - data() and sizes measured on the real value/Map/const-Map classes through mutable and const references, requires-expressions and -fsyntax-only compile probes for the op alphabet; scripts/props_C16.py prints them as coq/Gen/LayoutC16.v",
        "Model/C16_Layout.v: hand transcription of the storage macros / operator= / *= / += / cast / pointer-offset accessors as view operations on a list of cells (cited file:line), and the documented memory layouts transcribed from the header comments",
        "correspondence: harness/h_c16.cpp (shadow-buffer oracle at the documented offsets, guard sentinels, mprotect'ed page for const views), extraction (ExtrOcamlBasic only) + extract/C16/driver.ml (replay and comparison incl. the 4-ulp test), g++ 12 / Eigen 3.4 as used by the build",
        "Eigen's dense assignment of fixed-size vectors writes coefficient i to coefficient i in increasing order without temporary (modelled as copy_fwd; checked by the harness for same/disjoint/forward-overlapping views; backward partial overlap is outside Eigen's aliasing contract and only its frame is checked)",
    ],
    assumptions=[
        "numerical agreement Map vs value object (4 ulp; observed 0 ulp) is established by correspondence on sampled coefficient contents, not by proof: the model treats the computed RepSize coefficients of *=, +=, setIdentity, setRandom as an arbitrary function of the loads",
        "groups/Bundles outside the measured pool (19 types x 2 scalars x 6 access kinds) are covered by the generic theorems (psum for all Bundle compositions, SE_K_3 layout for all K) but their accessors are not measured",
        "assignment between partially overlapping views with the source below the destination violates Eigen's aliasing contract; content is unspecified there, only the frame is claimed",
        "setIdentity()/setRandom() and same-type copy assignment are declared for Map<const G>; that they cannot be instantiated is established by compile probes for 11 representative groups (double), not for every type",
    ],
)

TEXT = dict(
    technique="Coq proof over an executable memory model (list of cells, views, store/load/copy/compute/cast ops) + layout table measured on the real Map classes and regenerated every run + extracted-model replay of real operation traces + guard-zone / read-only-page harness",
    text="Machine-checked theorems (Coq 8.16, axiom-free): a store through a view changes exactly the cells [off,off+len) (unconditional frame, also for a whole history of arbitrary - even malformed or aliased - ops); load-after-store; assignment/construction between storages copies coefficient i to coefficient i; cast maps the conversion over the coefficients in order; an op list drawn from the const-view alphabet leaves memory unchanged; ANY interleaving of stores/copies/computed writes through arbitrarily overlapping views equals the cell-wise last-writer-wins function (induction over the op list); Bundle part offsets are prefix sums, parts disjoint and covering, for ALL compositions; SE_K_3 layout for all K. Per row of the table measured on /repo's classes (19 groups/Bundles incl. nested, float+double, value/Map/const-Map through mutable and const references): every accessor sits where the header comment says, accessors are pairwise disjoint and cover [0,RepSize), nested accessors compose by offset addition, const access yields const views, Map<const G> offers no mutating member. A wrong offset/size/constness in /repo breaks the lemma of that group. Correspondence: real operation sequences (=, construction, *=, +=, setIdentity, setRandom, coefficient and sub-part writes, reads, casts) on overlapping, aligned and unaligned views of one guarded buffer for all (source,destination) storage pairs are replayed on the extracted model and compared after every call (exact; computed regions 4 ulp), and checked against a library-independent shadow oracle; const views run on an mprotect'ed page; ASan+UBSan build in the thorough tier.",
    note="Trusted: Coq kernel; the layout dumper and compile probes; the hand transcription of the storage/assignment code into view operations; the harness, extraction and OCaml driver. Numerical equality of Map and value results is by correspondence (sampled), not proved. Backward-overlapping assignment is outside Eigen's aliasing contract (frame only).",
    design_ref="DESIGN.md section 5 C16; notes/C16.md",
)
