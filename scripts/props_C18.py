"""C18 - non-mutating operations are safe to run concurrently.

generator  : builds harness/h_c18.cpp twice (footprint mode, ThreadSanitizer mode), runs the footprint mode on
             /repo's current headers and writes the MEASURED footprint table to coq/Gen/FootprintC18.v
             (git-ignored, regenerated every run); Proofs/C18_Table.v then proves by computation that the table
             satisfies the premise of the interleaving theorem for every listed operation except the known finding.
corr       : turns the measured table into failure records (a store into shared state by an operation of the
             alphabet), then runs the schedule-based search (same alphabet under ThreadSanitizer, 2..16 threads,
             per-thread results against a sequential reference)."""
import json, os, re, subprocess, bisect, time

import vlib
from vlib import VERIF, COQ, BUILD, GEN

SRC = os.path.join(VERIF, "harness", "h_c18.cpp")
_STATE = {}

FP_FLAGS = ["-O1", f"-I{VERIF}/harness", "-Wl,-z,now"]
TS_FLAGS = ["-O1", "-g1", "-fsanitize=thread", "-DC18_TSAN", f"-I{VERIF}/harness"]
TSAN_ENV = "halt_on_error=0 exitcode=0 report_signal_unsafe=0 history_size=4"


def _bins():
    """the two harness programs, cached on (hash of the library headers, hash of the harness source).
    Kept in build/c18/ rather than build/bin/: vlib.gc_bins() of a concurrently running check for another
    VERIF_REPO would otherwise delete them between the generator step and the correspondence step."""
    rh = vlib.repo_hash()
    hh = vlib.file_hash([SRC, os.path.join(VERIF, "harness", "hcommon.hpp")])
    d = os.path.join(BUILD, "c18")
    os.makedirs(d, exist_ok=True)
    fp = os.path.join(d, f"h_c18fp-{rh}-{hh}")
    ts = os.path.join(d, f"h_c18tsan-{rh}-{hh}")
    fails = vlib.build_cxx([(SRC, fp, FP_FLAGS), (SRC, ts, TS_FLAGS)])
    # keep the 16 most recently used programs
    for p in (fp, ts):
        if os.path.exists(p):
            os.utime(p, None)
    old = sorted((os.path.getmtime(os.path.join(d, f)), f) for f in os.listdir(d) if not f.endswith(".tmp"))
    for _, f in old[:-16]:
        try:
            os.remove(os.path.join(d, f))
        except OSError:
            pass
    return fp, ts, fails


def _nm_table(binp):
    r = vlib.sh(["nm", "-C", "-n", "--defined-only", binp])
    addrs, names = [], []
    for l in r.stdout.splitlines():
        m = re.match(r"^([0-9a-f]+) (\w) (.*)$", l)
        if m:
            addrs.append(int(m.group(1), 16))
            names.append(m.group(3))
    return addrs, names


def _sym(tab, off):
    addrs, names = tab
    i = bisect.bisect_right(addrs, off) - 1
    if i < 0:
        return f"static+0x{off:x}"
    nm = re.sub(r"\(.*\)", "()", _strip_templates(names[i]).replace("v1_1::", ""))
    return nm[:160] + (f"+0x{off - addrs[i]:x}" if off != addrs[i] else "")


def _coq_str(s):
    s = "".join(c if 32 <= ord(c) < 127 else "?" for c in s)
    return '"' + s.replace('"', '""') + '"'


def _member_of(f, nmtab):
    if f["region"] == "static" and not f["object"]:
        return _sym(nmtab, f["offset"])
    if f["member"]:
        return f["member"]
    if f["object"]:
        return f"{f['object']}+0x{f['offset']:x}"
    return f"{f['region']}+0x{f['offset']:x}"


def _write_gen(entries, note):
    os.makedirs(GEN, exist_ok=True)
    lines = ["(* GENERATED on every run by scripts/props_C18.py from the mprotect footprint run of harness/h_c18.cpp",
             "   against the current headers of the library under verification.  Do not edit. *)",
             "(* " + note.replace("*)", "* )") + " *)",
             "From Coq Require Import List String Bool.",
             "Import ListNotations.",
             "From SV Require Import Model.C18_Footprint.",
             "Local Open Scope string_scope.",
             "",
             "Definition fp_table : list fp_entry :="]
    if not entries:
        lines.append("  [].")
    else:
        body = []
        for e in entries:
            mem = "[" + "; ".join(_coq_str(m) for m in e["members"]) + "]"
            body.append(f"  mk_fp {_coq_str(e['op'])} {_coq_str(e['class'])} {'true' if e['writes_shared'] else 'false'} {mem}")
        lines.append("  [\n" + ";\n".join(body) + "\n  ].")
    text = "\n".join(lines) + "\n"
    path = os.path.join(GEN, "FootprintC18.v")
    old = open(path).read() if os.path.exists(path) else None
    if old != text:
        with open(path, "w") as f:
            f.write(text)


def generate(seed, tier):
    """build, run the footprint mode, emit Gen/FootprintC18.v.  Returns problems."""
    _STATE.clear()
    problems = []
    fp, ts, fails = _bins()
    _STATE["bins"] = (fp if fp not in fails else None, ts if ts not in fails else None)
    for out, log in fails.items():
        problems.append({"kind": "harness-build-failed", "harness": os.path.basename(out), "log": log[-3000:]})
    if fp in fails:
        _write_gen([], "harness did not build against the current headers: empty table")
        return problems
    env = dict(os.environ, VERIF_SEED=str(seed), VERIF_TIER=tier)
    t0 = time.time()
    try:
        r = subprocess.run([fp], stdout=subprocess.PIPE, stderr=subprocess.PIPE, text=True, env=env, timeout=600)
    except subprocess.TimeoutExpired:
        problems.append({"kind": "harness-timeout", "harness": "h_c18 footprint"})
        _write_gen([], "footprint run timed out: empty table")
        return problems
    rep = None
    for line in r.stdout.splitlines():
        if line.startswith("{"):
            try:
                rep = json.loads(line)
            except json.JSONDecodeError:
                pass
    if rep is None:
        problems.append({"kind": "harness-crashed", "harness": "h_c18 footprint", "rc": r.returncode,
                         "tail": (r.stdout[-1500:] + r.stderr[-1500:])})
        _write_gen([], "footprint run crashed: empty table")
        return problems
    nmtab = _nm_table(fp)
    entries = []
    for o in rep["ops"]:
        bad = [f for f in o["faults"] if not f["guarded_init"]]
        o["members"] = sorted(set(_member_of(f, nmtab) for f in bad))
        o["writes_shared"] = bool(bad)
        o["guarded_symbols"] = sorted(set(_member_of(f, nmtab) for f in o["faults"] if f["guarded_init"]))
        if o["in_alphabet"]:
            entries.append({"op": o["op"], "class": o["class"], "writes_shared": o["writes_shared"], "members": o["members"]})
    _write_gen(entries, f"seed {seed}, tier {tier}, K={rep['K']} inputs per operation, repo hash {vlib.repo_hash()}")
    rep["seconds"] = round(time.time() - t0, 2)
    _STATE["fp"] = rep
    _STATE["nm"] = nmtab
    return problems


# ---------------------------------------------------------------------------------------------------------
# ThreadSanitizer report parsing
def _strip_templates(s):
    out, depth = [], 0
    for c in s:
        if c == "<":
            depth += 1
        elif c == ">":
            depth = max(0, depth - 1)
        elif depth == 0:
            out.append(c)
    return "".join(out)


def _site_of(frame):
    f = frame.replace("v1_1::", "")
    f = _strip_templates(f)
    f = re.sub(r"\(.*$", "", f).strip()
    m = re.findall(r"(smooth::[\w:~]+)", f)   # the last one: a leading return type may also be in smooth::
    return m[-1] if m else None


def parse_tsan(stderr, ranges):
    reports = []
    for blk in stderr.split("=================="):
        m = re.search(r"WARNING: ThreadSanitizer: ([^\(\n]+)", blk)
        if not m:
            continue
        kind = m.group(1).strip()
        acc = re.findall(r"^\s+((?:Previous )?[A-Za-z ]+?) of size (\d+) at (0x[0-9a-f]+) by ([^:\n]+):", blk, re.M)
        frames = re.findall(r"^\s+#\d+ (.*?) (\S+:\d+)? ?\((?:\S+)\+0x[0-9a-f]+\)\s*$", blk, re.M)
        site, where = None, None
        for fn, loc in frames:
            s = _site_of(fn)
            if s:
                site, where = s, loc
                break
        addr = int(acc[0][2], 16) if acc else 0
        obj, mem = "", ""
        best = None
        for (o, mname, lo, hi) in ranges:
            if lo <= addr < hi and (best is None or hi - lo < best[3] - best[2]):
                best = (o, mname, lo, hi)
        if best:
            obj, mem = best[0], best[1]
        g = re.search(r"Location is global '([^']+)'", blk)
        if g and not mem:
            mem = g.group(1)
        if not mem and where:
            # fall back on the source line of the innermost library frame
            try:
                fpath, ln = where.rsplit(":", 1)
                line = open(fpath).read().splitlines()[int(ln) - 1]
                mm = re.search(r"\b(m_\w+)\b", line)
                if mm:
                    mem = mm.group(1)
            except Exception:
                pass
        reports.append({"kind": kind, "access": acc[0][0].strip() if acc else "", "site": site or "?", "where": where or "",
                        "object": obj, "member": mem})
    return reports


def _run_tsan(binp, seed, tier, args, timeout):
    env = dict(os.environ, VERIF_SEED=str(seed), VERIF_TIER=tier, TSAN_OPTIONS=TSAN_ENV)
    try:
        r = subprocess.run(["setarch", "-R", binp] + args, stdout=subprocess.PIPE, stderr=subprocess.PIPE, text=True,
                           env=env, timeout=timeout)
    except subprocess.TimeoutExpired as e:
        return None, [], {"timeout": True, "rc": None, "tail": ""}
    rep, ranges = None, []
    for line in r.stdout.splitlines():
        if line.startswith("RANGE\t"):
            p = line.split("\t")
            ranges.append((p[1], p[2], int(p[3], 16), int(p[4], 16)))
        elif line.startswith("{"):
            try:
                rep = json.loads(line)
            except json.JSONDecodeError:
                pass
    reports = parse_tsan(r.stderr, ranges)
    return rep, reports, {"timeout": False, "rc": r.returncode, "tail": r.stderr[-1200:] if rep is None else ""}


def corr(seed, tier):
    problems, failures, samples, strata, stats = [], [], [], {}, {}
    fp = _STATE.get("fp")
    if fp is None:
        return dict(problems=[{"kind": "footprint-table-missing", "message": "the footprint run produced no table (see generator problems)"}],
                    failures=[], evaluations=0, strata={}, stats={}, samples=[])
    ops = fp["ops"]
    evaluations = fp["evaluations"]
    K = fp["K"]
    for o in ops:
        strata["footprint:" + o["class"]] = strata.get("footprint:" + o["class"], 0) + (K + 1)
    stats["footprint"] = {k: fp[k] for k in ("K", "arena_bytes_shared", "arena_bytes_total", "data_segment_bytes",
                                              "guarded_static_inits", "nfault_total", "seconds")}
    stats["guarded_first_use_initialisations"] = {o["op"]: o["guarded_symbols"] for o in ops if o["guarded_symbols"]}
    # ---- failure records from the deterministic footprint run
    racy_idx = []
    fail_by_op = {}
    for i, o in enumerate(ops):
        if o["mismatch"] and o["in_alphabet"]:
            failures.append({"check": "result-differs-between-sequential-runs", "op": o["op"], "op_class": o["class"],
                             "count": o["mismatch"]})
        if not o["writes_shared"]:
            continue
        if not o["in_alphabet"]:
            stats.setdefault("outside_alphabet", {})[o["op"]] = {"stores_into": o["members"]}
            continue
        racy_idx.append(i)
        seen = set()
        for f in o["faults"]:
            if f["guarded_init"]:
                continue
            mem = _member_of(f, _STATE["nm"])
            if mem in seen:
                continue
            seen.add(mem)
            rec = {"check": "shared-write", "op": o["op"], "op_class": o["class"], "object": f["object"], "member": mem,
                   "region": f["region"], "first_seen": f["pass"], "k": f["k"], "seed": seed,
                   "how": "single thread; shared state mprotect(PROT_READ); the store faulted"}
            failures.append(rec)
            fail_by_op.setdefault(i, []).append(rec)
    const_idx = [i for i, o in enumerate(ops) if o["in_alphabet"] and not o["writes_shared"]]
    info_idx = [i for i, o in enumerate(ops) if not o["in_alphabet"]]
    # ---- samples: real rows of the measured table
    for o in ops[:2] + [o for o in ops if o["writes_shared"]][:2]:
        samples.append({"op": o["op"], "class": o["class"], "inputs_k": K, "writes_shared": o["writes_shared"],
                        "stores_into": o["members"], "result_doubles": o["out_len"]})
    # ---- schedule-based search under ThreadSanitizer
    ts_bin = _STATE.get("bins", (None, None))[1]
    if ts_bin is None:
        problems.append({"kind": "tsan-harness-missing", "message": "ThreadSanitizer build failed"})
        return dict(problems=problems, failures=failures, evaluations=evaluations, strata=strata, stats=stats, samples=samples)
    t0 = time.time()
    rep, reports, meta = _run_tsan(ts_bin, seed, tier, ["--ops", ",".join(map(str, const_idx))], 1500 if tier == "thorough" else 400)
    if rep is None:
        problems.append({"kind": "tsan-harness-crashed", "which": "const alphabet", "rc": meta["rc"], "timeout": meta["timeout"],
                         "tail": meta["tail"], "reports": reports[:3]})
    else:
        evaluations += rep["evaluations"]
        reps = rep["evaluations"] // max(1, sum(rep["thread_counts"]) * len(const_idx) * rep["K"])
        for T in rep["thread_counts"]:
            strata[f"tsan:threads={T}"] = strata.get(f"tsan:threads={T}", 0) + T * len(const_idx) * rep["K"] * reps
        for o in rep["ops"]:
            if o["mismatch"]:
                failures.append({"check": "result-mismatch-under-threads", "op": o["op"], "op_class": o["class"],
                                 "count": o["mismatch"], "first": o["sample"], "seed": seed})
        samples.append({"schedule_search": "const alphabet", "threads": rep["thread_counts"], "ops": len(const_idx),
                        "inputs_k": rep["K"], "tsan_reports": len(reports),
                        "result_mismatches": sum(o["mismatch"] for o in rep["ops"])})
    agg = {}
    for r in reports:
        key = (r["kind"], r["site"], r["member"])
        agg.setdefault(key, {"n": 0, "first": r})["n"] += 1
    for (kind, site, member), v in agg.items():
        failures.append({"check": "tsan-race", "kind": kind, "site": site, "member": member, "object": v["first"]["object"],
                         "where": v["first"]["where"], "reports": v["n"], "seed": seed,
                         "how": "ThreadSanitizer, operations the footprint run found free of shared stores"})
    stats["tsan_const_alphabet"] = {"ops": len(const_idx), "reports": len(reports), "seconds": round(time.time() - t0, 1)}
    # ---- confirmation runs for operations the footprint run flagged (each in its own process: the race can corrupt the heap)
    procs = []
    for i in racy_idx + info_idx:
        procs.append((i, _run_tsan(ts_bin, seed, tier, ["--ops", str(i), "--threads", "8,4,2", "--k", "8", "--reps", "2"], 120)))
    conf = {}
    for i, (rep_i, reports_i, meta_i) in procs:
        info = {"tsan_reports": len(reports_i),
                "tsan_sites": sorted(set(f"{r['site']} [{r['member']}]" for r in reports_i))[:6],
                "result_mismatches": (rep_i["ops"][0]["mismatch"] if rep_i and rep_i["ops"] else None),
                "crashed": rep_i is None}
        if rep_i:
            evaluations += rep_i["evaluations"]
            strata["tsan:confirm-flagged-op"] = strata.get("tsan:confirm-flagged-op", 0) + rep_i["evaluations"]
        conf[ops[i]["op"]] = info
        for rec in fail_by_op.get(i, []):
            rec["tsan_confirmation"] = info
    stats["tsan_confirmation_of_flagged_ops"] = conf
    return dict(problems=problems, failures=failures, evaluations=evaluations, strata=strata, stats=stats, samples=samples)


CFG = dict(
    generators=[generate],
    coq_targets=["Props/Properties_C18.vo"],
    props_files=["Props/Properties_C18.v"],
    cone=["Proofs/C18_*.v", "Props/Properties_C18.v"],
    corr=[corr],
    trusted_base=[
        "Coq 8.16.1 kernel incl. its vm_compute machine; no native_compute; full .vo build (no -vos)",
        "C++ memory model: data-race-free programs are sequentially consistent (the interleaving model is SC); C++11 thread-safe initialisation of function-local statics (__cxa_guard_*), dynamic initialisation of inline/namespace-scope statics before main",
        "harness/h_c18.cpp footprint mode: malloc-family interposition into one arena, mprotect(PROT_READ) of the arena and of the executable's .data/.bss, SIGSEGV handler (record, unprotect one page, resume), __cxa_guard_* interposition; the operating system's page protection; a store is only observed for the configurations (groups, dimensions, inputs) the harness executes - footprints are measured, not proved",
        "thread-private memory is private: stacks and blocks a thread allocates itself are not reachable from other threads (glibc malloc is thread-safe)",
        "ThreadSanitizer (gcc 12 libtsan) for the schedule-based search; scripts/props_C18.py report parser",
        "Model/C18_SubManifold.v is a hand transcription of submanifold.hpp rplus/rminus/dof for M = R^n; which scratch placement (member / local) describes the current tree is measured, not read from the source",
    ],
    assumptions=[
        "footprint table = measured on the executed configurations (per group / manifold / spline degree listed in the table), one thread, every input index k; it is not a proof about all template instantiations",
        "independent minimize calls = each call has its own MinimizeOptions (default argument); two calls handed the SAME MinimizeOptions share its strategy object and race (measured, reported under stats.outside_alphabet, outside the property as stated in properties.jsonl)",
        "hardware / compiler effects beyond sequential consistency are excluded by DRF-SC, not modelled",
    ],
)

TEXT = dict(
    technique="Coq proof of the schedule quantifier (interleaving model, any number of threads, every merge) + footprint table measured on the real library under mprotect and re-proved every run + ThreadSanitizer schedule search",
    text="Machine-checked (Coq 8.16): if no thread stores into a cell another thread accesses, then under EVERY interleaving of ANY number of threads each thread loads exactly the values it loads when run alone and the final store is the union of the private effects (disjoint_footprints_sequential, induction on the schedule); disjointness is equivalent to absence of data races; an operation alphabet whose table has no shared store is race free and schedule deterministic (const_ops_race_free). The table is MEASURED every run: all shared objects and the library's statics are placed in read-only pages and every const operation (group/tangent functions, Manifold/SubManifold/AnyManifold rplus/rminus/dof, Spline/BSpline evaluation and const methods, sparse derivatives into private outputs, diff::dr, minimize, fit) is executed; any store faults. Gen/FootprintC18.v carries the result and Proofs/C18_Table.v proves by computation that every listed operation satisfies the premise, except the known finding C18-mcalc (SubManifold::rplus/rminus store into the mutable member m_calc; refuted in the model by an explicit two-thread schedule, confirmed by ThreadSanitizer and a replay; patch in notes/). Second search: same alphabet under ThreadSanitizer with 2..16 threads, cold statics, per-thread results compared bit-for-bit with a sequential run.",
    note="Partial: the schedule quantifier is proved; the footprints are established by measurement on the executed configurations (trusted: OS page protection, harness). DRF-SC and thread-safe static initialisation are assumed (C++ standard).",
    design_ref="DESIGN.md section 5 C18; notes/C18.md",
)
