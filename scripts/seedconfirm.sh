#!/bin/bash
# Confirm a seeded change independently: scratch worktree of /repo HEAD, apply patch, build + run the whole test suite,
# build the demonstration with and without the patch.  Usage: seedconfirm.sh <id>
id=$1; d=/verif/seeded/$id; w=/tmp/seedchk/$id
rm -rf $w; mkdir -p /tmp/seedchk; git -C /repo worktree prune; git -C /repo worktree add -q --detach $w HEAD || exit 2
cd $w && git apply $d/patch.diff || { echo "patch does not apply"; exit 2; }
cmake -G Ninja -S . -B _b -DBUILD_TESTS=ON -DBUILD_EXAMPLES=OFF -DCMAKE_BUILD_TYPE=RelWithDebInfo -DCMAKE_CXX_FLAGS=-Wno-error > _cfg.log 2>&1
cmake --build _b -j8 > _build.log 2>&1; brc=$?
ctest --test-dir _b -j8 --timeout 900 > _ctest.log 2>&1; trc=$?
suite=$(grep -E "tests passed" _ctest.log | head -1)
g++ -std=c++20 -O1 -I$w/include -I$w/_b/include -isystem /usr/include/eigen3 -isystem /root/miniconda/include $d/demo.cpp -o _demo_with > _demo_build.log 2>&1 && ./_demo_with > _demo_with.log 2>&1; with=$?
git checkout -q -- include
g++ -std=c++20 -O1 -I$w/include -I$w/_b/include -isystem /usr/include/eigen3 -isystem /root/miniconda/include $d/demo.cpp -o _demo_without >> _demo_build.log 2>&1 && ./_demo_without > _demo_without.log 2>&1; without=$?
echo "$id build_rc=$brc ctest_rc=$trc suite='$suite' demo_with_patch_exit=$with demo_without_patch_exit=$without"
mkdir -p /tmp/seedchk/logs/$id; cp _build.log _ctest.log _demo_build.log _demo_with.log _demo_without.log /tmp/seedchk/logs/$id/ 2>/dev/null
cd /; git -C /repo worktree remove --force $w
