#!/usr/bin/env python3
"""Record the outcome lines of scripts/seedconfirm.sh (collected in /tmp/seedconfirm_wave*.txt) in seeded/<id>/meta.json."""
import glob, json, os, re
V = os.path.dirname(os.path.dirname(os.path.abspath(__file__)))
last = {}
for f in sorted(glob.glob("/tmp/seedconfirm_wave*.txt")):
    for line in open(f):
        m = re.match(r"(C\d\d\w?) build_rc=(\d+) ctest_rc=(\d+) suite='([^']*)' demo_with_patch_exit=(\d+) demo_without_patch_exit=(\d+)", line)
        if m:
            last[m.group(1)] = dict(build_rc=int(m.group(2)), ctest_rc=int(m.group(3)), suite=m.group(4),
                                    demo_with_patch_exit=int(m.group(5)), demo_without_patch_exit=int(m.group(6)),
                                    how="scripts/seedconfirm.sh: fresh scratch worktree of /repo HEAD, git apply, cmake+ninja, whole ctest suite, demo built with and without the patch")
for sid, r in sorted(last.items()):
    mp = os.path.join(V, "seeded", sid, "meta.json")
    if not os.path.exists(mp):
        continue
    meta = json.load(open(mp))
    ok = r["build_rc"] == 0 and r["ctest_rc"] == 0 and r["demo_with_patch_exit"] != 0 and r["demo_without_patch_exit"] == 0
    r["confirmed"] = ok
    meta["confirmed_by_builder"] = r
    json.dump(meta, open(mp, "w"), indent=1)
    print(sid, "confirmed" if ok else "NOT CONFIRMED", r["suite"])
