#!/bin/bash
# Run registered checks against a seeded breaking change: apply seeded/<dir>/patch.diff to /repo's working tree,
# run ./check for the given properties (default: the property the change was written for), undo the change.
# usage: scripts/seedrun.sh <seeded-dir-name> [prop ...]     (serial use only: it edits /repo's working tree)
set -u
cd "$(dirname "$0")/.."
d=$1; shift
props=${*:-$(python3 -c "import json;print(json.load(open('seeded/$d/meta.json'))['property'])")}
git -C /repo diff --quiet || { echo "/repo working tree is not clean"; exit 2; }
mkdir -p /tmp/seedrun
# the evidence files and replays written while the change is applied do not describe /repo: they are put back afterwards
bak=$(mktemp -d /tmp/seedrun/evidence.XXXXXX); cp -a evidence/. "$bak"/
git -C /repo apply "$PWD/seeded/$d/patch.diff" || exit 2
trap 'git -C /repo checkout -- . ; cp -a "$bak"/. evidence/ ; rm -rf "$bak"; true' EXIT
for p in $props; do
  timeout 3000 ./check $p > /tmp/seedrun/$d-$p.log 2>&1; rc=$?
  echo "SEED $d check $p rc=$rc :: $(grep -E '^VIOLATION' /tmp/seedrun/$d-$p.log | head -1) :: $(grep -E 'broken:' /tmp/seedrun/$d-$p.log | head -2 | cut -c1-200 | tr '\n' ' ') :: $(grep -E 'failing input' /tmp/seedrun/$d-$p.log | head -1 | cut -c1-260)"
done
