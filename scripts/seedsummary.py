#!/usr/bin/env python3
"""Summarise /tmp/seedrun/<seed>-<prop>.log (written by scripts/seedrun.sh) into seeded/<seed>/meta.json["checked"]
and print a markdown table row per seeded change."""
import glob, json, os, re, sys
V = os.path.dirname(os.path.dirname(os.path.abspath(__file__)))
rows = []
for d in sorted(glob.glob(os.path.join(V, "seeded", "C*"))):
    sid = os.path.basename(d)
    mp = os.path.join(d, "meta.json")
    meta = json.load(open(mp))
    res = []
    for log in sorted(glob.glob(f"/tmp/seedrun/{sid}-*.log")):
        prop = os.path.basename(log)[len(sid) + 1:-4]
        txt = open(log).read()
        viol = re.findall(r"^VIOLATION .*$", txt, re.M)
        broken = re.findall(r"^\s*broken: (\S+)(?: (\S+) (\S+))?", txt, re.M)
        kinds = sorted(set(b[0] + (":" + b[2] if b[0] == "proof-obligation-failed" and b[2] else "") for b in broken))
        fi = re.search(r"failing input: (\{.*)", txt)
        res.append(dict(check=prop, exit=1 if viol else 0, violation_line=viol[0] if viol else None,
                        broken=kinds[:8], failing_input=(fi.group(1)[:400] if fi else None)))
    if res:
        meta["checked"] = res
        json.dump(meta, open(mp, "w"), indent=1)
    for r in meta.get("checked", []):
        how = []
        if any(b.startswith("proof-obligation-failed") for b in r["broken"]):
            how.append("proof obligation: " + ", ".join(b.split(":", 1)[1] for b in r["broken"] if b.startswith("proof-obligation-failed:"))[:120])
        if any(b.startswith("corr") or b.startswith("translator") for b in r["broken"]):
            how.append("correspondence")
        if r["failing_input"]:
            how.append("failing input found")
        elif r["exit"]:
            how.append("no-failing-input-found")
        rows.append(f"| {sid} | {r['check']} | {'VIOLATION' if r['exit'] else 'MISSED'} | {'; '.join(how)} |")
print("\n".join(rows))
