"""Trusted-base wording shared by the property configurations."""
TB_COMMON = [
    "Coq 8.16.1 kernel incl. its vm_compute machine; no native_compute; full .vo build (no -vos)",
    "Engine A translator: tracer/sym.hpp + emit.hpp (operator overloads, exact constant folding of integer +,-,*, sign normalisation of products, relation store, path enumeration, Coq emitter) and g++ instantiating the same template source for the symbolic scalar as for float/double - validated every run by replaying each DAG in binary64 against the real instantiation",
    "Doc/Groups.v: documented matrix / algebra forms transcribed by hand from the header comments",
]
