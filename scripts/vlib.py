"""Shared machinery for the /verif checks (build orchestration, evidence, violations)."""
import hashlib, json, os, re, subprocess, sys, time, glob, fcntl, shutil

VERIF = os.path.dirname(os.path.dirname(os.path.abspath(__file__)))
REPO = os.environ.get("VERIF_REPO", "/repo")
BUILD = os.path.join(VERIF, "build")
COQ = os.path.join(VERIF, "coq")
GEN = os.path.join(COQ, "Gen")
NPROC = 16

CXXFLAGS = ["-std=c++20", "-DPETTNI_SMOOTH_VERIF", f"-I{REPO}/include", f"-I{REPO}/_build/include",
            "-isystem", "/usr/include/eigen3", "-isystem", "/root/miniconda/include"]


def sh(cmd, **kw):
    return subprocess.run(cmd, stdout=subprocess.PIPE, stderr=subprocess.STDOUT, text=True, **kw)


def file_hash(paths):
    h = hashlib.sha256()
    for p in sorted(paths):
        h.update(p.encode())
        try:
            with open(p, "rb") as f:
                h.update(f.read())
        except OSError:
            h.update(b"<missing>")
    return h.hexdigest()[:16]


def repo_hash():
    files = [p for p in glob.glob(f"{REPO}/include/**/*", recursive=True) if os.path.isfile(p)]
    files += glob.glob(f"{REPO}/_build/include/**/*.hpp", recursive=True)
    return file_hash(files)


class Lock:
    def __enter__(self):
        os.makedirs(BUILD, exist_ok=True)
        self.f = open(os.path.join(BUILD, ".lock"), "w")
        fcntl.flock(self.f, fcntl.LOCK_EX)
        return self

    def __exit__(self, *a):
        fcntl.flock(self.f, fcntl.LOCK_UN)
        self.f.close()


def build_cxx(jobs):
    """jobs: list of (src, out, extra_flags). Builds in parallel when out is missing. Returns dict out->log for failures."""
    procs = []
    fails = {}
    pending = [j for j in jobs if not os.path.exists(j[1])]
    i = 0
    running = []
    while i < len(pending) or running:
        while i < len(pending) and len(running) < NPROC:
            src, out, extra = pending[i]
            i += 1
            os.makedirs(os.path.dirname(out), exist_ok=True)
            tmp = out + ".tmp"
            p = subprocess.Popen(["g++"] + CXXFLAGS + extra + [src, "-o", tmp], stdout=subprocess.PIPE,
                                 stderr=subprocess.STDOUT, text=True)
            running.append((p, out, tmp))
        for r in list(running):
            p, out, tmp = r
            if p.poll() is not None:
                log = p.stdout.read()
                running.remove(r)
                if p.returncode == 0:
                    os.replace(tmp, out)
                else:
                    fails[out] = log
        time.sleep(0.05)
    return fails


def tracer_bin(unit, rh):
    th = file_hash(glob.glob(f"{VERIF}/tracer/*.hpp") + [f"{VERIF}/tracer/trace_{unit}.cpp"])
    return os.path.join(BUILD, "bin", f"trace_{unit}-{rh}-{th}")


def run_tracers(units, seed):
    """Build (cached on the hash of /repo/include) and run tracer units; regenerates coq/Gen/<unit>.v.
    Returns (summaries, problems)."""
    rh = repo_hash()
    jobs = [(f"{VERIF}/tracer/trace_{u}.cpp", tracer_bin(u, rh), ["-O0", f"-I{VERIF}/tracer"]) for u in units]
    fails = build_cxx(jobs)
    problems = []
    for out, log in fails.items():
        problems.append({"kind": "tracer-build-failed", "unit": os.path.basename(out), "log": log[-3000:]})
    os.makedirs(GEN, exist_ok=True)
    summaries = {}
    env = dict(os.environ, VERIF_SEED=str(seed))
    procs = []
    for u in units:
        b = tracer_bin(u, rh)
        if not os.path.exists(b):
            continue
        procs.append((u, subprocess.Popen([b, GEN], stdout=subprocess.PIPE, stderr=subprocess.STDOUT, text=True, env=env)))
    for u, p in procs:
        out = p.communicate()[0]
        try:
            summaries[u] = json.load(open(os.path.join(GEN, u + ".json")))
        except Exception as e:
            problems.append({"kind": "tracer-run-failed", "unit": u, "log": out[-3000:]})
            continue
        if p.returncode != 0:
            problems.append({"kind": "translator-validation-failed", "unit": u, "log": out[-3000:]})
    return summaries, problems


def gc_bins(keep_hash):
    """remove cached binaries built for other states of /repo (disk hygiene).  Only for runs against /repo itself and
    only files older than two hours, so concurrent runs against scratch copies (VERIF_REPO) never lose their caches."""
    if REPO != "/repo":
        return
    now = time.time()
    for p in glob.glob(os.path.join(BUILD, "bin", "*-*-*")):
        parts = os.path.basename(p).rsplit("-", 2)
        if len(parts) == 3 and parts[1] != keep_hash and len(parts[1]) == 16:
            try:
                if now - os.path.getmtime(p) > 7200:
                    os.remove(p)
            except OSError:
                pass


def coq_files():
    fs = []
    for d in ["Base", "Doc", "Gen", "Model", "Proofs", "Props"]:
        fs += sorted(glob.glob(os.path.join(COQ, d, "*.v")))
    return [os.path.relpath(f, COQ) for f in fs]


def coq_makefile():
    with open(os.path.join(COQ, "_CoqProject"), "w") as f:
        f.write("-Q . SV\n")
        for p in coq_files():
            f.write(p + "\n")
    r = sh(["coq_makefile", "-f", "_CoqProject", "-o", "Makefile"], cwd=COQ)
    if r.returncode != 0:
        raise RuntimeError("coq_makefile failed: " + r.stdout)


def coq_make(targets, timeout=3000):
    """full .vo build of targets with make -k; returns (ok, log)"""
    coq_makefile()
    t0 = time.time()
    r = sh(["timeout", str(timeout), "make", "-k", f"-j{NPROC}", "TIMED=1"] + targets, cwd=COQ)
    return r.returncode == 0, r.stdout, time.time() - t0


ERR_RE = re.compile(r'File "\./([^"]+)", line (\d+), characters')


def coq_errors(log):
    """parse coqc errors: list of (file, line, message, enclosing lemma)"""
    out = []
    lines = log.splitlines()
    for i, l in enumerate(lines):
        m = ERR_RE.search(l)
        if m and i + 1 < len(lines) and "Error" in "\n".join(lines[i + 1:i + 3]):
            f, ln = m.group(1), int(m.group(2))
            msg = "\n".join(lines[i + 1:i + 8])
            lemma = None
            try:
                src = open(os.path.join(COQ, f)).read().splitlines()
                for k in range(min(ln, len(src)) - 1, -1, -1):
                    mm = re.match(r"\s*(Theorem|Lemma|Corollary|Example|Definition|Fact)\s+([A-Za-z0-9_']+)", src[k])
                    if mm:
                        lemma = mm.group(2)
                        break
            except OSError:
                pass
            out.append({"file": f, "line": ln, "lemma": lemma, "message": msg[:1500]})
    return out


AUDIT_RE = re.compile(r"\b(Admitted|admit|Axiom|Parameter|Conjecture|Hypothesis|Variable|Unset\s+Guard|bypass_check|Admit\s+Obligations|type-in-type|impredicative-set)\b")


def audit_sources():
    """textual audit of the hand-written and generated Coq sources; returns list of offending lines.
    Variable/Hypothesis are allowed only inside Sections (checked by a simple nesting count)."""
    bad = []
    for rel in coq_files():
        depth = 0
        incomment = 0
        for n, line in enumerate(open(os.path.join(COQ, rel)), 1):
            code = line
            # strip comments (non-nested approximation good enough for our sources)
            code = re.sub(r"\(\*.*?\*\)", "", code)
            if "(*" in code and "*)" not in code:
                incomment += 1
                code = code.split("(*")[0]
            elif incomment and "*)" in code:
                incomment -= 1
                code = code.split("*)", 1)[1]
            elif incomment:
                continue
            if re.match(r"\s*Section\b", code):
                depth += 1
            if re.match(r"\s*End\b", code) and depth:
                depth -= 1
            for m in AUDIT_RE.finditer(code):
                w = m.group(1)
                if w in ("Variable", "Hypothesis") and depth > 0:
                    continue
                bad.append(f"{rel}:{n}: {line.strip()}")
    return bad


def assumptions_from_log(log):
    """collect the 'Print Assumptions' blocks printed by coqc: list of lists of axiom names"""
    res = []
    cur = None
    for l in log.splitlines():
        if l.startswith("Closed under the global context"):
            res.append([])
            cur = None
        elif l.startswith("Axioms:"):
            cur = []
            res.append(cur)
        elif cur is not None:
            if l.startswith(" ") or not l.strip():
                continue
            m = re.match(r"^([A-Za-z_][A-Za-z0-9_.']*)\s*(:.*)?$", l)
            if m:
                cur.append(m.group(1))
            else:
                cur = None
    return res


def count_qed(files):
    n = 0
    for f in files:
        try:
            n += len(re.findall(r"\b(Qed|Defined)\.", open(os.path.join(COQ, f)).read()))
        except OSError:
            pass
    return n


def write_json(path, obj):
    os.makedirs(os.path.dirname(path), exist_ok=True)
    tmp = path + ".tmp"
    with open(tmp, "w") as f:
        json.dump(obj, f, indent=1, default=str)
    os.replace(tmp, path)


# ---------------------------------------------------------------------------------------------
# Engine B helpers: extraction of executable Gallina models to OCaml and building the driver.
def extract_build(tag, extract_v, driver_ml, timeout=900):
    """tag: e.g. 'C20'.  extract_v: path of a .v file whose last command is
         Extraction "model.ml" <names>.      (with `Require Import ExtrOcamlBasic.` only)
    driver_ml: path of the OCaml driver using module Model.  The needed SV.* .vo files must be built already.
    Returns (binary_path or None, log)."""
    d = os.path.join(BUILD, "extract", tag)
    os.makedirs(d, exist_ok=True)
    h = file_hash([extract_v, driver_ml] + glob.glob(os.path.join(COQ, "Model", "*.v")))
    out = os.path.join(BUILD, "bin", f"model_{tag}-{h}")
    if os.path.exists(out):
        return out, "cached"
    for f in glob.glob(os.path.join(d, "*")):
        os.remove(f)
    shutil.copy(extract_v, os.path.join(d, "Extract.v"))
    shutil.copy(driver_ml, os.path.join(d, "driver.ml"))
    r = sh(["timeout", str(timeout), "coqc", "-Q", COQ, "SV", "Extract.v"], cwd=d)
    if r.returncode != 0 or not os.path.exists(os.path.join(d, "model.ml")):
        return None, "extraction failed:\n" + r.stdout[-3000:]
    r2 = sh(["ocamlfind", "ocamlopt", "-O3" if False else "-inline", "100", "-w", "-a", "model.mli", "model.ml", "driver.ml", "-o", out + ".tmp"], cwd=d)
    if r2.returncode != 0:
        return None, "ocaml build failed:\n" + r2.stdout[-3000:]
    os.replace(out + ".tmp", out)
    return out, r.stdout[-500:] + r2.stdout[-500:]


def build_one_cxx(src, tag, extra=()):
    """build a harness against /repo (cached on repo hash + source hash); returns (path or None, log)"""
    rh = repo_hash()
    hh = file_hash(glob.glob(f"{VERIF}/harness/*.hpp") + [src])
    out = os.path.join(BUILD, "bin", f"{tag}-{rh}-{hh}")
    fails = build_cxx([(src, out, ["-O1", f"-I{VERIF}/harness"] + list(extra))])
    if out in fails:
        return None, fails[out]
    return out, ""
