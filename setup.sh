#!/bin/sh
# Run once after a fresh restore, offline: pre-builds the caches for the unchanged tree (tracer units,
# harnesses, the Coq development).  Every check rebuilds whatever /repo's current working tree invalidates.
cd "$(dirname "$0")"
mkdir -p build/bin evidence replays coq/Gen
python3 scripts/prebuild.py
