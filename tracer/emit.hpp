// Path enumeration, translator validation and Coq emission for Engine A.  See DESIGN.md 4.1.
#pragma once

#include <algorithm>
#include <cinttypes>
#include <cstring>
#include <fstream>
#include <iostream>
#include <set>

#include "sym.hpp"

namespace symv {

struct Rng
{
  uint64_t s;
  explicit Rng(uint64_t seed) : s(seed) {}
  uint64_t next()
  {
    uint64_t z = (s += 0x9e3779b97f4a7c15ULL);
    z          = (z ^ (z >> 30)) * 0xbf58476d1ce4e5b9ULL;
    z          = (z ^ (z >> 27)) * 0x94d049bb133111ebULL;
    return z ^ (z >> 31);
  }
  double uni() { return static_cast<double>(next() >> 11) * 0x1.0p-53; }  // [0,1)
  double sym() { return 2 * uni() - 1; }
  int below(int n) { return static_cast<int>(next() % static_cast<uint64_t>(n)); }
  double logu(double lo, double hi) { return std::exp(std::log(lo) + uni() * (std::log(hi) - std::log(lo))); }
};

// stratified magnitude for a "rotation angle"-like quantity (the case splits of the proofs)
inline double strat_angle(Rng & r)
{
  switch (r.below(8)) {
  case 0: return 0.0;
  case 1: return r.logu(1e-12, 1e-6);
  case 2: return 1e-4 * (1 + r.sym() * r.logu(1e-6, 1e-1));
  case 3: return r.logu(1e-4, 1e-1);
  case 4: return 0.1 + 2.9 * r.uni();
  case 5: return M_PI - r.logu(1e-12, 1e-2);
  case 6: return M_PI + r.logu(1e-12, 1e-2);
  default: return 3.2 + 10 * r.uni();
  }
}
inline double strat_lin(Rng & r)
{
  switch (r.below(4)) {
  case 0: return 0.0;
  case 1: return r.sym();
  case 2: return (r.below(2) ? 1 : -1) * r.logu(1e-3, 1e3);
  default: return r.sym() * 5;
  }
}

struct Arg
{
  std::string name;
  int n;
  // kind: "gen" generic reals; "tan:k" tangent with last k entries a rotation vector;
  //       "unit:k" last k entries normalised (unit quaternion / complex), rest generic
  std::string kind = "gen";
};

inline void gen_arg(const Arg & a, Rng & r, std::vector<double> & out)
{
  out.assign(static_cast<size_t>(a.n), 0.0);
  auto k_of = [&](size_t pre) { return std::atoi(a.kind.c_str() + pre); };
  if (a.kind.rfind("tan:", 0) == 0) {
    int k = k_of(4);
    for (int i = 0; i < a.n - k; ++i) out[static_cast<size_t>(i)] = strat_lin(r);
    double ang = strat_angle(r);
    if (k == 1) {
      out[static_cast<size_t>(a.n - 1)] = (r.below(2) ? 1 : -1) * ang;
    } else if (k > 1) {
      std::vector<double> ax(static_cast<size_t>(k));
      double nn = 0;
      bool single = r.below(4) == 0;
      int which   = r.below(k);
      for (int i = 0; i < k; ++i) {
        ax[static_cast<size_t>(i)] = single ? (i == which ? 1.0 : 0.0) : r.sym();
        nn += ax[static_cast<size_t>(i)] * ax[static_cast<size_t>(i)];
      }
      nn = std::sqrt(nn);
      if (nn == 0) { ax[0] = 1, nn = 1; }
      for (int i = 0; i < k; ++i) out[static_cast<size_t>(a.n - k + i)] = ax[static_cast<size_t>(i)] / nn * ang;
    }
  } else if (a.kind.rfind("unit:", 0) == 0) {
    int k = k_of(5);
    for (int i = 0; i < a.n - k; ++i) out[static_cast<size_t>(i)] = strat_lin(r);
    double ang = strat_angle(r);
    if (k == 2) {
      out[static_cast<size_t>(a.n - 2)] = std::sin(ang);
      out[static_cast<size_t>(a.n - 1)] = std::cos(ang);
    } else if (k == 4) {
      double ax[3], nn = 0;
      for (auto & v : ax) {
        v = r.sym();
        nn += v * v;
      }
      nn = std::sqrt(nn);
      if (nn == 0) { ax[0] = 1, nn = 1; }
      for (int i = 0; i < 3; ++i) out[static_cast<size_t>(a.n - 4 + i)] = ax[i] / nn * std::sin(ang / 2);
      out[static_cast<size_t>(a.n - 1)] = std::cos(ang / 2);
      if (r.below(4) == 0)
        for (int i = 0; i < 4; ++i) out[static_cast<size_t>(a.n - 4 + i)] *= -1;
    }
  } else if (a.kind == "sq") {
    // squared angle, stratified around the switch
    for (auto & v : out) {
      double x = strat_angle(r);
      v        = x * x;
    }
  } else {
    for (auto & v : out) v = strat_lin(r);
  }
}

template<typename S>
using Ins = std::vector<std::vector<S>>;

template<typename S>
struct Out
{
  int rows = 0, cols = -1;  // cols < 0: vector
  std::vector<S> v;        // row-major
};

template<typename S, typename M>
Out<S> out_mat(const M & m)
{
  Out<S> o;
  o.rows = static_cast<int>(m.rows());
  o.cols = static_cast<int>(m.cols());
  for (Eigen::Index i = 0; i < m.rows(); ++i)
    for (Eigen::Index j = 0; j < m.cols(); ++j) o.v.push_back(m(i, j));
  return o;
}
template<typename S, typename V>
Out<S> out_vec(const V & m)
{
  Out<S> o;
  o.rows = static_cast<int>(m.size());
  o.cols = -1;
  for (Eigen::Index i = 0; i < m.size(); ++i) o.v.push_back(m(i));
  return o;
}
template<typename S>
Out<S> out_scalar(const S & x)
{
  Out<S> o;
  o.rows = 1;
  o.cols = -1;
  o.v.push_back(x);
  return o;
}

template<typename S, int N>
Eigen::Matrix<S, N, 1> as_vec(const std::vector<S> & v)
{
  Eigen::Matrix<S, N, 1> r(static_cast<Eigen::Index>(v.size()));
  for (size_t i = 0; i < v.size(); ++i) r(static_cast<Eigen::Index>(i)) = v[i];
  return r;
}
template<typename S, int R, int C>
Eigen::Matrix<S, R, C> as_mat(const std::vector<S> & v)
{
  Eigen::Matrix<S, R, C> r;
  for (int i = 0; i < R; ++i)
    for (int j = 0; j < C; ++j) r(i, j) = v[static_cast<size_t>(i * C + j)];
  return r;
}

struct PathRec
{
  std::vector<Decision> dec;
  int rows, cols;
  std::vector<int> outs;
};

struct Traced
{
  std::string name;
  std::vector<Arg> args;
  std::vector<PathRec> paths;
  // validation stats
  long val_cases = 0, val_fail = 0, val_nopath = 0;
  double val_maxrel = 0;
  std::vector<long> path_hits;
  std::string first_fail;
};

struct Unit
{
  std::string unit_name;
  std::vector<Traced> fns;
  uint64_t seed = 1;
  int val_n     = 400;

  template<typename FS, typename FD>
  void trace(const std::string & name, std::vector<Arg> args, FS fsym, FD fdbl)
  {
    Traced t;
    t.name = name;
    t.args = args;
    Store & st = store();
    // symbolic inputs
    Ins<Sym> in;
    for (auto & a : args) {
      std::vector<Sym> v;
      for (int i = 0; i < a.n; ++i) v.push_back(Sym::var(a.name + std::to_string(i)));
      in.push_back(v);
    }
    std::vector<std::vector<bool>> work{{}};
    while (!work.empty()) {
      auto prefix = work.back();
      work.pop_back();
      st.begin_path(prefix);
      Out<Sym> o = fsym(in);
      if (st.overflow) {
        std::fprintf(stderr, "trace %s: too many decisions\n", name.c_str());
        std::exit(3);
      }
      PathRec p;
      p.dec  = st.decisions;
      p.rows = o.rows;
      p.cols = o.cols;
      for (auto & s : o.v) p.outs.push_back(s.id);
      for (size_t i = prefix.size(); i < p.dec.size(); ++i) {
        std::vector<bool> np;
        for (size_t j = 0; j < i; ++j) np.push_back(p.dec[j].outcome);
        np.push_back(!p.dec[i].outcome);
        work.push_back(np);
      }
      t.paths.push_back(p);
      if (t.paths.size() > 256) {
        std::fprintf(stderr, "trace %s: too many paths\n", name.c_str());
        std::exit(3);
      }
    }
    st.begin_path({});
    // deterministic order: sort by outcome vector
    std::sort(t.paths.begin(), t.paths.end(), [](const PathRec & a, const PathRec & b) {
      std::vector<int> x, y;
      for (auto & d : a.dec) x.push_back(d.outcome);
      for (auto & d : b.dec) y.push_back(d.outcome);
      return x < y;
    });
    validate(t, fdbl);
    fns.push_back(t);
  }

  template<typename F>
  void trace(const std::string & name, std::vector<Arg> args, F f)
  {
    trace(name, args, f, f);
  }

  template<typename FD>
  void validate(Traced & t, FD fdbl)
  {
    Rng rng(seed * 1000003ULL + std::hash<std::string>{}(t.name));
    Store & st = store();
    t.path_hits.assign(t.paths.size(), 0);
    for (int c = 0; c < val_n; ++c) {
      Ins<double> in;
      for (auto & a : t.args) {
        std::vector<double> v;
        gen_arg(a, rng, v);
        in.push_back(v);
      }
      Out<double> ref = fdbl(in);
      Replayer<double> rp(st);
      for (size_t ai = 0; ai < t.args.size(); ++ai)
        for (int i = 0; i < t.args[ai].n; ++i)
          rp.set(st.var(t.args[ai].name + std::to_string(i)), in[ai][static_cast<size_t>(i)]);
      int which = -1;
      for (size_t pi = 0; pi < t.paths.size(); ++pi) {
        bool ok = true;
        for (auto & d : t.paths[pi].dec)
          if (!rp.holds(d)) {
            ok = false;
            break;
          }
        if (ok) {
          which = static_cast<int>(pi);
          break;
        }
      }
      ++t.val_cases;
      if (which < 0) {
        ++t.val_nopath;
        ++t.val_fail;
        if (t.first_fail.empty()) t.first_fail = "no path condition holds";
        continue;
      }
      ++t.path_hits[static_cast<size_t>(which)];
      auto & p = t.paths[static_cast<size_t>(which)];
      bool bad = p.outs.size() != ref.v.size();
      double scale = 1e-300;
      std::vector<double> mine;
      if (!bad) {
        for (auto id : p.outs) mine.push_back(rp.eval(id));
        for (auto & kv : rp.memo)
          if (std::isfinite(kv.second)) scale = std::max(scale, std::fabs(kv.second));
        for (size_t i = 0; i < mine.size(); ++i) {
          double a = mine[i], b = ref.v[i];
          if (std::isnan(a) && std::isnan(b)) continue;
          if (std::isinf(a) && std::isinf(b) && (a > 0) == (b > 0)) continue;
          double rel = std::fabs(a - b) / scale;
          if (!(rel <= 1e-11)) bad = true;
          if (std::isfinite(rel)) t.val_maxrel = std::max(t.val_maxrel, rel);
        }
      }
      if (bad) {
        ++t.val_fail;
        if (t.first_fail.empty()) {
          std::ostringstream os;
          os.precision(17);
          os << "path " << which << " inputs";
          for (auto & v : in) {
            os << " [";
            for (auto x : v) os << x << " ";
            os << "]";
          }
          os << " model";
          for (auto x : mine) os << " " << x;
          os << " impl";
          for (auto x : ref.v) os << " " << x;
          t.first_fail = os.str();
        }
      }
    }
  }

  // ---------------------------------------------------------------- Coq emission
  static std::string cst_str(double v)
  {
    std::ostringstream os;
    if (integral_small(v)) {
      long long k = static_cast<long long>(v);
      if (k < 0)
        os << "(" << k << ")";
      else
        os << k;
      return os.str();
    }
    // exact dyadic m / 2^e
    int e;
    double m = std::frexp(v, &e);  // v = m * 2^e, 0.5 <= |m| < 1
    // scale mantissa to integer
    double mi = std::ldexp(m, 53);
    e -= 53;
    long long M = static_cast<long long>(mi);
    while (M % 2 == 0) {
      M /= 2;
      ++e;
    }
    auto pow2 = [](int k) {
      // decimal string of 2^k
      std::vector<int> d{1};
      for (int i = 0; i < k; ++i) {
        int c = 0;
        for (auto & x : d) {
          int y = x * 2 + c;
          x     = y % 10;
          c     = y / 10;
        }
        if (c) d.push_back(c);
      }
      std::string s;
      for (auto it = d.rbegin(); it != d.rend(); ++it) s.push_back(static_cast<char>('0' + *it));
      return s;
    };
    if (e >= 0)
      os << "(" << (M < 0 ? "(" : "") << M << (M < 0 ? ")" : "") << " * " << pow2(e) << ")";
    else
      os << "(" << (M < 0 ? "(" : "") << M << (M < 0 ? ")" : "") << " / " << pow2(-e) << ")";
    return os.str();
  }

  static std::string ref(const Store & st, int id)
  {
    const Node & n = st.nodes[static_cast<size_t>(id)];
    if (n.op == VAR) return n.name;
    if (n.op == CST) return cst_str(n.val);
    return "n" + std::to_string(id);
  }

  static std::string rhs(const Store & st, int id)
  {
    const Node & n = st.nodes[static_cast<size_t>(id)];
    auto A = [&] { return ref(st, n.a); };
    auto B = [&] { return ref(st, n.b); };
    switch (n.op) {
    case ADD: return A() + " + " + B();
    case SUB: return A() + " - " + B();
    case MUL: return A() + " * " + B();
    case DIV: return A() + " / " + B();
    case NEG: return "- " + A();
    case SQRT: return "sqrt " + A();
    case SIN: return "sin " + A();
    case COS: return "cos " + A();
    case TAN: return "tan " + A();
    case ATAN2: return "atan2 " + A() + " " + B();
    case EXP: return "exp " + A();
    case LOG: return "ln " + A();
    case ABS: return "Rabs " + A();
    case ASIN: return "asin " + A();
    case ACOS: return "acos " + A();
    case ATAN: return "atan " + A();
    case ORACLE: return "oracle " + std::to_string(n.a) + " " + std::to_string(n.b);
    default: return "?";
    }
  }

  static void collect(const Store & st, int id, std::set<int> & seen, std::vector<int> & order)
  {
    if (id < 0 || seen.count(id)) return;
    const Node & n = st.nodes[static_cast<size_t>(id)];
    if (n.op == VAR || n.op == CST) return;
    seen.insert(id);
    if (n.op != ORACLE) {
      collect(st, n.a, seen, order);
      collect(st, n.b, seen, order);
    }
    order.push_back(id);
  }

  static std::string cond_str(const Store & st, const Decision & d)
  {
    std::string a = ref(st, d.a), b = ref(st, d.b);
    std::string core = d.cmp == LT ? a + " < " + b : d.cmp == LE ? a + " <= " + b : a + " = " + b;
    return d.outcome ? "(" + core + ")" : "(~ " + core + ")";
  }

  void emit_fn(std::ostream & os, const Traced & t) const
  {
    const Store & st = store();
    std::string params;
    for (auto & a : t.args) params += " " + a.name;
    const std::string sig = params.empty() ? std::string("") : " (" + params.substr(1) + " : list R)";
    const std::string fa  = params.empty() ? std::string("") : "forall" + params + ", ";
    auto binders = [&](std::ostream & o) {
      for (auto & a : t.args)
        for (int i = 0; i < a.n; ++i)
          o << "  let " << a.name << i << " := nth " << i << " " << a.name << " 0 in\n";
    };
    os << "(* ---- " << t.name << ": " << t.paths.size() << " path(s) ---- *)\n";
    for (size_t pi = 0; pi < t.paths.size(); ++pi) {
      auto & p = t.paths[pi];
      // value
      {
        std::set<int> seen;
        std::vector<int> order;
        for (auto id : p.outs) collect(st, id, seen, order);
        os << "Definition " << t.name << "_p" << pi << sig << " : "
           << (p.cols >= 0 ? "list (list R)" : "list R") << " :=\n";
        binders(os);
        for (auto id : order) os << "  let n" << id << " := " << rhs(st, id) << " in\n";
        os << "  [";
        if (p.cols < 0) {
          for (size_t i = 0; i < p.outs.size(); ++i) os << (i ? "; " : "") << ref(st, p.outs[i]);
        } else {
          for (int i = 0; i < p.rows; ++i) {
            os << (i ? ";\n   " : "") << "[";
            for (int j = 0; j < p.cols; ++j)
              os << (j ? "; " : "") << ref(st, p.outs[static_cast<size_t>(i * p.cols + j)]);
            os << "]";
          }
        }
        os << "].\n";
      }
      // condition
      {
        std::set<int> seen;
        std::vector<int> order;
        for (auto & d : p.dec) {
          collect(st, d.a, seen, order);
          collect(st, d.b, seen, order);
        }
        os << "Definition " << t.name << "_c" << pi << sig << " : Prop :=\n";
        binders(os);
        for (auto id : order) os << "  let n" << id << " := " << rhs(st, id) << " in\n";
        os << "  ";
        for (auto & d : p.dec) os << cond_str(st, d) << " /\\ ";
        os << "True.\n";
      }
    }
    // relational form
    os << "Definition " << t.name << "_rel" << sig << " (out : "
       << (t.paths[0].cols >= 0 ? "list (list R)" : "list R") << ") : Prop :=\n  ";
    for (size_t pi = 0; pi < t.paths.size(); ++pi)
      os << (pi ? "\n  \\/ " : "") << "(" << t.name << "_c" << pi << params << " /\\ out = " << t.name << "_p" << pi
         << params << ")";
    os << ".\n";
    os << "Create HintDb " << t.name << "_db.\n#[global] Hint Unfold";
    for (size_t pi = 0; pi < t.paths.size(); ++pi) os << " " << t.name << "_p" << pi << " " << t.name << "_c" << pi;
    os << " : " << t.name << "_db.\n";
    if (t.paths.size() > 8) {
      // the exhaustiveness lemma is supplementary (each property theorem case-splits on the relation itself);
      // its proof search grows exponentially with the number of decisions, so it is only emitted for small trees
      os << "(* cover lemma omitted: " << t.paths.size() << " paths *)\n\n";
      return;
    }
    os << "Lemma " << t.name << "_cover : " << fa;
    for (size_t pi = 0; pi < t.paths.size(); ++pi) os << (pi ? " \\/ " : "") << t.name << "_c" << pi << params;
    os << ".\nProof. intros; unfold ";
    for (size_t pi = 0; pi < t.paths.size(); ++pi) os << (pi ? ", " : "") << t.name << "_c" << pi;
    os << "; gen_cover. Qed.\n\n";
  }

  void emit(const std::string & dir) const
  {
    std::ostringstream os;
    os << "(* GENERATED by /verif/tracer from /repo's headers instantiated with the symbolic scalar.\n"
          "   Do not edit: regenerated on every check run. *)\n";
    os << "From Coq Require Import Reals List Lra.\nFrom SV Require Import Base.GenPrelude.\n";
    os << "Import ListNotations.\nLocal Open Scope R_scope.\n\n";
    for (auto & t : fns) emit_fn(os, t);
    write_if_changed(dir + "/" + unit_name + ".v", os.str());
    // summary json
    std::ostringstream js;
    js << "{\"unit\":\"" << unit_name << "\",\"functions\":[";
    for (size_t i = 0; i < fns.size(); ++i) {
      auto & t = fns[i];
      size_t nodes = 0;
      const Store & st = store();
      for (auto & p : t.paths) {
        std::set<int> seen;
        std::vector<int> order;
        for (auto id : p.outs) collect(st, id, seen, order);
        nodes = std::max(nodes, order.size());
      }
      js << (i ? "," : "") << "{\"name\":\"" << t.name << "\",\"paths\":" << t.paths.size() << ",\"nodes\":" << nodes
         << ",\"val_cases\":" << t.val_cases << ",\"val_fail\":" << t.val_fail << ",\"val_maxrel\":" << t.val_maxrel
         << ",\"path_hits\":[";
      for (size_t k = 0; k < t.path_hits.size(); ++k) js << (k ? "," : "") << t.path_hits[k];
      js << "],\"first_fail\":\"";
      for (char c : t.first_fail) js << (c == '"' || c == '\\' ? ' ' : c);
      js << "\"}";
    }
    js << "]}\n";
    write_if_changed(dir + "/" + unit_name + ".json", js.str());
  }

  static void write_if_changed(const std::string & path, const std::string & content)
  {
    {
      std::ifstream f(path);
      if (f) {
        std::stringstream buf;
        buf << f.rdbuf();
        if (buf.str() == content) return;
      }
    }
    std::ofstream f(path);
    f << content;
  }
};

}  // namespace symv
