// Generic tracing of the public Lie group API of one group type (through the public classes, so the
// CRTP dispatch in lie_group_base.hpp is inside the traced model).
#pragma once

#include "emit.hpp"

#include <smooth/lie_groups.hpp>
#include <smooth/bundle.hpp>
#include <smooth/c1.hpp>
#include <smooth/galilei.hpp>
#include <smooth/se2.hpp>
#include <smooth/se3.hpp>
#include <smooth/se_k_3.hpp>
#include <smooth/so2.hpp>
#include <smooth/so3.hpp>
#include <smooth/derivatives.hpp>

namespace symv {

template<typename G, typename S>
G mk_group(const std::vector<S> & c)
{
  G g;
  for (size_t i = 0; i < c.size(); ++i) g.coeffs()(static_cast<Eigen::Index>(i)) = c[i];
  return g;
}

// what to trace for a group: flags let units split work
struct GroupOpts
{
  bool algebra = true;   // comp inv matrix identity hat vee Ad ad bracket
  bool explog  = true;   // exp log
  bool jac     = true;   // dr_exp dr_expinv dl_exp dl_expinv
  bool hess    = false;  // d2r_exp d2r_expinv d2l_*
  int unit_k   = 0;      // number of trailing unit-norm coefficients (0: none)
  int rot_k    = 0;      // number of trailing rotation tangent coordinates
  int act_n    = 0;      // size of vector the group acts on (0: no action)
};

template<template<typename> class GT, bool Hess = false>
void trace_group(Unit & u, const std::string & pre, const GroupOpts & o)
{
  using GS            = GT<Sym>;
  constexpr int Rep   = GS::RepSize;
  constexpr int Dof   = GS::Dof;
  constexpr int Dim   = GS::Dim;
  const std::string gk = o.unit_k ? "unit:" + std::to_string(o.unit_k) : "gen";
  const std::string tk = "tan:" + std::to_string(o.rot_k);

  if (o.algebra) {
    u.trace(pre + "_identity", {}, [](const auto & in) {
      using S = typename std::decay_t<decltype(in)>::value_type::value_type;
      return out_vec<S>(GT<S>::Identity().coeffs());
    });
    u.trace(pre + "_matrix", {{"g", Rep, gk}}, [](const auto & in) {
      using S = typename std::decay_t<decltype(in)>::value_type::value_type;
      return out_mat<S>(mk_group<GT<S>>(in[0]).matrix());
    });
    u.trace(pre + "_comp", {{"g", Rep, gk}, {"h", Rep, gk}}, [](const auto & in) {
      using S = typename std::decay_t<decltype(in)>::value_type::value_type;
      return out_vec<S>((mk_group<GT<S>>(in[0]) * mk_group<GT<S>>(in[1])).coeffs());
    });
    u.trace(pre + "_inv", {{"g", Rep, gk}}, [](const auto & in) {
      using S = typename std::decay_t<decltype(in)>::value_type::value_type;
      return out_vec<S>(mk_group<GT<S>>(in[0]).inverse().coeffs());
    });
    u.trace(pre + "_hat", {{"a", Dof, tk}}, [](const auto & in) {
      using S = typename std::decay_t<decltype(in)>::value_type::value_type;
      return out_mat<S>(GT<S>::hat(as_vec<S, Dof>(in[0])));
    });
    u.trace(pre + "_vee", {{"m", Dim * Dim, "gen"}}, [](const auto & in) {
      using S = typename std::decay_t<decltype(in)>::value_type::value_type;
      return out_vec<S>(GT<S>::vee(as_mat<S, Dim, Dim>(in[0])));
    });
    u.trace(pre + "_Ad", {{"g", Rep, gk}}, [](const auto & in) {
      using S = typename std::decay_t<decltype(in)>::value_type::value_type;
      return out_mat<S>(mk_group<GT<S>>(in[0]).Ad());
    });
    u.trace(pre + "_ad", {{"a", Dof, tk}}, [](const auto & in) {
      using S = typename std::decay_t<decltype(in)>::value_type::value_type;
      return out_mat<S>(GT<S>::ad(as_vec<S, Dof>(in[0])));
    });
    u.trace(pre + "_bracket", {{"a", Dof, tk}, {"b", Dof, tk}}, [](const auto & in) {
      using S = typename std::decay_t<decltype(in)>::value_type::value_type;
      return out_vec<S>(GT<S>::lie_bracket(as_vec<S, Dof>(in[0]), as_vec<S, Dof>(in[1])));
    });
  }
  if (o.explog) {
    u.trace(pre + "_exp", {{"a", Dof, tk}}, [](const auto & in) {
      using S = typename std::decay_t<decltype(in)>::value_type::value_type;
      return out_vec<S>(GT<S>::exp(as_vec<S, Dof>(in[0])).coeffs());
    });
    u.trace(pre + "_log", {{"g", Rep, gk}}, [](const auto & in) {
      using S = typename std::decay_t<decltype(in)>::value_type::value_type;
      return out_vec<S>(mk_group<GT<S>>(in[0]).log());
    });
  }
  if (o.jac) {
    u.trace(pre + "_dr_exp", {{"a", Dof, tk}}, [](const auto & in) {
      using S = typename std::decay_t<decltype(in)>::value_type::value_type;
      return out_mat<S>(GT<S>::dr_exp(as_vec<S, Dof>(in[0])));
    });
    u.trace(pre + "_dr_expinv", {{"a", Dof, tk}}, [](const auto & in) {
      using S = typename std::decay_t<decltype(in)>::value_type::value_type;
      return out_mat<S>(GT<S>::dr_expinv(as_vec<S, Dof>(in[0])));
    });
    u.trace(pre + "_dl_exp", {{"a", Dof, tk}}, [](const auto & in) {
      using S = typename std::decay_t<decltype(in)>::value_type::value_type;
      return out_mat<S>(GT<S>::dl_exp(as_vec<S, Dof>(in[0])));
    });
    u.trace(pre + "_dl_expinv", {{"a", Dof, tk}}, [](const auto & in) {
      using S = typename std::decay_t<decltype(in)>::value_type::value_type;
      return out_mat<S>(GT<S>::dl_expinv(as_vec<S, Dof>(in[0])));
    });
  }
  if constexpr (Hess) {
    u.trace(pre + "_d2r_exp", {{"a", Dof, tk}}, [](const auto & in) {
      using S = typename std::decay_t<decltype(in)>::value_type::value_type;
      return out_mat<S>(GT<S>::d2r_exp(as_vec<S, Dof>(in[0])));
    });
    u.trace(pre + "_d2r_expinv", {{"a", Dof, tk}}, [](const auto & in) {
      using S = typename std::decay_t<decltype(in)>::value_type::value_type;
      return out_mat<S>(GT<S>::d2r_expinv(as_vec<S, Dof>(in[0])));
    });
    u.trace(pre + "_d2l_exp", {{"a", Dof, tk}}, [](const auto & in) {
      using S = typename std::decay_t<decltype(in)>::value_type::value_type;
      return out_mat<S>(GT<S>::d2l_exp(as_vec<S, Dof>(in[0])));
    });
    u.trace(pre + "_d2l_expinv", {{"a", Dof, tk}}, [](const auto & in) {
      using S = typename std::decay_t<decltype(in)>::value_type::value_type;
      return out_mat<S>(GT<S>::d2l_expinv(as_vec<S, Dof>(in[0])));
    });
  }
}

inline int unit_main(Unit & u, int argc, char ** argv)
{
  std::string dir = argc > 1 ? argv[1] : ".";
  u.emit(dir);
  long fails = 0;
  for (auto & t : u.fns) {
    fails += t.val_fail;
    if (t.val_fail)
      std::fprintf(stderr, "TRANSLATOR-VALIDATION FAIL %s: %ld/%ld  %s\n", t.name.c_str(), t.val_fail, t.val_cases,
                   t.first_fail.c_str());
  }
  return fails ? 2 : 0;
}

}  // namespace symv
