// Tracing through the generic LieGroup interface (smooth::composition, smooth::exp<G>, ... = traits::lie<G>),
// which is what Bundles, Eigen vectors and built-in scalars are used through.
#pragma once
#include "sym.hpp"
#include <smooth/detail/traits.hpp>
// mark the symbolic scalar as a scalar type for the library (the documented extension point, cf. compat/autodiff.hpp)
template<>
struct smooth::detail::scalar_trait<symv::Sym>
{
  static constexpr bool value = true;
};
#include "groups_common.hpp"
#include <smooth/lie_groups.hpp>
#include <smooth/lie_groups/native.hpp>

namespace symv {

template<typename G, typename S>
G lg_make(const std::vector<S> & c)
{
  if constexpr (std::is_same_v<G, S>) {
    return c[0];
  } else if constexpr (std::is_base_of_v<Eigen::MatrixBase<G>, G>) {
    G g(static_cast<Eigen::Index>(c.size()));
    for (size_t i = 0; i < c.size(); ++i) g(static_cast<Eigen::Index>(i)) = c[i];
    return g;
  } else {
    G g;
    for (size_t i = 0; i < c.size(); ++i) g.coeffs()(static_cast<Eigen::Index>(i)) = c[i];
    return g;
  }
}
template<typename S, typename G>
Out<S> lg_out(const G & g)
{
  if constexpr (std::is_same_v<G, S>) {
    return out_scalar<S>(g);
  } else if constexpr (std::is_base_of_v<Eigen::MatrixBase<G>, G>) {
    return out_vec<S>(g);
  } else {
    return out_vec<S>(g.coeffs());
  }
}
template<typename S>
Eigen::Matrix<S, -1, 1> dyn_vec(const std::vector<S> & v)
{
  Eigen::Matrix<S, -1, 1> r(static_cast<Eigen::Index>(v.size()));
  for (size_t i = 0; i < v.size(); ++i) r(static_cast<Eigen::Index>(i)) = v[i];
  return r;
}

// GT<S>: the group type for scalar S.  rep/dof: runtime sizes (for dynamic vectors).
template<template<typename> class GT, bool Hess = true>
void trace_lie(Unit & u, const std::string & pre, int rep, int dof, const std::string & gk = "gen",
               const std::string & tk = "gen")
{
  u.trace(pre + "_identity", {}, [dof](const auto & in) {
    using S = typename std::decay_t<decltype(in)>::value_type::value_type;
    return lg_out<S>(smooth::Identity<GT<S>>(dof));
  });
  u.trace(pre + "_comp", {{"g", rep, gk}, {"h", rep, gk}}, [](const auto & in) {
    using S = typename std::decay_t<decltype(in)>::value_type::value_type;
    return lg_out<S>(smooth::composition(lg_make<GT<S>>(in[0]), lg_make<GT<S>>(in[1])));
  });
  u.trace(pre + "_inv", {{"g", rep, gk}}, [](const auto & in) {
    using S = typename std::decay_t<decltype(in)>::value_type::value_type;
    return lg_out<S>(smooth::inverse(lg_make<GT<S>>(in[0])));
  });
  u.trace(pre + "_log", {{"g", rep, gk}}, [](const auto & in) {
    using S = typename std::decay_t<decltype(in)>::value_type::value_type;
    return out_vec<S>(smooth::log(lg_make<GT<S>>(in[0])));
  });
  u.trace(pre + "_exp", {{"a", dof, tk}}, [](const auto & in) {
    using S = typename std::decay_t<decltype(in)>::value_type::value_type;
    return lg_out<S>(smooth::exp<GT<S>>(dyn_vec(in[0])));
  });
  u.trace(pre + "_Ad", {{"g", rep, gk}}, [](const auto & in) {
    using S = typename std::decay_t<decltype(in)>::value_type::value_type;
    return out_mat<S>(smooth::Ad(lg_make<GT<S>>(in[0])));
  });
  u.trace(pre + "_ad", {{"a", dof, tk}}, [](const auto & in) {
    using S = typename std::decay_t<decltype(in)>::value_type::value_type;
    return out_mat<S>(smooth::ad<GT<S>>(dyn_vec(in[0])));
  });
  u.trace(pre + "_dr_exp", {{"a", dof, tk}}, [](const auto & in) {
    using S = typename std::decay_t<decltype(in)>::value_type::value_type;
    return out_mat<S>(smooth::dr_exp<GT<S>>(dyn_vec(in[0])));
  });
  u.trace(pre + "_dr_expinv", {{"a", dof, tk}}, [](const auto & in) {
    using S = typename std::decay_t<decltype(in)>::value_type::value_type;
    return out_mat<S>(smooth::dr_expinv<GT<S>>(dyn_vec(in[0])));
  });
  if constexpr (Hess) {
    u.trace(pre + "_d2r_exp", {{"a", dof, tk}}, [](const auto & in) {
      using S = typename std::decay_t<decltype(in)>::value_type::value_type;
      return out_mat<S>(smooth::d2r_exp<GT<S>>(dyn_vec(in[0])));
    });
    u.trace(pre + "_d2r_expinv", {{"a", dof, tk}}, [](const auto & in) {
      using S = typename std::decay_t<decltype(in)>::value_type::value_type;
      return out_mat<S>(smooth::d2r_expinv<GT<S>>(dyn_vec(in[0])));
    });
  }
}

}  // namespace symv
