// Engine A translator: a symbolic scalar type.  Instantiating pettni/smooth's templates with
// `Sym` records the exact DAG of arithmetic the code performs; comparisons on symbolic values are
// answered by a branch oracle and all feasible paths are enumerated.  See DESIGN.md section 4.1.
#pragma once

#include <cassert>
#include <cmath>
#include <cstdint>
#include <cstdio>
#include <cstdlib>
#include <cstring>
#include <tuple>
#include <type_traits>
#include <iostream>
#include <functional>
#include <limits>
#include <map>
#include <sstream>
#include <string>
#include <unordered_map>
#include <vector>

namespace symv {

enum Op : int {
  VAR = 0,
  CST,  // exact binary64 constant
  ADD,
  SUB,
  MUL,
  DIV,
  NEG,
  SQRT,
  SIN,
  COS,
  TAN,
  ATAN2,  // atan2(a, b)
  EXP,
  LOG,
  ABS,
  ASIN,
  ACOS,
  ATAN,
  ORACLE,  // uninterpreted function value (a = oracle id, b = slot)
};

struct Node
{
  Op op;
  int a = -1, b = -1;
  double val = 0;    // CST
  std::string name;  // VAR
};

enum Cmp : int { LT = 0, LE, EQ };

struct Decision
{
  Cmp cmp;
  int a, b;
  bool outcome;
};

struct Store
{
  std::vector<Node> nodes;
  std::map<std::tuple<int, int, int>, int> cons;
  std::map<uint64_t, int> csts;
  std::map<std::string, int> vars;

  // path enumeration state
  std::vector<bool> forced;         // prefix of outcomes to replay
  std::vector<Decision> decisions;  // decisions taken on this run
  // relation store: per ordered pair (lo,hi) the set of possible orderings of lo vs hi
  // bit0: lo<hi, bit1: lo==hi, bit2: lo>hi
  std::map<std::pair<int, int>, int> rel;
  size_t max_decisions = 40;
  bool overflow        = false;

  int mk(Op op, int a, int b)
  {
    auto key = std::make_tuple(static_cast<int>(op), a, b);
    auto it  = cons.find(key);
    if (it != cons.end()) return it->second;
    Node n;
    n.op = op;
    n.a  = a;
    n.b  = b;
    nodes.push_back(n);
    int id    = static_cast<int>(nodes.size()) - 1;
    cons[key] = id;
    return id;
  }
  int cst(double v)
  {
    if (v == 0) v = 0.0;  // merge -0 and +0: the R-model has no signed zero
    uint64_t bits;
    static_assert(sizeof(bits) == sizeof(v));
    std::memcpy(&bits, &v, sizeof(v));
    auto it = csts.find(bits);
    if (it != csts.end()) return it->second;
    Node n;
    n.op  = CST;
    n.val = v;
    nodes.push_back(n);
    int id     = static_cast<int>(nodes.size()) - 1;
    csts[bits] = id;
    return id;
  }
  int var(const std::string & name)
  {
    auto it = vars.find(name);
    if (it != vars.end()) return it->second;
    Node n;
    n.op   = VAR;
    n.name = name;
    nodes.push_back(n);
    int id     = static_cast<int>(nodes.size()) - 1;
    vars[name] = id;
    return id;
  }
  bool is_cst(int id) const { return nodes[static_cast<size_t>(id)].op == CST; }
  double cval(int id) const { return nodes[static_cast<size_t>(id)].val; }

  void begin_path(const std::vector<bool> & prefix)
  {
    forced = prefix;
    decisions.clear();
    rel.clear();
    overflow = false;
  }

  // returns truth of (a cmp b), consulting relation store then oracle
  bool decide(Cmp cmp, int a, int b)
  {
    if (is_cst(a) && is_cst(b)) {
      double x = cval(a), y = cval(b);
      return cmp == LT ? x < y : cmp == LE ? x <= y : x == y;
    }
    if (a == b) { return cmp != LT; }
    // normalise pair
    bool flip = a > b;
    int lo = flip ? b : a, hi = flip ? a : b;
    int & st = rel.try_emplace({lo, hi}, 7).first->second;
    // set of orderings (of lo vs hi) making the query true
    int tset;
    if (cmp == EQ)
      tset = 2;
    else if (cmp == LT)
      tset = flip ? 4 : 1;
    else
      tset = flip ? (4 | 2) : (1 | 2);
    if ((st & ~tset) == 0) return true;  // all remaining possibilities make it true
    if ((st & tset) == 0) return false;
    size_t k = decisions.size();
    bool out;
    if (k < forced.size())
      out = forced[k];
    else
      out = false;
    if (k >= max_decisions) { overflow = true; }
    decisions.push_back({cmp, a, b, out});
    st = out ? (st & tset) : (st & ~tset);
    return out;
  }
};

inline Store & store()
{
  static Store s;
  return s;
}

inline bool integral_small(double v) { return std::nearbyint(v) == v && std::fabs(v) < 9007199254740992.0; }

struct Sym
{
  int id;

  Sym() : id(store().cst(0)) {}
  // constructors from builtin arithmetic types (each listed: avoids ambiguity for size_t etc.)
  Sym(int v) : id(store().cst(static_cast<double>(v))) {}
  Sym(long v) : id(store().cst(static_cast<double>(v))) {}
  Sym(long long v) : id(store().cst(static_cast<double>(v))) {}
  Sym(unsigned v) : id(store().cst(static_cast<double>(v))) {}
  Sym(unsigned long v) : id(store().cst(static_cast<double>(v))) {}
  Sym(unsigned long long v) : id(store().cst(static_cast<double>(v))) {}
  Sym(float v) : id(store().cst(static_cast<double>(v))) {}
  Sym(double v) : id(store().cst(v)) {}
  Sym(long double v) : id(store().cst(static_cast<double>(v))) {}
  Sym(bool v) : id(store().cst(v ? 1.0 : 0.0)) {}

  static Sym raw(int id)
  {
    Sym s;
    s.id = id;
    return s;
  }
  static Sym var(const std::string & name) { return raw(store().var(name)); }

  bool is_cst() const { return store().is_cst(id); }
  double cval() const { return store().cval(id); }

  Sym & operator+=(const Sym & o);
  Sym & operator-=(const Sym & o);
  Sym & operator*=(const Sym & o);
  Sym & operator/=(const Sym & o);
};

inline Sym operator-(const Sym & x)
{
  Store & s = store();
  if (x.is_cst()) return Sym(-x.cval());
  if (s.nodes[static_cast<size_t>(x.id)].op == NEG) return Sym::raw(s.nodes[static_cast<size_t>(x.id)].a);
  return Sym::raw(s.mk(NEG, x.id, -1));
}
inline Sym operator+(const Sym & x) { return x; }
inline bool is_neg(const Sym & x) { return store().nodes[static_cast<size_t>(x.id)].op == NEG; }
inline Sym neg_arg(const Sym & x) { return Sym::raw(store().nodes[static_cast<size_t>(x.id)].a); }
inline Sym operator-(const Sym & x, const Sym & y);
inline Sym operator+(const Sym & x, const Sym & y);

inline Sym operator+(const Sym & x, const Sym & y)
{
  if (x.is_cst() && y.is_cst() && integral_small(x.cval()) && integral_small(y.cval())
      && integral_small(x.cval() + y.cval()))
    return Sym(x.cval() + y.cval());
  if (x.is_cst() && x.cval() == 0) return y;
  if (y.is_cst() && y.cval() == 0) return x;
  if (is_neg(y)) return x - neg_arg(y);   // x + (-y) = x - y   (exact in IEEE and in R)
  if (is_neg(x)) return y - neg_arg(x);   // (-x) + y = y - x
  return Sym::raw(store().mk(ADD, x.id, y.id));
}
inline Sym operator-(const Sym & x, const Sym & y)
{
  if (x.is_cst() && y.is_cst() && integral_small(x.cval()) && integral_small(y.cval())
      && integral_small(x.cval() - y.cval()))
    return Sym(x.cval() - y.cval());
  if (y.is_cst() && y.cval() == 0) return x;
  if (x.is_cst() && x.cval() == 0) return -y;
  if (is_neg(y)) return x + neg_arg(y);   // x - (-y) = x + y
  return Sym::raw(store().mk(SUB, x.id, y.id));
}
inline Sym operator*(const Sym & x, const Sym & y)
{
  if (x.is_cst() && y.is_cst() && integral_small(x.cval()) && integral_small(y.cval())
      && integral_small(x.cval() * y.cval()))
    return Sym(x.cval() * y.cval());
  if (x.is_cst() && x.cval() == 0) return Sym(0);
  if (y.is_cst() && y.cval() == 0) return Sym(0);
  if (x.is_cst() && x.cval() == 1) return y;
  if (y.is_cst() && y.cval() == 1) return x;
  if (x.is_cst() && x.cval() == -1) return -y;
  if (y.is_cst() && y.cval() == -1) return -x;
  if (is_neg(x) && is_neg(y)) return neg_arg(x) * neg_arg(y);  // sign symmetry: exact in IEEE and in R
  if (is_neg(x)) return -(neg_arg(x) * y);
  if (is_neg(y)) return -(x * neg_arg(y));
  return Sym::raw(store().mk(MUL, x.id, y.id));
}
inline Sym operator/(const Sym & x, const Sym & y)
{
  // only x/1 is simplified; constant quotients stay symbolic (exact in R)
  if (y.is_cst() && y.cval() == 1) return x;
  // 0 / c for a non-zero constant c is (signed) zero in IEEE arithmetic and 0 in R
  if (x.is_cst() && x.cval() == 0 && y.is_cst() && y.cval() != 0 && std::isfinite(y.cval())) return Sym(0);
  if (is_neg(x) && is_neg(y)) return neg_arg(x) / neg_arg(y);
  if (is_neg(x)) return -(neg_arg(x) / y);
  if (is_neg(y)) return -(x / neg_arg(y));
  return Sym::raw(store().mk(DIV, x.id, y.id));
}

inline Sym & Sym::operator+=(const Sym & o) { return *this = *this + o; }
inline Sym & Sym::operator-=(const Sym & o) { return *this = *this - o; }
inline Sym & Sym::operator*=(const Sym & o) { return *this = *this * o; }
inline Sym & Sym::operator/=(const Sym & o) { return *this = *this / o; }

#define SYMV_MIXED(OP)                                                                           \
  template<typename T>                                                                           \
    requires std::is_arithmetic_v<T>                                                             \
  inline auto operator OP(const Sym & x, T y)                                                    \
  {                                                                                              \
    return x OP Sym(y);                                                                          \
  }                                                                                              \
  template<typename T>                                                                           \
    requires std::is_arithmetic_v<T>                                                             \
  inline auto operator OP(T x, const Sym & y)                                                    \
  {                                                                                              \
    return Sym(x) OP y;                                                                          \
  }
SYMV_MIXED(+)
SYMV_MIXED(-)
SYMV_MIXED(*)
SYMV_MIXED(/)

inline bool operator<(const Sym & x, const Sym & y) { return store().decide(LT, x.id, y.id); }
inline bool operator>(const Sym & x, const Sym & y) { return store().decide(LT, y.id, x.id); }
inline bool operator<=(const Sym & x, const Sym & y) { return store().decide(LE, x.id, y.id); }
inline bool operator>=(const Sym & x, const Sym & y) { return store().decide(LE, y.id, x.id); }
inline bool operator==(const Sym & x, const Sym & y) { return store().decide(EQ, x.id, y.id); }
inline bool operator!=(const Sym & x, const Sym & y) { return !store().decide(EQ, x.id, y.id); }
SYMV_MIXED(<)
SYMV_MIXED(>)
SYMV_MIXED(<=)
SYMV_MIXED(>=)
SYMV_MIXED(==)
SYMV_MIXED(!=)

inline Sym un(Op op, const Sym & x) { return Sym::raw(store().mk(op, x.id, -1)); }
inline Sym sqrt(const Sym & x)
{
  if (x.is_cst() && integral_small(x.cval()) && x.cval() >= 0) {
    double r = std::sqrt(x.cval());
    if (integral_small(r) && r * r == x.cval()) return Sym(r);
  }
  return un(SQRT, x);
}
inline Sym sin(const Sym & x)
{
  if (x.is_cst() && x.cval() == 0) return Sym(0);
  return un(SIN, x);
}
inline Sym cos(const Sym & x)
{
  if (x.is_cst() && x.cval() == 0) return Sym(1);
  return un(COS, x);
}
inline Sym tan(const Sym & x) { return un(TAN, x); }
inline Sym exp(const Sym & x)
{
  if (x.is_cst() && x.cval() == 0) return Sym(1);
  return un(EXP, x);
}
inline Sym log(const Sym & x) { return un(LOG, x); }
inline Sym asin(const Sym & x) { return un(ASIN, x); }
inline Sym acos(const Sym & x) { return un(ACOS, x); }
inline Sym atan(const Sym & x) { return un(ATAN, x); }
inline Sym abs(const Sym & x)
{
  if (x.is_cst()) return Sym(std::fabs(x.cval()));
  return un(ABS, x);
}
inline Sym fabs(const Sym & x) { return abs(x); }
inline Sym atan2(const Sym & y, const Sym & x) { return Sym::raw(store().mk(ATAN2, y.id, x.id)); }
inline Sym abs2(const Sym & x) { return x * x; }
inline const Sym & conj(const Sym & x) { return x; }
inline const Sym & real(const Sym & x) { return x; }
inline Sym imag(const Sym &) { return Sym(0); }
inline bool isfinite(const Sym &) { return true; }
inline bool isnan(const Sym &) { return false; }
inline bool isinf(const Sym &) { return false; }
inline Sym pow(const Sym & x, int n)
{
  Sym r(1);
  Sym b = n >= 0 ? x : Sym(1) / x;
  for (int i = 0; i < std::abs(n); ++i) r = r * b;
  return r;
}
inline Sym min(const Sym & a, const Sym & b) { return b < a ? b : a; }
inline Sym max(const Sym & a, const Sym & b) { return a < b ? b : a; }

// fresh uninterpreted value (used for solver oracles)
inline Sym oracle_value(int oracle_id, int slot) { return Sym::raw(store().mk(ORACLE, oracle_id, slot)); }

inline std::ostream & operator<<(std::ostream & os, const Sym & x) { return os << "n" << x.id; }

// ------------------------------------------------------------------------------------------
// numeric replay of a DAG (used for translator validation): evaluate node `id` with variable
// assignment `env` (by node id) in type F, in the recorded operation order.
template<typename F>
struct Replayer
{
  const Store & s;
  std::unordered_map<int, F> memo;
  std::function<F(int, int)> oracle;
  explicit Replayer(const Store & st) : s(st) {}
  void set(int var_id, F v) { memo[var_id] = v; }
  F eval(int id)
  {
    auto it = memo.find(id);
    if (it != memo.end()) return it->second;
    const Node & n = s.nodes[static_cast<size_t>(id)];
    F r;
    using std::sqrt, std::sin, std::cos, std::tan, std::atan2, std::exp, std::log, std::fabs, std::asin,
      std::acos, std::atan;
    switch (n.op) {
    case VAR: std::fprintf(stderr, "unbound var %s\n", n.name.c_str()); std::abort();
    case CST: r = static_cast<F>(n.val); break;
    case ADD: r = eval(n.a) + eval(n.b); break;
    case SUB: r = eval(n.a) - eval(n.b); break;
    case MUL: r = eval(n.a) * eval(n.b); break;
    case DIV: r = eval(n.a) / eval(n.b); break;
    case NEG: r = -eval(n.a); break;
    case SQRT: r = sqrt(eval(n.a)); break;
    case SIN: r = sin(eval(n.a)); break;
    case COS: r = cos(eval(n.a)); break;
    case TAN: r = tan(eval(n.a)); break;
    case ATAN2: r = atan2(eval(n.a), eval(n.b)); break;
    case EXP: r = exp(eval(n.a)); break;
    case LOG: r = log(eval(n.a)); break;
    case ABS: r = fabs(eval(n.a)); break;
    case ASIN: r = asin(eval(n.a)); break;
    case ACOS: r = acos(eval(n.a)); break;
    case ATAN: r = atan(eval(n.a)); break;
    case ORACLE: r = oracle(n.a, n.b); break;
    default: std::abort();
    }
    memo[id] = r;
    return r;
  }
  bool holds(const Decision & d)
  {
    F x = eval(d.a), y = eval(d.b);
    bool t = d.cmp == LT ? x < y : d.cmp == LE ? x <= y : x == y;
    return t == d.outcome;
  }
};

}  // namespace symv

namespace std {
template<>
struct numeric_limits<symv::Sym> : numeric_limits<double>
{};
}  // namespace std

// ------------------------------------------------------------------------------------------
// Eigen integration
#include <Eigen/Core>

namespace Eigen {
template<>
struct NumTraits<symv::Sym> : GenericNumTraits<symv::Sym>
{
  using Real       = symv::Sym;
  using NonInteger = symv::Sym;
  using Literal    = symv::Sym;
  using Nested     = symv::Sym;
  enum {
    IsComplex             = 0,
    IsInteger             = 0,
    IsSigned              = 1,
    RequireInitialization = 1,
    ReadCost              = 1,
    AddCost               = 3,
    MulCost               = 3
  };
  static inline Real epsilon() { return Real(std::numeric_limits<double>::epsilon()); }
  static inline Real dummy_precision() { return Real(1e-12); }
  static inline Real highest() { return Real(std::numeric_limits<double>::max()); }
  static inline Real lowest() { return Real(-std::numeric_limits<double>::max()); }
  static inline int digits10() { return 15; }
  static inline int digits() { return 53; }
};
}  // namespace Eigen

