// C06: Bundle instance BA traced through the LieGroup interface, plus its part<i>() views.
#include "lie_generic.hpp"
using namespace symv;
template<typename S> using BT = smooth::Bundle<smooth::SO3<S>, Eigen::Matrix<S,3,1>>;
int main(int argc, char ** argv)
{
  Unit u;
  u.unit_name = "BA";
  u.val_n = 200;
  if (const char * s = std::getenv("VERIF_SEED")) u.seed = std::strtoull(s, nullptr, 10);
  trace_lie<BT>(u, "ba", 7, 6);
  u.trace("ba_part0", {{"g", 7, "gen"}}, [](const auto & in) {
    using S = typename std::decay_t<decltype(in)>::value_type::value_type;
    const auto b = lg_make<BT<S>>(in[0]);
    return lg_out<S>(typename BT<S>::template PartType<0>(b.template part<0>()));
  });
  u.trace("ba_part1", {{"g", 7, "gen"}}, [](const auto & in) {
    using S = typename std::decay_t<decltype(in)>::value_type::value_type;
    const auto b = lg_make<BT<S>>(in[0]);
    return lg_out<S>(typename BT<S>::template PartType<1>(b.template part<1>()));
  });
  return unit_main(u, argc, argv);
}
