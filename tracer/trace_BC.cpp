// C06: Bundle instance BC traced through the LieGroup interface, plus its part<i>() views.
#include "lie_generic.hpp"
using namespace symv;
template<typename S> using BT = smooth::Bundle<smooth::SE2<S>, smooth::SO3<S>, Eigen::Matrix<S,1,1>, smooth::SO2<S>>;
int main(int argc, char ** argv)
{
  Unit u;
  u.unit_name = "BC";
  u.val_n = 200;
  if (const char * s = std::getenv("VERIF_SEED")) u.seed = std::strtoull(s, nullptr, 10);
  trace_lie<BT>(u, "bc", 11, 8);
  u.trace("bc_part0", {{"g", 11, "gen"}}, [](const auto & in) {
    using S = typename std::decay_t<decltype(in)>::value_type::value_type;
    const auto b = lg_make<BT<S>>(in[0]);
    return lg_out<S>(typename BT<S>::template PartType<0>(b.template part<0>()));
  });
  u.trace("bc_part1", {{"g", 11, "gen"}}, [](const auto & in) {
    using S = typename std::decay_t<decltype(in)>::value_type::value_type;
    const auto b = lg_make<BT<S>>(in[0]);
    return lg_out<S>(typename BT<S>::template PartType<1>(b.template part<1>()));
  });
  u.trace("bc_part2", {{"g", 11, "gen"}}, [](const auto & in) {
    using S = typename std::decay_t<decltype(in)>::value_type::value_type;
    const auto b = lg_make<BT<S>>(in[0]);
    return lg_out<S>(typename BT<S>::template PartType<2>(b.template part<2>()));
  });
  u.trace("bc_part3", {{"g", 11, "gen"}}, [](const auto & in) {
    using S = typename std::decay_t<decltype(in)>::value_type::value_type;
    const auto b = lg_make<BT<S>>(in[0]);
    return lg_out<S>(typename BT<S>::template PartType<3>(b.template part<3>()));
  });
  return unit_main(u, argc, argv);
}
