// C06: Bundle instance BG traced through the LieGroup interface, plus its part<i>() views.
#include "lie_generic.hpp"
using namespace symv;
template<typename S> using BT = smooth::Bundle<Eigen::Matrix<S,1,1>, smooth::C1<S>, smooth::SO2<S>>;
int main(int argc, char ** argv)
{
  Unit u;
  u.unit_name = "BG";
  u.val_n = 200;
  if (const char * s = std::getenv("VERIF_SEED")) u.seed = std::strtoull(s, nullptr, 10);
  trace_lie<BT>(u, "bg", 5, 4);
  u.trace("bg_part0", {{"g", 5, "gen"}}, [](const auto & in) {
    using S = typename std::decay_t<decltype(in)>::value_type::value_type;
    const auto b = lg_make<BT<S>>(in[0]);
    return lg_out<S>(typename BT<S>::template PartType<0>(b.template part<0>()));
  });
  u.trace("bg_part1", {{"g", 5, "gen"}}, [](const auto & in) {
    using S = typename std::decay_t<decltype(in)>::value_type::value_type;
    const auto b = lg_make<BT<S>>(in[0]);
    return lg_out<S>(typename BT<S>::template PartType<1>(b.template part<1>()));
  });
  u.trace("bg_part2", {{"g", 5, "gen"}}, [](const auto & in) {
    using S = typename std::decay_t<decltype(in)>::value_type::value_type;
    const auto b = lg_make<BT<S>>(in[0]);
    return lg_out<S>(typename BT<S>::template PartType<2>(b.template part<2>()));
  });
  return unit_main(u, argc, argv);
}
