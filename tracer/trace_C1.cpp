#include "groups_common.hpp"
using namespace symv;
#define SCALAR_OF(in) typename std::decay_t<decltype(in)>::value_type::value_type
int main(int argc, char ** argv)
{
  Unit u;
  u.unit_name = "C1";
  if (const char * s = std::getenv("VERIF_SEED")) u.seed = std::strtoull(s, nullptr, 10);
  GroupOpts o; o.unit_k = 0; o.rot_k = 1; o.hess = true;
  trace_group<smooth::C1, true>(u, "c1", o);
  u.trace("c1_act", {{"g", 2, "gen"}, {"v", 2, "gen"}}, [](const auto & in) {
    using S = SCALAR_OF(in);
    return out_vec<S>(mk_group<smooth::C1<S>>(in[0]) * as_vec<S, 2>(in[1]));
  });

  return unit_main(u, argc, argv);
}
