// C11: cumulative spline evaluation cspline_eval_vs<K,G> with symbolic control differences, symbolic basis matrix and
// symbolic u (every basis matrix, every u).
#include "lie_generic.hpp"
#include <smooth/spline/cumulative_spline.hpp>
using namespace symv;
#define SCALAR_OF(in) typename std::decay_t<decltype(in)>::value_type::value_type

// which: 0 value, 1 vel, 2 acc, 3 jer
template<int K, template<typename> class GT, int DofG, int Which>
void trace_cs(Unit & u, const std::string & name, const std::string & tk)
{
  std::vector<Arg> args;
  for (int j = 1; j <= K; ++j) args.push_back({"v" + std::to_string(j) + "_", DofG, tk});
  args.push_back({"b", (K + 1) * (K + 1), "gen"});
  args.push_back({"u", 1, "gen"});
  u.trace(name, args, [](const auto & in) {
    using S = SCALAR_OF(in);
    using G = GT<S>;
    std::vector<Eigen::Matrix<S, DofG, 1>> vs;  // (the library's zip_view does not accept raw-pointer iterators)
    for (int j = 0; j < K; ++j) vs.push_back(as_vec<S, DofG>(in[static_cast<size_t>(j)]));
    Eigen::Matrix<S, K + 1, K + 1> B = as_mat<S, K + 1, K + 1>(in[static_cast<size_t>(K)]);
    S uu = in[static_cast<size_t>(K) + 1][0];
    Eigen::Matrix<S, DofG, 1> vel, acc, jer;
    G g;
    if constexpr (Which == 0) g = smooth::cspline_eval_vs<K, G>(vs, B, uu);
    if constexpr (Which == 1) g = smooth::cspline_eval_vs<K, G>(vs, B, uu, vel);
    if constexpr (Which == 2) g = smooth::cspline_eval_vs<K, G>(vs, B, uu, vel, acc);
    if constexpr (Which == 3) g = smooth::cspline_eval_vs<K, G>(vs, B, uu, vel, acc, jer);
    if constexpr (Which == 0) return lg_out<S>(g);
    if constexpr (Which == 1) return out_vec<S>(vel);
    if constexpr (Which == 2) return out_vec<S>(acc);
    if constexpr (Which == 3) return out_vec<S>(jer);
  });
}
// the scalars B~_j(u), j = 1..K, computed with the same library routine and the same Eigen expression as inside
// cspline_eval_vs (monomial_derivatives + dot with the basis column); the C11 theorems show (i) that the spline code uses
// exactly these scalars (syntactic match of the traced DAGs) and (ii) that they are the polynomials sum_r u^r B[r][j]
template<int K>
void trace_basis(Unit & u, const std::string & name)
{
  u.trace(name, {{"b", (K + 1) * (K + 1), "gen"}, {"u", 1, "gen"}}, [](const auto & in) {
    using S = SCALAR_OF(in);
    Eigen::Matrix<S, K + 1, K + 1> B = as_mat<S, K + 1, K + 1>(in[0]);
    const auto U = smooth::monomial_derivatives<K, 0, S>(in[1][0]);
    Eigen::Map<const Eigen::Vector<S, K + 1>> uvec(U[0].data());
    Eigen::Matrix<S, K, 1> out;
    for (int j = 1; j <= K; ++j) out(j - 1) = uvec.dot(B.col(j));
    return out_vec<S>(out);
  });
}
template<typename S> using V2 = Eigen::Matrix<S, 2, 1>;

template<int K>
void vec_family(Unit & u)
{
  const std::string p = "csv" + std::to_string(K);
  trace_cs<K, V2, 2, 0>(u, p + "_val", "gen");
  trace_cs<K, V2, 2, 1>(u, p + "_vel", "gen");
  trace_cs<K, V2, 2, 2>(u, p + "_acc", "gen");
  trace_cs<K, V2, 2, 3>(u, p + "_jer", "gen");
}

int main(int argc, char ** argv)
{
  Unit u;
  u.unit_name = "CS";
  u.val_n     = 200;
  if (const char * s = std::getenv("VERIF_SEED")) u.seed = std::strtoull(s, nullptr, 10);
  vec_family<1>(u);
  vec_family<2>(u);
  vec_family<3>(u);
  vec_family<4>(u);
  trace_basis<1>(u, "cs_basis1");
  trace_basis<2>(u, "cs_basis2");
  trace_cs<1, smooth::SO3, 3, 0>(u, "cso3_1_val", "tan:3");
  trace_cs<1, smooth::SO3, 3, 1>(u, "cso3_1_vel", "tan:3");
  trace_cs<2, smooth::SE2, 3, 0>(u, "cse2_2_val", "tan:1");
  trace_cs<2, smooth::SE2, 3, 1>(u, "cse2_2_vel", "tan:1");
  return unit_main(u, argc, argv);
}
