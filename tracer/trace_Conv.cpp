// C17: relations and conversions between groups (angles, lifts/projections, C1 factorisation, axis rotations,
// quaternion / complex / isometry conversions).
#include "groups_common.hpp"
#include <Eigen/Geometry>
#include <complex>
using namespace symv;
#define SCALAR_OF(in) typename std::decay_t<decltype(in)>::value_type::value_type
int main(int argc, char ** argv)
{
  Unit u;
  u.unit_name = "Conv";
  if (const char * s = std::getenv("VERIF_SEED")) u.seed = std::strtoull(s, nullptr, 10);
  using namespace smooth;
  u.trace("so2_angle", {{"g", 2, "unit:2"}}, [](const auto & in) {
    using S = SCALAR_OF(in);
    return out_scalar<S>(mk_group<SO2<S>>(in[0]).angle());
  });
  u.trace("so2_angle_cw", {{"g", 2, "unit:2"}}, [](const auto & in) {
    using S = SCALAR_OF(in);
    return out_scalar<S>(mk_group<SO2<S>>(in[0]).angle_cw());
  });
  u.trace("so2_angle_ccw", {{"g", 2, "unit:2"}}, [](const auto & in) {
    using S = SCALAR_OF(in);
    return out_scalar<S>(mk_group<SO2<S>>(in[0]).angle_ccw());
  });
  u.trace("so2_from_angle", {{"t", 1, "gen"}}, [](const auto & in) {
    using S = SCALAR_OF(in);
    return out_vec<S>(SO2<S>(in[0][0]).coeffs());
  });
  u.trace("so2_from_pair", {{"c", 2, "gen"}}, [](const auto & in) {
    using S = SCALAR_OF(in);
    return out_vec<S>(SO2<S>(in[0][0], in[0][1]).coeffs());
  });
  u.trace("so2_from_complex", {{"c", 2, "gen"}}, [](const auto & in) {
    using S = SCALAR_OF(in);
    return out_vec<S>(SO2<S>(std::complex<S>(in[0][0], in[0][1])).coeffs());
  });
  u.trace("so2_u1", {{"g", 2, "unit:2"}}, [](const auto & in) {
    using S = SCALAR_OF(in);
    auto c = mk_group<SO2<S>>(in[0]).u1();
    Eigen::Matrix<S, 2, 1> v(c.real(), c.imag());
    return out_vec<S>(v);
  });
  u.trace("so2_lift_so3", {{"g", 2, "unit:2"}}, [](const auto & in) {
    using S = SCALAR_OF(in);
    return out_vec<S>(mk_group<SO2<S>>(in[0]).lift_so3().coeffs());
  });
  u.trace("so3_project_so2", {{"g", 4, "unit:4"}}, [](const auto & in) {
    using S = SCALAR_OF(in);
    return out_vec<S>(mk_group<SO3<S>>(in[0]).project_so2().coeffs());
  });
  u.trace("se2_lift_se3", {{"g", 4, "unit:2"}}, [](const auto & in) {
    using S = SCALAR_OF(in);
    return out_vec<S>(mk_group<SE2<S>>(in[0]).lift_se3().coeffs());
  });
  u.trace("se3_project_se2", {{"g", 7, "unit:4"}}, [](const auto & in) {
    using S = SCALAR_OF(in);
    return out_vec<S>(mk_group<SE3<S>>(in[0]).project_se2().coeffs());
  });
  u.trace("c1_scaling", {{"g", 2, "gen"}}, [](const auto & in) {
    using S = SCALAR_OF(in);
    return out_scalar<S>(mk_group<C1<S>>(in[0]).scaling());
  });
  u.trace("c1_angle", {{"g", 2, "gen"}}, [](const auto & in) {
    using S = SCALAR_OF(in);
    return out_scalar<S>(mk_group<C1<S>>(in[0]).angle());
  });
  u.trace("c1_so2", {{"g", 2, "gen"}}, [](const auto & in) {
    using S = SCALAR_OF(in);
    return out_vec<S>(mk_group<C1<S>>(in[0]).so2().coeffs());
  });
  u.trace("c1_from_polar", {{"p", 2, "gen"}}, [](const auto & in) {
    using S = SCALAR_OF(in);
    return out_vec<S>(C1<S>(in[0][0], in[0][1]).coeffs());
  });
  u.trace("c1_from_complex", {{"c", 2, "gen"}}, [](const auto & in) {
    using S = SCALAR_OF(in);
    return out_vec<S>(C1<S>(std::complex<S>(in[0][0], in[0][1])).coeffs());
  });
  u.trace("so3_rot_x", {{"t", 1, "gen"}}, [](const auto & in) {
    using S = SCALAR_OF(in);
    return out_vec<S>(SO3<S>::rot_x(in[0][0]).coeffs());
  });
  u.trace("so3_rot_y", {{"t", 1, "gen"}}, [](const auto & in) {
    using S = SCALAR_OF(in);
    return out_vec<S>(SO3<S>::rot_y(in[0][0]).coeffs());
  });
  u.trace("so3_rot_z", {{"t", 1, "gen"}}, [](const auto & in) {
    using S = SCALAR_OF(in);
    return out_vec<S>(SO3<S>::rot_z(in[0][0]).coeffs());
  });
  // quaternion constructor: argument order x y z w (coeffs layout)
  u.trace("so3_from_quat", {{"q", 4, "gen"}}, [](const auto & in) {
    using S = SCALAR_OF(in);
    Eigen::Quaternion<S> q(in[0][3], in[0][0], in[0][1], in[0][2]);
    return out_vec<S>(SO3<S>(q).coeffs());
  });
  u.trace("so3_quat", {{"g", 4, "unit:4"}}, [](const auto & in) {
    using S = SCALAR_OF(in);
    return out_vec<S>(mk_group<SO3<S>>(in[0]).quat().coeffs());
  });
  // isometry conversions
  u.trace("se2_isometry", {{"g", 4, "unit:2"}}, [](const auto & in) {
    using S = SCALAR_OF(in);
    return out_mat<S>(mk_group<SE2<S>>(in[0]).isometry().matrix());
  });
  u.trace("se2_from_isometry", {{"g", 4, "unit:2"}}, [](const auto & in) {
    using S = SCALAR_OF(in);
    // isometry with rotation part [[c,-s],[s,c]] and translation (x,y), built without the library
    Eigen::Transform<S, 2, Eigen::Isometry> t;
    t.matrix().setIdentity();
    t.matrix()(0, 0) = in[0][3];
    t.matrix()(0, 1) = -in[0][2];
    t.matrix()(1, 0) = in[0][2];
    t.matrix()(1, 1) = in[0][3];
    t.matrix()(0, 2) = in[0][0];
    t.matrix()(1, 2) = in[0][1];
    return out_vec<S>(SE2<S>(t).coeffs());
  });
  u.trace("se3_isometry", {{"g", 7, "unit:4"}}, [](const auto & in) {
    using S = SCALAR_OF(in);
    return out_mat<S>(mk_group<SE3<S>>(in[0]).isometry().matrix());
  });
  return unit_main(u, argc, argv);
}
