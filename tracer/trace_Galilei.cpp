#include "groups_common.hpp"
using namespace symv;
#define SCALAR_OF(in) typename std::decay_t<decltype(in)>::value_type::value_type
int main(int argc, char ** argv)
{
  Unit u;
  u.unit_name = "Galilei";
  if (const char * s = std::getenv("VERIF_SEED")) u.seed = std::strtoull(s, nullptr, 10);
  GroupOpts o; o.unit_k = 4; o.rot_k = 3; o.hess = false;
  trace_group<smooth::Galilei>(u, "gal", o);
  u.trace("gal_act", {{"g", 11, "unit:4"}, {"v", 4, "gen"}}, [](const auto & in) {
    using S = SCALAR_OF(in);
    return out_vec<S>(mk_group<smooth::Galilei<S>>(in[0]) * as_vec<S, 4>(in[1]));
  });
  u.trace("gal_dr_action", {{"g", 11, "unit:4"}, {"v", 4, "gen"}}, [](const auto & in) {
    using S = SCALAR_OF(in);
    return out_mat<S>(mk_group<smooth::Galilei<S>>(in[0]).dr_action(as_vec<S, 4>(in[1])));
  });

  return unit_main(u, argc, argv);
}
