// C06: fixed- and dynamic-size Eigen vectors and built-in scalars used through the LieGroup interface.
#include "lie_generic.hpp"
using namespace symv;
template<typename S> using V1 = Eigen::Matrix<S, 1, 1>;
template<typename S> using V2 = Eigen::Matrix<S, 2, 1>;
template<typename S> using V3 = Eigen::Matrix<S, 3, 1>;
template<typename S> using V4 = Eigen::Matrix<S, 4, 1>;
template<typename S> using VX = Eigen::Matrix<S, -1, 1>;
template<typename S> using SC = S;
int main(int argc, char ** argv)
{
  Unit u;
  u.unit_name = "Rn";
  if (const char * s = std::getenv("VERIF_SEED")) u.seed = std::strtoull(s, nullptr, 10);
  trace_lie<V1>(u, "v1", 1, 1);
  trace_lie<V2>(u, "v2", 2, 2);
  trace_lie<V3>(u, "v3", 3, 3);
  trace_lie<V4>(u, "v4", 4, 4);
  trace_lie<VX>(u, "vx0", 0, 0);
  trace_lie<VX>(u, "vx1", 1, 1);
  trace_lie<VX>(u, "vx3", 3, 3);
  trace_lie<VX>(u, "vx5", 5, 5);
  trace_lie<SC>(u, "sc", 1, 1);
  return unit_main(u, argc, argv);
}
