#include "groups_common.hpp"
using namespace symv;
#define SCALAR_OF(in) typename std::decay_t<decltype(in)>::value_type::value_type
int main(int argc, char ** argv)
{
  Unit u;
  u.unit_name = "SE3H";
  if (const char * s = std::getenv("VERIF_SEED")) u.seed = std::strtoull(s, nullptr, 10);
  GroupOpts o; o.unit_k = 4; o.rot_k = 3; o.hess = true; o.algebra = false; o.explog = false; o.jac = false;
  trace_group<smooth::SE3, true>(u, "se3", o);

  return unit_main(u, argc, argv);
}
