#include "groups_common.hpp"
using namespace symv;
template<typename S> using SEK1 = smooth::SE_K_3<S, 1>;
template<typename S> using SEK2 = smooth::SE_K_3<S, 2>;
template<typename S> using SEK3 = smooth::SE_K_3<S, 3>;
#define SCALAR_OF(in) typename std::decay_t<decltype(in)>::value_type::value_type
int main(int argc, char ** argv)
{
  Unit u;
  u.unit_name = "SEK3_1";
  if (const char * s = std::getenv("VERIF_SEED")) u.seed = std::strtoull(s, nullptr, 10);
  GroupOpts o; o.unit_k = 4; o.rot_k = 3;
  trace_group<SEK1>(u, "sek1", o);

  return unit_main(u, argc, argv);
}
