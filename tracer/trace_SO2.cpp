#include "groups_common.hpp"
using namespace symv;
#define SCALAR_OF(in) typename std::decay_t<decltype(in)>::value_type::value_type
int main(int argc, char ** argv)
{
  Unit u;
  u.unit_name = "SO2";
  if (const char * s = std::getenv("VERIF_SEED")) u.seed = std::strtoull(s, nullptr, 10);
  GroupOpts o; o.unit_k = 2; o.rot_k = 1; o.hess = true;
  trace_group<smooth::SO2, true>(u, "so2", o);
  u.trace("so2_act", {{"g", 2, "unit:2"}, {"v", 2, "gen"}}, [](const auto & in) {
    using S = SCALAR_OF(in);
    return out_vec<S>(mk_group<smooth::SO2<S>>(in[0]) * as_vec<S, 2>(in[1]));
  });
  u.trace("so2_dr_action", {{"g", 2, "unit:2"}, {"v", 2, "gen"}}, [](const auto & in) {
    using S = SCALAR_OF(in);
    return out_mat<S>(mk_group<smooth::SO2<S>>(in[0]).dr_action(as_vec<S, 2>(in[1])));
  });

  return unit_main(u, argc, argv);
}
