#include "groups_common.hpp"
#include <smooth/detail/trig.hpp>
using namespace symv;
#define SCALAR_OF(in) typename std::decay_t<decltype(in)>::value_type::value_type
#define KERNEL(NAME)                                                             \
  u.trace(#NAME, {{"x", 1, "sq"}}, [](const auto & in) {                          \
    using S = SCALAR_OF(in);                                                     \
    return out_scalar<S>(smooth::detail::NAME<S>(in[0][0]));                     \
  });
int main(int argc, char ** argv)
{
  Unit u;
  u.unit_name = "Trig";
  if (const char * s = std::getenv("VERIF_SEED")) u.seed = std::strtoull(s, nullptr, 10);
  KERNEL(cos_2)
  KERNEL(sin_3)
  KERNEL(cos_4)
  KERNEL(sin_5)
  KERNEL(cos_6)
  return unit_main(u, argc, argv);
}
